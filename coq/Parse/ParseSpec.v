(* C17 -- the conventional grammar, as a stratified unambiguous grammar over token lists:

     E_k   ::= E_k op_k E_{k+1} | E_{k+1}            k = 0..10, all left-associative
               0 |   1 ^(xor)   2 &   3 ==   4 >   5 <   6 !=   7 <=   8 >=   9 + -   10 * /
     factor (= E_11)
           ::= '-' factor | '+' factor | atom POW factor | atom
             | IMPLICIT_MUL POW factor | IMPLICIT_MUL
     atom  ::= NUMERIC | IDENTIFIER | '(' E_0 ')' | IDENTIFIER '(' args ')' | PIECEWISE '(' pairs ')'
             | '~' prim
     prim  ::= atom | '-' factor | '+' factor | IMPLICIT_MUL POW factor | IMPLICIT_MUL
     args  ::= E_0 ')' | E_0 ',' args          pairs ::= pair ')' | pair ',' pairs
     pair  ::= '(' E_0 ',' E_0 ')'

   i.e. the usual expr / term / factor / power / atom stratification: + - below * /, unary signs
   bind tighter than * / and looser than **, ** is right-associative with an atom as its base and a
   factor (which may start with a sign) as its exponent.  The levels of the comparison and logical
   operators are those of parser.yy (each in a level of its own), recorded here by hand.
   The relation [G k ts t]: the token list ts is derived from E_k with syntax tree t
   (parentheses and unary plus leave no node, as in the semantic actions). *)
From SE Require Export Parse.ParseModel.
Local Open Scope N_scope.

(* the conventional table, written by hand (NOT read from the source) *)
Definition conv_level (op : binop) : N :=
  match op with
  | BOr => 0 | BXor => 1 | BAnd => 2 | BEq => 3 | BGt => 4 | BLt => 5 | BNe => 6 | BLe => 7
  | BGe => 8 | BAdd | BSub => 9 | BMul | BDiv => 10 | BPow => 13
  end.
Definition conv_assoc (op : binop) : assoc :=
  match op with BPow => AssocRight | _ => AssocLeft end.
Definition LEVEL_UMINUS : N := 11.
Definition LEVEL_UPLUS : N := 12.
Definition LEVEL_POW : N := 13.
Definition LEVEL_NOT : N := 14.

Definition token_of_binop (op : binop) : token :=
  match op with
  | BOr => TOp 124 | BXor => TOp 94 | BAnd => TOp 38 | BEq => TEq | BGt => TOp 62 | BLt => TOp 60
  | BNe => TNe | BLe => TLe | BGe => TGe | BAdd => TOp 43 | BSub => TOp 45 | BMul => TOp 42
  | BDiv => TOp 47 | BPow => TPow
  end.

Inductive G : N -> list token -> past -> Prop :=
| G_up : forall k ts t, k < 11 -> G (k + 1) ts t -> G k ts t
| G_bin : forall k op a c ta tc,
    k < 11 -> conv_level op = k -> G k a ta -> G (k + 1) c tc ->
    G k (a ++ token_of_binop op :: c) (PBin op ta tc)
| G_neg : forall a ta, G 11 a ta -> G 11 (TOp 45 :: a) (PNeg ta)
| G_pos : forall a ta, G 11 a ta -> G 11 (TOp 43 :: a) ta
| G_pow : forall a c ta tc, Atom a ta -> G 11 c tc -> G 11 (a ++ TPow :: c) (PBin BPow ta tc)
| G_implpow : forall s c tc, G 11 c tc -> G 11 (TImpl s :: TPow :: c) (PImplPow s tc)
| G_atom : forall a ta, Atom a ta -> G 11 a ta
| G_impl : forall s, G 11 [TImpl s] (PImpl s)
with Atom : list token -> past -> Prop :=
| A_num : forall s, Atom [TNum s] (PNum s)
| A_ident : forall s, Atom [TIdent s] (PIdent s)
| A_paren : forall a ta, G 0 a ta -> Atom (TOp 40 :: a ++ [TOp 41]) ta
| A_call : forall f l tl, Args l tl -> Atom (TIdent f :: TOp 40 :: l) (PCall f tl)
| A_pw : forall l tl, Pairs l tl -> Atom (TPiecewise :: TOp 40 :: l) (PPw tl)
| A_not : forall a ta, Prim a ta -> Atom (TOp 126 :: a) (PNot ta)
with Prim : list token -> past -> Prop :=
| P_atom : forall a ta, Atom a ta -> Prim a ta
| P_neg : forall a ta, G 11 a ta -> Prim (TOp 45 :: a) (PNeg ta)
| P_pos : forall a ta, G 11 a ta -> Prim (TOp 43 :: a) ta
| P_implpow : forall s c tc, G 11 c tc -> Prim (TImpl s :: TPow :: c) (PImplPow s tc)
| P_impl : forall s, Prim [TImpl s] (PImpl s)
with Args : list token -> list past -> Prop :=
| Args_one : forall a ta, G 0 a ta -> Args (a ++ [TOp 41]) [ta]
| Args_cons : forall a ta l tl, G 0 a ta -> Args l tl -> Args (a ++ TOp 44 :: l) (ta :: tl)
with Pairs : list token -> list (past * past) -> Prop :=
| Pairs_one : forall e te c tc,
    G 0 e te -> G 0 c tc ->
    Pairs (TOp 40 :: e ++ TOp 44 :: c ++ [TOp 41; TOp 41]) [(te, tc)]
| Pairs_cons : forall e te c tc l tl,
    G 0 e te -> G 0 c tc -> Pairs l tl ->
    Pairs (TOp 40 :: e ++ TOp 44 :: c ++ TOp 41 :: TOp 44 :: l) ((te, tc) :: tl).

(* what a sub-parser called with minimal precedence minp may return *)
Definition GL (minp : N) (ts : list token) (t : past) : Prop :=
  if minp <=? 10 then G minp ts t else if minp <=? 13 then G 11 ts t else Prim ts t.
