(* C17 / C18 -- facts about the lexer model (tokenizer.re):
     - every token is a non-empty slice of the input (nothing is skipped but white space)
     - lex_total: lexing never runs out of fuel
     - scan_numeric_sound: what the lexer takes as `numeric` matches the regular expression
         (dig* "."? dig+ ([eE][-+]?dig+)?) | (dig+ ".")
     - lex_stops_at_nul: bytes after the first NUL never influence the token stream (the
       cursor never passes the terminator: only the rule `end` matches a NUL) *)
From SE Require Import Parse.Lexer.
From Coq Require Import Lia ZifyBool ZifyN ZifyNat.
Local Open Scope N_scope.

(* ------------------------------------------------------------------ span *)
Lemma span_split : forall p l a z, span p l = (a, z) -> l = a ++ z.
Proof.
  induction l as [|c l IH]; intros a z H; simpl in H.
  - inversion H. reflexivity.
  - destruct (p c).
    + destruct (span p l) as [a1 z1] eqn:E. inversion H; subst. simpl. f_equal.
      apply (IH _ _ eq_refl).
    + inversion H; subst. reflexivity.
Qed.

Lemma span_all : forall p l a z, span p l = (a, z) -> forallb p a = true.
Proof.
  induction l as [|c l IH]; intros a z H; simpl in H.
  - inversion H. reflexivity.
  - destruct (p c) eqn:Ec.
    + destruct (span p l) as [a1 z1] eqn:E. inversion H; subst. simpl. rewrite Ec.
      apply (IH _ _ eq_refl).
    + inversion H; subst. reflexivity.
Qed.

Lemma span_stop : forall p l a c z, span p l = (a, c :: z) -> p c = false.
Proof.
  induction l as [|d l IH]; intros a c z H; simpl in H.
  - inversion H.
  - destruct (p d) eqn:Ed.
    + destruct (span p l) as [a1 z1] eqn:E. inversion H; subst. apply (IH _ _ _ eq_refl).
    + inversion H; subst. assumption.
Qed.

(* a byte outside the class ends the span exactly as the end of input does *)
Lemma span_app_stop : forall p l x post a z,
  p x = false -> span p l = (a, z) -> span p (l ++ x :: post) = (a, z ++ x :: post).
Proof.
  induction l as [|c l IH]; intros x post a z Hx H; simpl in *.
  - inversion H; subst. rewrite Hx. reflexivity.
  - destruct (p c).
    + destruct (span p l) as [a1 z1] eqn:E. inversion H; subst.
      rewrite (IH x post _ _ Hx eq_refl). reflexivity.
    + inversion H; subst. reflexivity.
Qed.

(* ------------------------------------------------------------------ the numeric regex *)
Definition digits (ds : list N) : Prop := forallb is_dig ds = true.
Definition digits1 (ds : list N) : Prop := ds <> [] /\ digits ds.

(* ([eE][-+]?dig+)? *)
Definition exp_part (ex : list N) : Prop :=
  ex = [] \/ exists e sg ds, ex = e :: sg ++ ds /\ is_e e = true /\
                             (sg = [] \/ exists s, sg = [s] /\ is_sign s = true) /\ digits1 ds.

(* (dig* "."? dig+ exp?) | (dig+ ".") *)
Definition is_numeric (n : list N) : Prop :=
  (exists d1 dot d2 ex, n = d1 ++ dot ++ d2 ++ ex /\ digits d1 /\ (dot = [] \/ dot = [46]) /\
                        digits1 d2 /\ exp_part ex)
  \/ (exists d1, n = d1 ++ [46] /\ digits1 d1).

Lemma nonempty_true : forall A (l : list A), nonempty l = true -> l <> [].
Proof. intros A l H. destruct l; [discriminate|discriminate]. Qed.

Lemma scan_exp_cons : forall e r1,
  scan_exp (e :: r1) =
  if is_e e then
    let '(sg, r2) := split_sign r1 in
    let '(ds, r3) := span is_dig r2 in
    if nonempty ds then (e :: sg ++ ds, r3) else ([], e :: r1)
  else ([], e :: r1).
Proof. reflexivity. Qed.

Lemma split_sign_sound : forall r1 sg r2,
  split_sign r1 = (sg, r2) ->
  r1 = sg ++ r2 /\ (sg = [] \/ exists s, sg = [s] /\ is_sign s = true).
Proof.
  intros r1 sg r2 H. unfold split_sign in H. destruct r1 as [|s r2'].
  - inversion H; subst. split; [reflexivity|left; reflexivity].
  - destruct (is_sign s) eqn:Es; inversion H; subst.
    + split; [reflexivity|right; exists s; split; [reflexivity|assumption]].
    + split; [reflexivity|left; reflexivity].
Qed.

Lemma scan_exp_sound : forall r ex r', scan_exp r = (ex, r') -> r = ex ++ r' /\ exp_part ex.
Proof.
  intros r ex r' H.
  destruct r as [|e r1]; [inversion H; subst; split; [reflexivity|left; reflexivity]|].
  rewrite scan_exp_cons in H.
  destruct (is_e e) eqn:Ee; [|inversion H; subst; split; [reflexivity|left; reflexivity]].
  destruct (split_sign r1) as [sg r2] eqn:Esg.
  destruct (split_sign_sound _ _ _ Esg) as [Hr1 Hsg].
  destruct (span is_dig r2) as [ds r3] eqn:Ed.
  destruct (nonempty ds) eqn:En.
  - inversion H; subst. pose proof (span_split _ _ _ _ Ed) as Hs. subst r2.
    split; [simpl; rewrite <- app_assoc; reflexivity|].
    right. exists e, sg, ds. split; [reflexivity|]. split; [assumption|].
    split; [assumption|].
    split; [apply nonempty_true; assumption|apply (span_all _ _ _ _ Ed)].
  - inversion H; subst. split; [reflexivity|left; reflexivity].
Qed.

Lemma scan_tail_cons : forall d1 c r2,
  scan_tail d1 (c :: r2) = if c =? 46 then scan_dot d1 r2 else scan_nodot d1 (c :: r2).
Proof. reflexivity. Qed.

Lemma scan_nodot_sound : forall d1 r1 n r,
  digits d1 -> scan_nodot d1 r1 = Some (n, r) -> d1 ++ r1 = n ++ r /\ n <> [] /\ is_numeric n.
Proof.
  intros d1 r1 n r Hd1 H0. unfold scan_nodot in H0.
  destruct (nonempty d1) eqn:En; [|discriminate].
  destruct (scan_exp r1) as [ex r4] eqn:Ee. inversion H0; subst.
  destruct (scan_exp_sound _ _ _ Ee) as [Hr1 Hex]. subst r1.
  split; [rewrite app_assoc; reflexivity|].
  split; [apply nonempty_true in En; destruct d1; [congruence|discriminate]|].
  left. exists [], [], d1, ex. split; [reflexivity|]. split; [reflexivity|].
  split; [left; reflexivity|].
  split; [split; [apply nonempty_true; assumption|assumption]|assumption].
Qed.

Lemma scan_dot_sound : forall d1 r2 n r,
  digits d1 -> scan_dot d1 r2 = Some (n, r) -> d1 ++ 46 :: r2 = n ++ r /\ n <> [] /\ is_numeric n.
Proof.
  intros d1 r2 n r Hd1 H. unfold scan_dot in H.
  destruct (span is_dig r2) as [d2 r3] eqn:E2.
  pose proof (span_split _ _ _ _ E2) as Hs2. pose proof (span_all _ _ _ _ E2) as Hd2.
  destruct (nonempty d2) eqn:En2.
  - destruct (scan_exp r3) as [ex r4] eqn:Ee. inversion H; subst.
    destruct (scan_exp_sound _ _ _ Ee) as [Hr3 Hex]. subst r3.
    split; [repeat (rewrite <- app_assoc; simpl); reflexivity|].
    split; [destruct d1; discriminate|].
    left. exists d1, [46], d2, ex. split; [reflexivity|]. split; [assumption|].
    split; [right; reflexivity|].
    split; [split; [apply nonempty_true; assumption|assumption]|assumption].
  - destruct (nonempty d1) eqn:En1; [|discriminate]. inversion H; subst.
    split; [rewrite <- app_assoc; reflexivity|].
    split; [destruct d1; discriminate|].
    right. exists d1. split; [reflexivity|]. split; [apply nonempty_true; assumption|assumption].
Qed.

Theorem scan_numeric_sound : forall bs n r,
  scan_numeric bs = Some (n, r) -> bs = n ++ r /\ n <> [] /\ is_numeric n.
Proof.
  intros bs n r H. unfold scan_numeric in H.
  destruct (span is_dig bs) as [d1 r1] eqn:E1.
  pose proof (span_split _ _ _ _ E1) as Hs1. pose proof (span_all _ _ _ _ E1) as Hd1. subst bs.
  destruct r1 as [|c r2]; [apply (scan_nodot_sound d1 [] n r Hd1 H)|].
  rewrite scan_tail_cons in H.
  destruct (N.eqb_spec c 46) as [->|Hc].
  - apply (scan_dot_sound d1 r2 n r Hd1 H).
  - apply (scan_nodot_sound d1 (c :: r2) n r Hd1 H).
Qed.

(* ------------------------------------------------------------------ one token *)
(* the text of the token is a prefix of the input; it is empty only for END_OF_FILE *)
Lemma lex_one_split : forall bs t r,
  lex_one bs = (t, r) -> exists txt, bs = txt ++ r /\ (t <> TEnd -> txt <> []).
Proof.
  intros bs t r H. unfold lex_one in H.
  destruct bs as [|c r0]; [inversion H; subst; exists []; split; [reflexivity|congruence]|].
  destruct (c =? 0); [inversion H; subst; exists []; split; [reflexivity|congruence]|].
  destruct (scan_numeric (c :: r0)) as [[num r1]|] eqn:En.
  - destruct (scan_numeric_sound _ _ _ En) as [Hs [Hne _]].
    destruct r1 as [|d r1'].
    + inversion H; subst. exists num. split; [assumption|intros _; assumption].
    + destruct (is_char d).
      * destruct (span is_identc (d :: r1')) as [id r2] eqn:Ei. inversion H; subst.
        pose proof (span_split _ _ _ _ Ei) as Hi. exists (num ++ id).
        split; [rewrite Hs, Hi; rewrite app_assoc; reflexivity|].
        intros _. destruct num; [congruence|discriminate].
      * inversion H; subst. exists num. split; [assumption|intros _; assumption].
  - destruct (is_char c) eqn:Ec.
    + destruct (span is_identc (c :: r0)) as [id r1] eqn:Ei.
      pose proof (span_split _ _ _ _ Ei) as Hi.
      assert (Hid : id <> []).
      { simpl in Ei. unfold is_identc in Ei at 1. rewrite Ec in Ei. simpl in Ei.
        destruct (span is_identc r0). inversion Ei. discriminate. }
      inversion H; subst. exists id. split; [assumption|intros _; assumption].
    + assert (Hone : forall t', (t', r0) = (t, r) -> exists txt, c :: r0 = txt ++ r /\ (t <> TEnd -> txt <> [])).
      { intros t' H0. inversion H0; subst. exists [c]. split; [reflexivity|intros _; discriminate]. }
      assert (Htwo : forall t' d r', r0 = d :: r' -> (t', r') = (t, r) ->
                                     exists txt, c :: r0 = txt ++ r /\ (t <> TEnd -> txt <> [])).
      { intros t' d r' Hr0 H0. inversion H0; subst. exists [c; d]. split; [reflexivity|intros _; discriminate]. }
      destruct r0 as [|d r'].
      * destruct (c =? 64); [apply (Hone TPow); assumption|].
        destruct (is_op c); [apply (Hone (TOp c)); assumption|apply (Hone TBad); assumption].
      * destruct ((c =? 42) && (d =? 42)); [apply (Htwo TPow d r'); [reflexivity|assumption]|].
        destruct ((c =? 60) && (d =? 61)); [apply (Htwo TLe d r'); [reflexivity|assumption]|].
        destruct ((c =? 62) && (d =? 61)); [apply (Htwo TGe d r'); [reflexivity|assumption]|].
        destruct ((c =? 33) && (d =? 61)); [apply (Htwo TNe d r'); [reflexivity|assumption]|].
        destruct ((c =? 61) && (d =? 61)); [apply (Htwo TEq d r'); [reflexivity|assumption]|].
        destruct (c =? 64); [apply (Hone TPow); assumption|].
        destruct (is_op c); [apply (Hone (TOp c)); assumption|apply (Hone TBad); assumption].
Qed.

Lemma lex_one_progress : forall bs t r,
  lex_one bs = (t, r) -> t <> TEnd -> (List.length r < List.length bs)%nat.
Proof.
  intros bs t r H Ht. destruct (lex_one_split _ _ _ H) as [txt [Hs Hne]].
  specialize (Hne Ht). subst bs. rewrite app_length. destruct txt; [congruence|simpl; lia].
Qed.

(* ------------------------------------------------------------------ totality *)
Lemma span_len : forall p l, (List.length (snd (span p l)) <= List.length l)%nat.
Proof.
  intros p l. destruct (span p l) as [a z] eqn:E. apply span_split in E. subst.
  simpl. rewrite app_length. lia.
Qed.

Lemma lex_fuel_total : forall f bs, (List.length bs < f)%nat -> lex_fuel f bs <> None.
Proof.
  induction f as [|f IH]; intros bs Hlen; [lia|].
  simpl. pose proof (span_len is_ws bs) as Hw.
  destruct (lex_one (snd (span is_ws bs))) as [t r] eqn:E.
  destruct t; try discriminate;
    (assert (Hp : (List.length r < List.length (snd (span is_ws bs)))%nat)
       by (apply (lex_one_progress _ _ _ E); discriminate);
     specialize (IH r); destruct (lex_fuel f r); [discriminate|apply IH; lia]).
Qed.

(* C18: lexing is total *)
Theorem lex_total : forall bs, lex bs <> None.
Proof. intros bs. unfold lex. apply lex_fuel_total. lia. Qed.

Lemma lex_fuel_mono : forall f bs l, lex_fuel f bs = Some l ->
  forall f', (f <= f')%nat -> lex_fuel f' bs = Some l.
Proof.
  induction f as [|f IH]; intros bs l H f' Hle; [discriminate|].
  destruct f' as [|f']; [lia|]. simpl in *.
  destruct (lex_one (snd (span is_ws bs))) as [t r] eqn:E.
  destruct t; try assumption;
    (destruct (lex_fuel f r) as [l0|] eqn:E0; [|discriminate];
     rewrite (IH r l0 E0 f') by lia; assumption).
Qed.

(* ------------------------------------------------------------------ NUL *)
Definition nonul (bs : list N) : Prop := forallb (fun c => negb (c =? 0)) bs = true.

Lemma nonul_app : forall a z, nonul (a ++ z) -> nonul z.
Proof.
  unfold nonul. intros a z H. rewrite forallb_app in H. apply andb_true_iff in H. tauto.
Qed.

Lemma split_sign_nul : forall r1 post sg r2,
  split_sign r1 = (sg, r2) -> split_sign (r1 ++ 0 :: post) = (sg, r2 ++ 0 :: post).
Proof.
  intros r1 post sg r2 H. destruct r1 as [|s r2'].
  - inversion H; subst. reflexivity.
  - change ((s :: r2') ++ 0 :: post) with (s :: (r2' ++ 0 :: post)).
    assert (Hc : forall r, split_sign (s :: r) = if is_sign s then ([s], r) else ([], s :: r))
      by reflexivity.
    rewrite Hc in *. destruct (is_sign s); inversion H; subst; reflexivity.
Qed.

Lemma scan_exp_nul : forall r post ex r',
  scan_exp r = (ex, r') -> scan_exp (r ++ 0 :: post) = (ex, r' ++ 0 :: post).
Proof.
  intros r post ex r' H.
  destruct r as [|e r1].
  - inversion H; subst. reflexivity.
  - change ((e :: r1) ++ 0 :: post) with (e :: (r1 ++ 0 :: post)).
    rewrite scan_exp_cons in *.
    destruct (is_e e); [|inversion H; subst; reflexivity].
    destruct (split_sign r1) as [sg r2] eqn:Esg.
    rewrite (split_sign_nul r1 post sg r2 Esg).
    destruct (span is_dig r2) as [ds r3] eqn:Ed.
    rewrite (span_app_stop is_dig r2 0 post ds r3 eq_refl Ed).
    destruct (nonempty ds); inversion H; subst; reflexivity.
Qed.

Lemma scan_nodot_nul : forall d1 r1 post,
  scan_nodot d1 (r1 ++ 0 :: post) =
  match scan_nodot d1 r1 with Some (n, r) => Some (n, r ++ 0 :: post) | None => None end.
Proof.
  intros d1 r1 post. unfold scan_nodot. destruct (nonempty d1); [|reflexivity].
  destruct (scan_exp r1) as [ex r4] eqn:Ee. rewrite (scan_exp_nul r1 post ex r4 Ee). reflexivity.
Qed.

Lemma scan_dot_nul : forall d1 r2 post,
  scan_dot d1 (r2 ++ 0 :: post) =
  match scan_dot d1 r2 with Some (n, r) => Some (n, r ++ 0 :: post) | None => None end.
Proof.
  intros d1 r2 post. unfold scan_dot.
  destruct (span is_dig r2) as [d2 r3] eqn:E2.
  rewrite (span_app_stop is_dig r2 0 post d2 r3 eq_refl E2).
  destruct (nonempty d2).
  - destruct (scan_exp r3) as [ex r4] eqn:Ee. rewrite (scan_exp_nul r3 post ex r4 Ee). reflexivity.
  - destruct (nonempty d1); reflexivity.
Qed.

Lemma scan_numeric_nul : forall bs post,
  scan_numeric (bs ++ 0 :: post) =
  match scan_numeric bs with Some (n, r) => Some (n, r ++ 0 :: post) | None => None end.
Proof.
  intros bs post. unfold scan_numeric.
  destruct (span is_dig bs) as [d1 r1] eqn:E1.
  rewrite (span_app_stop is_dig bs 0 post d1 r1 eq_refl E1).
  destruct r1 as [|c r2].
  - change ([] ++ 0 :: post) with (0 :: post). rewrite scan_tail_cons.
    change (0 =? 46) with false. cbv iota.
    change (0 :: post) with ([] ++ 0 :: post). apply scan_nodot_nul.
  - change ((c :: r2) ++ 0 :: post) with (c :: (r2 ++ 0 :: post)). rewrite !scan_tail_cons.
    destruct (c =? 46).
    + apply scan_dot_nul.
    + change (c :: r2 ++ 0 :: post) with ((c :: r2) ++ 0 :: post). apply scan_nodot_nul.
Qed.

Lemma lex_one_nul : forall bs post t r,
  bs <> [] -> nonul bs -> lex_one bs = (t, r) -> lex_one (bs ++ 0 :: post) = (t, r ++ 0 :: post).
Proof.
  intros bs post t r Hne Hnz H. unfold lex_one in *.
  destruct bs as [|c r0]; [congruence|]. simpl app.
  assert (Hc0 : (c =? 0) = false).
  { unfold nonul in Hnz. simpl in Hnz. apply andb_true_iff in Hnz. destruct Hnz as [Hc _].
    destruct (c =? 0); [discriminate|reflexivity]. }
  cbv beta iota. rewrite Hc0 in *.
  change (c :: r0 ++ 0 :: post) with ((c :: r0) ++ 0 :: post).
  rewrite scan_numeric_nul.
  destruct (scan_numeric (c :: r0)) as [[num r1]|] eqn:En.
  - destruct r1 as [|d r1'].
    + simpl app. cbv beta iota. change (is_char 0) with false. cbv iota.
      inversion H; subst. reflexivity.
    + simpl app. cbv beta iota. destruct (is_char d).
      * destruct (span is_identc (d :: r1')) as [id r2] eqn:Ei.
        change (d :: r1' ++ 0 :: post) with ((d :: r1') ++ 0 :: post).
        rewrite (span_app_stop is_identc (d :: r1') 0 post id r2 eq_refl Ei).
        inversion H; subst. reflexivity.
      * inversion H; subst. reflexivity.
  - destruct (is_char c).
    + destruct (span is_identc (c :: r0)) as [id r1] eqn:Ei.
      rewrite (span_app_stop is_identc (c :: r0) 0 post id r1 eq_refl Ei).
      inversion H; subst. reflexivity.
    + simpl app. destruct r0 as [|d r'].
      * simpl app. cbv beta iota. change (0 =? 42) with false. change (0 =? 61) with false.
        rewrite !andb_false_r. cbv iota.
        destruct (c =? 64); [inversion H; subst; reflexivity|].
        destruct (is_op c); inversion H; subst; reflexivity.
      * simpl app. cbv beta iota.
        destruct ((c =? 42) && (d =? 42)); [inversion H; subst; reflexivity|].
        destruct ((c =? 60) && (d =? 61)); [inversion H; subst; reflexivity|].
        destruct ((c =? 62) && (d =? 61)); [inversion H; subst; reflexivity|].
        destruct ((c =? 33) && (d =? 61)); [inversion H; subst; reflexivity|].
        destruct ((c =? 61) && (d =? 61)); [inversion H; subst; reflexivity|].
        destruct (c =? 64); [inversion H; subst; reflexivity|].
        destruct (is_op c); inversion H; subst; reflexivity.
Qed.

Lemma lex_fuel_nul : forall f bs post, nonul bs -> lex_fuel f (bs ++ 0 :: post) = lex_fuel f bs.
Proof.
  induction f as [|f IH]; intros bs post Hnz; [reflexivity|].
  simpl. destruct (span is_ws bs) as [w bs1] eqn:Ew.
  rewrite (span_app_stop is_ws bs 0 post w bs1 eq_refl Ew). simpl snd.
  pose proof (span_split _ _ _ _ Ew) as Hs. subst bs. apply nonul_app in Hnz.
  destruct bs1 as [|c r0].
  - reflexivity.
  - destruct (lex_one (c :: r0)) as [t r] eqn:E.
    rewrite (lex_one_nul (c :: r0) post t r); [|discriminate|assumption|assumption].
    destruct (lex_one_split _ _ _ E) as [txt [Hs _]].
    assert (Hr : nonul r) by (rewrite Hs in Hnz; apply nonul_app in Hnz; assumption).
    destruct t; try reflexivity; rewrite (IH r post Hr); reflexivity.
Qed.

(* C18 lex_stops_at_nul *)
Theorem lex_stops_at_nul : forall pre post, nonul pre -> lex (pre ++ 0 :: post) = lex pre.
Proof.
  intros pre post Hnz. unfold lex.
  destruct (lex_fuel (S (List.length pre)) pre) as [l|] eqn:E.
  - rewrite lex_fuel_nul by assumption.
    apply (lex_fuel_mono _ _ _ E). rewrite app_length. simpl. lia.
  - exfalso. apply (lex_fuel_total (S (List.length pre)) pre); [lia|assumption].
Qed.
