(* C18 -- the Parser object as a state machine:
     - parse_total: for every byte string the reference parser returns a value (a recipe of
       library calls) or ParseError; it never runs out of fuel (fuel = input length + 1)
     - parser_stateless: the outcome of Parser::parse never depends on the state left by the
       previous calls (every field read during a call -- the input copy, the tokenizer cursor,
       res -- is written first in that call), so a reused parser answers every input of any
       history exactly as a fresh parser does -- also after failed parses, which leave in `res`
       either the previous result or a partial one
     - NUL: bytes after the first NUL do not influence the outcome. *)
From SE Require Import Parse.ParseModel Parse.LexProofs Parse.ParseProofs.
From Coq Require Import Lia.
Local Open Scope N_scope.

Theorem parser_stateless : forall st input conv,
  snd (parser_parse st input conv) = snd (parser_parse fresh_parser input conv).
Proof.
  intros st input conv. unfold parser_parse, visible. simpl.
  destruct (lex (convert_xor conv input)) as [ts|]; [|reflexivity].
  destruct (parse_tokens ts); reflexivity.
Qed.

Corollary parser_parse_is_parse_ref : forall st input conv,
  snd (parser_parse st input conv) = parse_ref input conv.
Proof. intros. unfold parse_ref. apply parser_stateless. Qed.

(* a history of inputs on one parser object = each input on a fresh parser *)
Theorem history_stateless : forall h st,
  snd (run_history st h) = List.map (fun p => parse_ref (fst p) (snd p)) h.
Proof.
  induction h as [|[s conv] h IH]; intros st; [reflexivity|].
  simpl. destruct (parser_parse st s conv) as [st1 o] eqn:E.
  specialize (IH st1). destruct (run_history st1 h) as [st2 os]. simpl in *.
  f_equal; [|assumption].
  pose proof (parser_parse_is_parse_ref st s conv) as H. rewrite E in H. exact H.
Qed.

(* the state does change: after a failed parse `res` may hold a partial result *)
Example res_after_failed_parse :
  ps_res (fst (parser_parse fresh_parser (b "a b") true)) = Some (RSym (b "a")) /\
  snd (parser_parse fresh_parser (b "a b") true) = OutParseError /\
  ps_res (fst (parser_parse fresh_parser (b "(a b") true)) = None.
Proof. vm_compute. repeat split; reflexivity. Qed.

(* C18 parse_total *)
Theorem parse_total : forall bs conv, parse_ref bs conv <> OutFuel.
Proof.
  intros bs conv. unfold parse_ref, parser_parse, visible. simpl.
  destruct (lex (convert_xor conv bs)) as [ts|] eqn:E.
  - pose proof (parse_tokens_total ts) as Ht.
    destruct (parse_tokens ts); try discriminate. congruence.
  - exfalso. apply (lex_total _ E).
Qed.

Theorem parse_syntax_total : forall bs conv, parse_syntax bs conv <> TopFuel.
Proof.
  intros bs conv. unfold parse_syntax.
  destruct (lex (convert_xor conv bs)) as [ts|] eqn:E.
  - apply parse_tokens_total.
  - exfalso. apply (lex_total _ E).
Qed.

(* bytes after the first NUL are never looked at *)
Lemma convert_xor_app : forall conv a z, convert_xor conv (a ++ z) = convert_xor conv a ++ convert_xor conv z.
Proof. intros conv a z. unfold convert_xor. destruct conv; [apply map_app|reflexivity]. Qed.

Lemma convert_xor_nonul : forall conv a, nonul a -> nonul (convert_xor conv a).
Proof.
  intros conv a H. unfold convert_xor. destruct conv; [|assumption].
  unfold nonul in *. induction a as [|c a IH]; [reflexivity|].
  simpl in *. apply andb_true_iff in H. destruct H as [Hc Ha]. rewrite (IH Ha).
  destruct (N.eqb_spec c 94); [reflexivity|]. rewrite Hc. reflexivity.
Qed.

Theorem parse_stops_at_nul : forall pre post conv,
  nonul pre -> parse_ref (pre ++ 0 :: post) conv = parse_ref pre conv.
Proof.
  intros pre post conv Hnz. unfold parse_ref, parser_parse, visible. simpl.
  rewrite convert_xor_app.
  assert (H0 : convert_xor conv (0 :: post) = 0 :: convert_xor conv post)
    by (unfold convert_xor; destruct conv; reflexivity).
  rewrite H0. rewrite (lex_stops_at_nul _ _ (convert_xor_nonul conv pre Hnz)).
  destruct (lex (convert_xor conv pre)) as [ts|]; [|reflexivity].
  destruct (parse_tokens ts); reflexivity.
Qed.
