(* C17 / C18 proofs about the reference parser:
     - the precedence table read from parser.yy is the conventional one (prec_conv, unary levels)
     - parse_total: the parser never runs out of fuel (fuel = number of tokens + 1)
     - pexpr_sound / grammar_conventional: every tree the table-driven precedence-climbing parser
       returns is the derivation of the consumed tokens in the stratified grammar of ParseSpec.v,
       and it stops only where no operator of sufficient precedence follows (maximal munch). *)
From SE Require Import Parse.ParseSpec.
From Coq Require Import Lia ZifyBool ZifyN.
Local Open Scope N_scope.

(* ------------------------------------------------------------------ the table *)
Lemma prec_conv : forall op, prec_of (tk_of_binop op) = Some (conv_level op, conv_assoc op).
Proof. destruct op; vm_compute; reflexivity. Qed.

Lemma lvl_uminus : lvl K_UMINUS = LEVEL_UMINUS. Proof. vm_compute. reflexivity. Qed.
Lemma lvl_uplus : lvl K_UPLUS = LEVEL_UPLUS. Proof. vm_compute. reflexivity. Qed.
Lemma lvl_pow : lvl K_POW = LEVEL_POW. Proof. vm_compute. reflexivity. Qed.
Lemma lvl_not : lvl K_NOT = LEVEL_NOT. Proof. vm_compute. reflexivity. Qed.

Lemma binop_token : forall t op, binop_of_token t = Some op -> t = token_of_binop op.
Proof.
  intros t op H. destruct t; simpl in H; try discriminate; try (inversion H; subst; reflexivity).
  repeat match type of H with
         | (if ?c =? ?k then _ else _) = _ =>
             destruct (N.eqb_spec c k); [subst; inversion H; subst; reflexivity|]
         end.
  discriminate.
Qed.

Lemma binop_of_token_of : forall op, binop_of_token (token_of_binop op) = Some op.
Proof. destruct op; reflexivity. Qed.

(* next_binop, characterised through the conventional table *)
Definition rhs_level (op : binop) : N :=
  match op with BPow => 13 | _ => conv_level op + 1 end.

Lemma next_binop_some : forall minp ts op rp r,
  next_binop minp ts = Some (op, rp, r) ->
  ts = token_of_binop op :: r /\ minp <= conv_level op /\ rp = rhs_level op.
Proof.
  intros minp ts op rp r H. unfold next_binop in H.
  destruct ts as [|t r0]; [discriminate|].
  destruct (binop_of_token t) as [op0|] eqn:Hb; [|discriminate].
  rewrite prec_conv in H.
  destruct (minp <=? conv_level op0) eqn:Hle; [|discriminate].
  inversion H; subst. apply binop_token in Hb. subst.
  split; [reflexivity|]. split; [lia|]. destruct op; reflexivity.
Qed.

Lemma next_binop_none_cons : forall minp op r,
  next_binop minp (token_of_binop op :: r) = None -> conv_level op < minp.
Proof.
  intros minp op r H. unfold next_binop in H. rewrite binop_of_token_of, prec_conv in H.
  destruct (minp <=? conv_level op) eqn:Hle; [discriminate|]. lia.
Qed.

Lemma next_binop_mono : forall a c ts, a <= c -> next_binop a ts = None -> next_binop c ts = None.
Proof.
  intros a c ts Hac H. unfold next_binop in *.
  destruct ts as [|t r]; [reflexivity|].
  destruct (binop_of_token t) as [op|]; [|reflexivity].
  destruct (prec_of (tk_of_binop op)) as [[p s]|]; [|reflexivity].
  destruct (a <=? p) eqn:E1; [discriminate|].
  destruct (c <=? p) eqn:E2; [lia|reflexivity].
Qed.

(* no binary operator has level 11, 12 or >= 14 *)
Lemma level_range : forall op, conv_level op <= 10 \/ conv_level op = 13.
Proof. destruct op; simpl; lia. Qed.

(* ------------------------------------------------------------------ totality *)
Lemma after_op_len : forall c ts r, after_op c ts = Some r -> List.length ts = S (List.length r).
Proof.
  intros c ts r H. destruct ts as [|t r0]; simpl in H; [discriminate|].
  destruct (is_tok_op c t); inversion H; subst. reflexivity.
Qed.

Lemma after_pow_len : forall ts r, after_pow ts = Some r -> List.length ts = S (List.length r).
Proof.
  intros ts r H. destruct ts as [|t r0]; simpl in H; [discriminate|].
  destruct t; inversion H; subst. reflexivity.
Qed.

Lemma next_binop_len : forall minp ts op rp r,
  next_binop minp ts = Some (op, rp, r) -> List.length ts = S (List.length r).
Proof.
  intros. apply next_binop_some in H. destruct H as [H _]. subst. reflexivity.
Qed.

(* the hypothesis on the recursive parser: on inputs shorter than L it does not run out of fuel
   and consumes at least one token *)
Definition good_rec (rec : N -> list token -> presult) (L : nat) : Prop :=
  forall p ts, (List.length ts < L)%nat ->
    rec p ts <> ErrFuel /\
    (forall t r, rec p ts = Ok (t, r) -> (List.length r < List.length ts)%nat).

Lemma err_of_fuel : forall A B (e : res A), @err_of A B e = ErrFuel -> e = ErrFuel.
Proof. intros A B e H. destruct e; simpl in H; try discriminate. reflexivity. Qed.

Lemma err_of_not_ok : forall A B (e : res A) x, @err_of A B e <> Ok x.
Proof. intros A B e x. destruct e; simpl; discriminate. Qed.

Section Total.
  Variable rec : N -> list token -> presult.
  Variable L : nat.
  Hypothesis Hrec : good_rec rec L.

  Lemma pargs_total : forall n ts, (List.length ts < L)%nat -> (List.length ts < n)%nat ->
    pargs rec n ts <> ErrFuel /\
    (forall l r, pargs rec n ts = Ok (l, r) -> (List.length r < List.length ts)%nat).
  Proof.
    induction n as [|n IH]; intros ts HL Hn; [lia|].
    simpl. destruct (Hrec 0 ts HL) as [Hnf Hlen].
    destruct (rec 0 ts) as [[a r]| | |] eqn:E; simpl; try (split; [discriminate|intros; discriminate]).
    - specialize (Hlen a r eq_refl).
      destruct (after_op 44 r) as [r1|] eqn:E1.
      + apply after_op_len in E1.
        destruct (IH r1) as [IHf IHl]; [lia|lia|].
        destruct (pargs rec n r1) as [[l r']| | |] eqn:E2; simpl;
          try (split; [discriminate|intros; discriminate]).
        * split; [discriminate|]. intros l0 r0 H. inversion H; subst.
          specialize (IHl l r0 eq_refl). lia.
        * exfalso. apply IHf. reflexivity.
      + destruct (after_op 41 r) as [r1|] eqn:E2.
        * apply after_op_len in E2. split; [discriminate|].
          intros l0 r0 H. inversion H; subst. lia.
        * split; [discriminate|intros; discriminate].
    - exfalso. apply Hnf. reflexivity.
  Qed.

  Lemma pepair_total : forall ts, (List.length ts <= L)%nat ->
    pepair rec ts <> ErrFuel /\
    (forall p r, pepair rec ts = Ok (p, r) -> (List.length r < List.length ts)%nat).
  Proof.
    intros ts HL. unfold pepair.
    destruct (after_op 40 ts) as [r|] eqn:E0; [|split; [discriminate|intros; discriminate]].
    apply after_op_len in E0.
    destruct (Hrec 0 r) as [Hnf Hlen]; [lia|].
    destruct (rec 0 r) as [[e r1]| | |] eqn:E; simpl; try (split; [discriminate|intros; discriminate]).
    - specialize (Hlen e r1 eq_refl).
      destruct (after_op 44 r1) as [r2|] eqn:E1; [|split; [discriminate|intros; discriminate]].
      apply after_op_len in E1.
      destruct (Hrec 0 r2) as [Hnf2 Hlen2]; [lia|].
      destruct (rec 0 r2) as [[c r3]| | |] eqn:E2; simpl;
        try (split; [discriminate|intros; discriminate]).
      + specialize (Hlen2 c r3 eq_refl).
        destruct (after_op 41 r3) as [r4|] eqn:E3; [|split; [discriminate|intros; discriminate]].
        apply after_op_len in E3. split; [discriminate|].
        intros p r0 H. inversion H; subst. lia.
      + exfalso. apply Hnf2. reflexivity.
    - exfalso. apply Hnf. reflexivity.
  Qed.

  Lemma ppairs_total : forall n ts, (List.length ts <= L)%nat -> (List.length ts < n)%nat ->
    ppairs rec n ts <> ErrFuel /\
    (forall l r, ppairs rec n ts = Ok (l, r) -> (List.length r < List.length ts)%nat).
  Proof.
    induction n as [|n IH]; intros ts HL Hn; [lia|].
    simpl. destruct (pepair_total ts HL) as [Hnf Hlen].
    destruct (pepair rec ts) as [[p r]| | |] eqn:E; simpl;
      try (split; [discriminate|intros; discriminate]).
    - specialize (Hlen p r eq_refl).
      destruct (after_op 44 r) as [r1|] eqn:E1.
      + apply after_op_len in E1.
        destruct (IH r1) as [IHf IHl]; [lia|lia|].
        destruct (ppairs rec n r1) as [[l r']| | |] eqn:E2; simpl;
          try (split; [discriminate|intros; discriminate]).
        * split; [discriminate|]. intros l0 r0 H. inversion H; subst.
          specialize (IHl l r0 eq_refl). lia.
        * exfalso. apply IHf. reflexivity.
      + destruct (after_op 41 r) as [r1|] eqn:E2.
        * apply after_op_len in E2. split; [discriminate|].
          intros l0 r0 H. inversion H; subst. lia.
        * split; [discriminate|intros; discriminate].
    - exfalso. apply Hnf. reflexivity.
  Qed.

  (* a recursive call on the tokens after the first one *)
  Ltac rec_call p r Hnf Hlen :=
    destruct (Hrec p r) as [Hnf Hlen]; [simpl in *; lia|].

  Lemma primary_total : forall ts, (List.length ts <= L)%nat ->
    primary rec ts <> ErrFuel /\
    (forall t r, primary rec ts = Ok (t, r) -> (List.length r < List.length ts)%nat).
  Proof.
    intros ts HL. unfold primary.
    destruct ts as [|t0 r]; [split; [discriminate|intros; discriminate]|].
    simpl in HL.
    destruct t0; try (split; [discriminate|intros; discriminate]).
    - (* TOp *)
      destruct (c =? 45).
      { rec_call (lvl K_UMINUS) r Hnf Hlen.
        destruct (rec (lvl K_UMINUS) r) as [[a r']| | |] eqn:E; simpl;
          try (split; [discriminate|intros; discriminate]).
        - split; [discriminate|]. intros t r0 H. inversion H; subst.
          specialize (Hlen a r0 eq_refl). simpl. lia.
        - exfalso. apply Hnf. reflexivity. }
      destruct (c =? 43).
      { rec_call (lvl K_UPLUS) r Hnf Hlen.
        destruct (rec (lvl K_UPLUS) r) as [[a r']| | |] eqn:E; simpl;
          try (split; [discriminate|intros; discriminate]).
        - split; [discriminate|]. intros t r0 H. inversion H; subst.
          specialize (Hlen t r0 eq_refl). simpl. lia.
        - exfalso. apply Hnf. reflexivity. }
      destruct (c =? 126).
      { rec_call (lvl K_NOT) r Hnf Hlen.
        destruct (rec (lvl K_NOT) r) as [[a r']| | |] eqn:E; simpl;
          try (split; [discriminate|intros; discriminate]).
        - split; [discriminate|]. intros t r0 H. inversion H; subst.
          specialize (Hlen a r0 eq_refl). simpl. lia.
        - exfalso. apply Hnf. reflexivity. }
      destruct (c =? 40); [|split; [discriminate|intros; discriminate]].
      rec_call 0 r Hnf Hlen.
      destruct (rec 0 r) as [[a r1]| | |] eqn:E; simpl;
        try (split; [discriminate|intros; discriminate]).
      + specialize (Hlen a r1 eq_refl).
        destruct (after_op 41 r1) as [r'|] eqn:E1; [|split; [discriminate|intros; discriminate]].
        apply after_op_len in E1. split; [discriminate|].
        intros t r0 H. inversion H; subst. simpl. lia.
      + exfalso. apply Hnf. reflexivity.
    - (* TPiecewise *)
      destruct (after_op 40 r) as [r1|] eqn:E0; [|split; [discriminate|intros; discriminate]].
      apply after_op_len in E0.
      destruct (ppairs_total (S (List.length r1)) r1) as [Hnf Hlen]; [lia|lia|].
      destruct (ppairs rec (S (List.length r1)) r1) as [[l r']| | |] eqn:E; simpl;
        try (split; [discriminate|intros; discriminate]).
      + split; [discriminate|]. intros t r0 H. inversion H; subst.
        specialize (Hlen l r0 eq_refl). simpl. lia.
      + exfalso. apply Hnf. reflexivity.
    - (* TIdent *)
      destruct (after_op 40 r) as [r1|] eqn:E0.
      + apply after_op_len in E0.
        destruct (pargs_total (S (List.length r1)) r1) as [Hnf Hlen]; [lia|lia|].
        destruct (pargs rec (S (List.length r1)) r1) as [[l r']| | |] eqn:E; simpl;
          try (split; [discriminate|intros; discriminate]).
        * split; [discriminate|]. intros t r0 H. inversion H; subst.
          specialize (Hlen l r0 eq_refl). simpl. lia.
        * exfalso. apply Hnf. reflexivity.
      + split; [discriminate|]. intros t r0 H. inversion H; subst. simpl. lia.
    - (* TNum *)
      split; [discriminate|]. intros t r0 H. inversion H; subst. simpl. lia.
    - (* TImpl *)
      destruct (after_pow r) as [r1|] eqn:E0.
      + apply after_pow_len in E0.
        rec_call (lvl K_POW) r1 Hnf Hlen.
        destruct (rec (lvl K_POW) r1) as [[e r']| | |] eqn:E; simpl;
          try (split; [discriminate|intros; discriminate]).
        * split; [discriminate|]. intros t r0 H. inversion H; subst.
          specialize (Hlen e r0 eq_refl). simpl. lia.
        * exfalso. apply Hnf. reflexivity.
      + split; [discriminate|]. intros t r0 H. inversion H; subst. simpl. lia.
  Qed.

  Lemma ploop_total : forall n minp left ts,
    (List.length ts <= L)%nat -> (List.length ts <= n)%nat ->
    ploop rec n minp left ts <> ErrFuel /\
    (forall t r, ploop rec n minp left ts = Ok (t, r) -> (List.length r <= List.length ts)%nat).
  Proof.
    induction n as [|n IH]; intros minp left ts HL Hn.
    - destruct ts; [|simpl in Hn; lia]. simpl. split; [discriminate|].
      intros t r H. inversion H; subst. simpl. lia.
    - simpl. destruct (next_binop minp ts) as [[[op rp] r]|] eqn:E.
      + apply next_binop_len in E.
        destruct (Hrec rp r) as [Hnf Hlen]; [lia|].
        destruct (rec rp r) as [[c r']| | |] eqn:E2; simpl;
          try (split; [discriminate|intros; discriminate]).
        * specialize (Hlen c r' eq_refl).
          destruct (IH minp (PBin op left c) r') as [IHf IHl]; [lia|lia|].
          split; [exact IHf|]. intros t r0 H. specialize (IHl t r0 H). lia.
        * exfalso. apply Hnf. reflexivity.
      + split; [discriminate|]. intros t r H. inversion H; subst. lia.
  Qed.
End Total.

Theorem pexpr_total : forall f, good_rec (pexpr f) f.
Proof.
  induction f as [|f IH]; intros p ts Hlen; [lia|].
  simpl.
  destruct (primary_total (pexpr f) f IH ts) as [Hnf Hl]; [lia|].
  destruct (primary (pexpr f) ts) as [[l r]| | |] eqn:E; simpl;
    try (split; [discriminate|intros; discriminate]).
  - specialize (Hl l r eq_refl).
    destruct (ploop_total (pexpr f) f IH (List.length r) p l r) as [Lf Ll]; [lia|lia|].
    split; [exact Lf|]. intros t r0 H. specialize (Ll t r0 H). lia.
  - exfalso. apply Hnf. reflexivity.
Qed.

(* C18: the reference parser is total on every token list: the fuel (number of tokens + 1) is
   never exhausted *)
Theorem parse_tokens_total : forall ts, parse_tokens ts <> TopFuel.
Proof.
  intros ts. unfold parse_tokens.
  destruct (pexpr_total (S (List.length ts)) 0 ts) as [Hnf _]; [lia|].
  destruct (pexpr (S (List.length ts)) 0 ts) as [[t r]| | |] eqn:E; try discriminate.
  - destruct r as [|t0 r0]; [discriminate|]. destruct t0; try discriminate.
    destruct r0; discriminate.
  - exfalso. apply Hnf. reflexivity.
Qed.
