(* C16 -- print_add_perm for well-formed sums: the order hypotheses of PrintProofs.v follow from
   the C02 theorems (compare is antisymmetric, transitive, and 0 exactly on eq expressions) and
   from the pairwise-distinct keys of a well-formed dictionary. *)
From SE Require Import Expr.CmpProofs Expr.Unfold Expr.Dict Parse.PrintModel Parse.PrintProofs.
From Coq Require Import Lia Permutation.
Local Open Scope N_scope.

Lemma cmp_refl_wf : forall k, wf k = true -> expr_cmp k k = 0%Z.
Proof. intros k W. pose proof (cmp_antisym k k W W). lia. Qed.

Lemma eqb_refl_wf : forall k, wf k = true -> expr_eqb k k = true.
Proof. intros k W. apply (cmp_eq_iff k k W W). apply cmp_refl_wf. exact W. Qed.

Lemma printer_lt_spec : forall x y, wf x = true -> wf y = true ->
  (printer_lt x y = true <-> expr_cmp x y = (-1)%Z).
Proof.
  intros x y Wx Wy. unfold printer_lt. split.
  - destruct (expr_eqb x y); [discriminate|]. intros H. apply Z.eqb_eq in H. exact H.
  - intros H. destruct (expr_eqb x y) eqn:E.
    + apply (cmp_eq_iff x y Wx Wy) in E. lia.
    + apply Z.eqb_eq. exact H.
Qed.

Lemma pairwise_in : forall (d : list (expr * number)),
  (forall p, In p d -> wf (fst p) = true) -> pairwise_ne (map fst d) = true ->
  NoDup d /\
  (forall p q, In p d -> In q d ->
     p = q \/ expr_eqb (fst p) (fst q) = false \/ expr_eqb (fst q) (fst p) = false).
Proof.
  induction d as [|a d IH]; intros W NE.
  - split; [constructor|]. intros p q [].
  - cbn [map] in NE. apply pairwise_ne_cons in NE. destruct NE as [Hhd Htl].
    destruct IH as [ND Hpq]; [intros p Hp; apply W; right; exact Hp|exact Htl|].
    split.
    + constructor; [|exact ND]. intros Hin.
      assert (E : expr_eqb (fst a) (fst a) = false) by (apply Hhd; apply in_map; exact Hin).
      rewrite eqb_refl_wf in E; [discriminate|apply W; left; reflexivity].
    + intros p q [Hp|Hp] [Hq|Hq].
      * left. congruence.
      * subst p. right. left. apply Hhd. apply in_map. exact Hq.
      * subst q. right. right. apply Hhd. apply in_map. exact Hp.
      * apply Hpq; assumption.
Qed.

Lemma wf_printer_order_ok : forall c d, wf (EAdd c d) = true -> printer_order_ok d.
Proof.
  intros c d W. apply wf_add in W. destruct W as [_ [Wk NE]].
  assert (Wkey : forall k, In k (map fst d) -> wf k = true).
  { intros k Hk. apply in_map_iff in Hk. destruct Hk as [p [<- Hp]]. apply (Wk p Hp). }
  destruct (pairwise_in d (fun p Hp => proj1 (Wk p Hp)) NE) as [ND Hpq].
  split; [exact ND|]. split; [|split].
  - intros x y z Hx Hy Hz Lxy Lyz.
    apply printer_lt_spec in Lxy; [|apply Wkey; assumption|apply Wkey; assumption].
    apply printer_lt_spec in Lyz; [|apply Wkey; assumption|apply Wkey; assumption].
    apply printer_lt_spec; [apply Wkey; assumption|apply Wkey; assumption|].
    apply (cmp_trans x y z); try apply Wkey; assumption.
  - intros x y Hx Hy Lxy Lyx.
    apply printer_lt_spec in Lxy; [|apply Wkey; assumption|apply Wkey; assumption].
    apply printer_lt_spec in Lyx; [|apply Wkey; assumption|apply Wkey; assumption].
    pose proof (cmp_antisym x y (Wkey x Hx) (Wkey y Hy)). lia.
  - intros p q Hp Hq.
    assert (Wp : wf (fst p) = true) by (apply (Wk p Hp)).
    assert (Wq : wf (fst q) = true) by (apply (Wk q Hq)).
    assert (Hne : p = q \/ expr_cmp (fst p) (fst q) <> 0%Z).
    { destruct (Hpq p q Hp Hq) as [E|[E|E]]; [left; exact E| |].
      - right. intros C. apply (cmp_eq_iff _ _ Wp Wq) in C. congruence.
      - right. intros C. pose proof (cmp_antisym (fst q) (fst p) Wq Wp) as A.
        assert (C' : expr_cmp (fst q) (fst p) = 0%Z) by lia.
        apply (cmp_eq_iff _ _ Wq Wp) in C'. congruence. }
    destruct Hne as [E|Hne]; [left; exact E|]. right.
    destruct (cmp_range (fst p) (fst q)) as [C|[C|C]].
    + left. apply printer_lt_spec; assumption.
    + contradiction.
    + right. apply printer_lt_spec; try assumption.
      pose proof (cmp_antisym (fst q) (fst p) Wq Wp). lia.
Qed.

(* every permutation of the dictionary of a well-formed sum prints the same string *)
Theorem print_add_perm_wf : forall c d d',
  Permutation d d' -> wf (EAdd c d) = true -> print (EAdd c d) = print (EAdd c d').
Proof.
  intros c d d' PM W. apply print_add_perm; [exact PM|]. apply (wf_printer_order_ok c d W).
Qed.
