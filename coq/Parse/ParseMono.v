(* Fuel monotonicity of the reference parser: a result other than "out of fuel" does not change
   when more fuel is given (to the recursive parser, or to the loop / list counters).  Used by
   ParseComplete.v. *)
From SE Require Import Parse.ParseSpec Parse.ParseProofs.
From Coq Require Import Lia.
Local Open Scope N_scope.

Definition mono_rec (rec rec' : N -> list token -> presult) : Prop :=
  forall p ts r, rec p ts = r -> r <> ErrFuel -> rec' p ts = r.

Lemma err_of_fuel_inv : forall A B (e : res A), e <> ErrFuel -> @err_of A B e <> ErrFuel.
Proof. intros A B e H. destruct e; simpl; try discriminate. congruence. Qed.

Section Mono.
  Variables rec rec' : N -> list token -> presult.
  Hypothesis Hm : mono_rec rec rec'.

  (* a recursive call whose result matters *)
  Ltac rec_step p ts E :=
    let r := fresh "r" in
    destruct (rec p ts) as [[? ?]| | |] eqn:E;
    [ rewrite (Hm p ts _ E) by discriminate
    | rewrite (Hm p ts _ E) by discriminate
    | idtac
    | rewrite (Hm p ts _ E) by discriminate ].

  Lemma pargs_mono : forall n ts r, pargs rec n ts = r -> r <> ErrFuel ->
    forall n', (n <= n')%nat -> pargs rec' n' ts = r.
  Proof.
    induction n as [|n IH]; intros ts r H Hr n' Hn; [simpl in H; congruence|].
    destruct n' as [|n']; [lia|]. simpl in *.
    rec_step 0 ts E; simpl in *; try assumption; try congruence.
    destruct (after_op 44 l) as [r1|]; [|assumption].
    destruct (pargs rec n r1) as [[l0 r0]| | |] eqn:E2; simpl in H.
    - rewrite (IH r1 _ E2) by (try discriminate; lia). assumption.
    - rewrite (IH r1 _ E2) by (try discriminate; lia). assumption.
    - congruence.
    - rewrite (IH r1 _ E2) by (try discriminate; lia). assumption.
  Qed.

  Lemma pepair_mono : forall ts r, pepair rec ts = r -> r <> ErrFuel -> pepair rec' ts = r.
  Proof.
    intros ts r H Hr. unfold pepair in *.
    destruct (after_op 40 ts) as [r0|]; [|assumption].
    rec_step 0 r0 E; simpl in *; try assumption; try congruence.
    destruct (after_op 44 l) as [r2|]; [|assumption].
    rec_step 0 r2 E2; simpl in *; try assumption; try congruence.
  Qed.

  Lemma ppairs_mono : forall n ts r, ppairs rec n ts = r -> r <> ErrFuel ->
    forall n', (n <= n')%nat -> ppairs rec' n' ts = r.
  Proof.
    induction n as [|n IH]; intros ts r H Hr n' Hn; [simpl in H; congruence|].
    destruct n' as [|n']; [lia|]. simpl in *.
    destruct (pepair rec ts) as [[p l]| | |] eqn:E.
    - rewrite (pepair_mono ts _ E) by discriminate.
      destruct (after_op 44 l) as [r1|]; [|assumption].
      destruct (ppairs rec n r1) as [[l0 r0]| | |] eqn:E2; simpl in H.
      + rewrite (IH r1 _ E2) by (try discriminate; lia). assumption.
      + rewrite (IH r1 _ E2) by (try discriminate; lia). assumption.
      + congruence.
      + rewrite (IH r1 _ E2) by (try discriminate; lia). assumption.
    - rewrite (pepair_mono ts _ E) by discriminate. assumption.
    - simpl in H. congruence.
    - rewrite (pepair_mono ts _ E) by discriminate. assumption.
  Qed.

  Lemma primary_mono : forall ts r, primary rec ts = r -> r <> ErrFuel -> primary rec' ts = r.
  Proof.
    intros ts r H Hr. unfold primary in *.
    destruct ts as [|t0 r0]; [assumption|].
    destruct t0; try assumption.
    - destruct (c =? 45).
      { rec_step (lvl K_UMINUS) r0 E; simpl in *; try assumption; congruence. }
      destruct (c =? 43).
      { rec_step (lvl K_UPLUS) r0 E; simpl in *; try assumption; congruence. }
      destruct (c =? 126).
      { rec_step (lvl K_NOT) r0 E; simpl in *; try assumption; congruence. }
      destruct (c =? 40); [|assumption].
      rec_step 0 r0 E; simpl in *; try assumption; congruence.
    - destruct (after_op 40 r0) as [r1|]; [|assumption].
      destruct (ppairs rec (S (List.length r1)) r1) as [[l r']| | |] eqn:E; simpl in H.
      + rewrite (ppairs_mono _ _ _ E) by (try discriminate; lia). assumption.
      + rewrite (ppairs_mono _ _ _ E) by (try discriminate; lia). assumption.
      + congruence.
      + rewrite (ppairs_mono _ _ _ E) by (try discriminate; lia). assumption.
    - destruct (after_op 40 r0) as [r1|]; [|assumption].
      destruct (pargs rec (S (List.length r1)) r1) as [[l r']| | |] eqn:E; simpl in H.
      + rewrite (pargs_mono _ _ _ E) by (try discriminate; lia). assumption.
      + rewrite (pargs_mono _ _ _ E) by (try discriminate; lia). assumption.
      + congruence.
      + rewrite (pargs_mono _ _ _ E) by (try discriminate; lia). assumption.
    - destruct (after_pow r0) as [r1|]; [|assumption].
      rec_step (lvl K_POW) r1 E; simpl in *; try assumption; congruence.
  Qed.

  Lemma ploop_mono : forall n minp left ts r, ploop rec n minp left ts = r -> r <> ErrFuel ->
    forall n', (n <= n')%nat -> ploop rec' n' minp left ts = r.
  Proof.
    induction n as [|n IH]; intros minp left ts r H Hr n' Hn.
    - simpl in H. destruct (next_binop minp ts) as [[[op rp] r0]|] eqn:E; [congruence|].
      destruct n'; simpl; rewrite E; assumption.
    - destruct n' as [|n']; [lia|]. simpl in *.
      destruct (next_binop minp ts) as [[[op rp] r0]|] eqn:E; [|assumption].
      rec_step rp r0 E2; simpl in *; try assumption; try congruence.
      apply (IH _ _ _ _ H Hr). lia.
  Qed.
End Mono.

Lemma pexpr_mono_step : forall f, mono_rec (pexpr f) (pexpr (S f)).
Proof.
  induction f as [|f IH]; intros p ts r H Hr; [simpl in H; congruence|].
  change (pexpr (S (S f)) p ts) with
    (match primary (pexpr (S f)) ts with
     | Ok (l, r0) => ploop (pexpr (S f)) (List.length r0) p l r0
     | e => err_of e
     end).
  simpl in H.
  destruct (primary (pexpr f) ts) as [[l r0]| | |] eqn:E.
  - rewrite (primary_mono _ _ IH _ _ E) by discriminate.
    apply (ploop_mono _ _ IH _ _ _ _ _ H Hr). lia.
  - rewrite (primary_mono _ _ IH _ _ E) by discriminate. assumption.
  - simpl in H. congruence.
  - rewrite (primary_mono _ _ IH _ _ E) by discriminate. assumption.
Qed.

Theorem pexpr_mono : forall f f' p ts r,
  pexpr f p ts = r -> r <> ErrFuel -> (f <= f')%nat -> pexpr f' p ts = r.
Proof.
  intros f f' p ts r H Hr Hle. induction Hle as [|f' Hle IH]; [assumption|].
  apply (pexpr_mono_step f' p ts r IH Hr).
Qed.
