(* C17 -- completeness of the reference parser for the conventional grammar (without the prefix
   operator `~`, whose precedence above ** has no conventional counterpart): every token list
   derived from E_k is accepted, with exactly the tree of the derivation, whenever the token that
   follows cannot continue the expression.  Together with ParseSound.v: on this grammar the
   table-driven parser returns the tree the conventional rules dictate, and nothing else; in
   particular the grammar is unambiguous (two derivations of one token list have the same tree). *)
From SE Require Import Parse.ParseSpec Parse.ParseProofs Parse.ParseSound Parse.ParseMono.
From Coq Require Import Lia ZifyBool ZifyN ZifyNat.
Local Open Scope N_scope.

(* ------------------------------------------------------------------ the grammar without `~` *)
Inductive Gp : N -> list token -> past -> Prop :=
| Gp_up : forall k ts t, k < 11 -> Gp (k + 1) ts t -> Gp k ts t
| Gp_bin : forall k op a c ta tc,
    k < 11 -> conv_level op = k -> Gp k a ta -> Gp (k + 1) c tc ->
    Gp k (a ++ token_of_binop op :: c) (PBin op ta tc)
| Gp_neg : forall a ta, Gp 11 a ta -> Gp 11 (TOp 45 :: a) (PNeg ta)
| Gp_pos : forall a ta, Gp 11 a ta -> Gp 11 (TOp 43 :: a) ta
| Gp_pow : forall a c ta tc, AtomP a ta -> Gp 11 c tc -> Gp 11 (a ++ TPow :: c) (PBin BPow ta tc)
| Gp_implpow : forall s c tc, Gp 11 c tc -> Gp 11 (TImpl s :: TPow :: c) (PImplPow s tc)
| Gp_atom : forall a ta, AtomP a ta -> Gp 11 a ta
| Gp_impl : forall s, Gp 11 [TImpl s] (PImpl s)
with AtomP : list token -> past -> Prop :=
| AP_num : forall s, AtomP [TNum s] (PNum s)
| AP_ident : forall s, AtomP [TIdent s] (PIdent s)
| AP_paren : forall a ta, Gp 0 a ta -> AtomP (TOp 40 :: a ++ [TOp 41]) ta
| AP_call : forall f l tl, ArgsP l tl -> AtomP (TIdent f :: TOp 40 :: l) (PCall f tl)
| AP_pw : forall l tl, PairsP l tl -> AtomP (TPiecewise :: TOp 40 :: l) (PPw tl)
with ArgsP : list token -> list past -> Prop :=
| ArgsP_one : forall a ta, Gp 0 a ta -> ArgsP (a ++ [TOp 41]) [ta]
| ArgsP_cons : forall a ta l tl, Gp 0 a ta -> ArgsP l tl -> ArgsP (a ++ TOp 44 :: l) (ta :: tl)
with PairsP : list token -> list (past * past) -> Prop :=
| PairsP_one : forall e te c tc,
    Gp 0 e te -> Gp 0 c tc ->
    PairsP (TOp 40 :: e ++ TOp 44 :: c ++ [TOp 41; TOp 41]) [(te, tc)]
| PairsP_cons : forall e te c tc l tl,
    Gp 0 e te -> Gp 0 c tc -> PairsP l tl ->
    PairsP (TOp 40 :: e ++ TOp 44 :: c ++ TOp 41 :: TOp 44 :: l) ((te, tc) :: tl).

Scheme Gp_mind := Induction for Gp Sort Prop
  with AtomP_mind := Induction for AtomP Sort Prop
  with ArgsP_mind := Induction for ArgsP Sort Prop
  with PairsP_mind := Induction for PairsP Sort Prop.
Combined Scheme Gp_mutind from Gp_mind, AtomP_mind, ArgsP_mind, PairsP_mind.

(* it is a sub-grammar of G *)
Lemma Gp_sub :
  (forall k ts t, Gp k ts t -> G k ts t) /\ (forall ts t, AtomP ts t -> Atom ts t) /\
  (forall ts l, ArgsP ts l -> Args ts l) /\ (forall ts l, PairsP ts l -> Pairs ts l).
Proof.
  apply Gp_mutind; intros; try (econstructor; eassumption).
Qed.

(* ------------------------------------------------------------------ "for all large enough fuel" *)
Definition Ev (F : nat -> Prop) : Prop := exists f0, forall f, (f0 <= f)%nat -> F f.

Lemma Ev_and : forall F F', Ev F -> Ev F' -> Ev (fun f => F f /\ F' f).
Proof.
  intros F F' [a Ha] [c Hc]. exists (Nat.max a c). intros f Hf. split; [apply Ha|apply Hc]; lia.
Qed.
Lemma Ev_imp : forall F F' : nat -> Prop, (forall f, F f -> F' f) -> Ev F -> Ev F'.
Proof. intros F F' H [a Ha]. exists a. intros f Hf. apply H. apply Ha. exact Hf. Qed.
Lemma Ev_const : forall P : Prop, P -> Ev (fun _ => P).
Proof. intros P H. exists 0%nat. intros. exact H. Qed.
(* a statement about fuel f+1 *)
Lemma Ev_succ : forall F : nat -> Prop, Ev (fun f => F (S f)) -> Ev F.
Proof.
  intros F [a Ha]. exists (S a). intros f Hf. destruct f as [|f]; [lia|]. apply Ha. lia.
Qed.

(* ------------------------------------------------------------------ token facts *)
Lemma next_binop_tok : forall minp op r,
  minp <= conv_level op -> next_binop minp (token_of_binop op :: r) = Some (op, rhs_level op, r).
Proof.
  intros minp op r H. unfold next_binop. rewrite binop_of_token_of, prec_conv.
  destruct (minp <=? conv_level op) eqn:E; [|lia]. destruct op; reflexivity.
Qed.

Lemma next_binop_down : forall p ts,
  p = 11 \/ p = 12 -> next_binop (p + 1) ts = None -> next_binop p ts = None.
Proof.
  intros p ts Hp H. unfold next_binop in *.
  destruct ts as [|t r]; [reflexivity|].
  destruct (binop_of_token t) as [op|]; [|reflexivity].
  rewrite prec_conv in *.
  destruct (p + 1 <=? conv_level op) eqn:E; [discriminate|].
  destruct (p <=? conv_level op) eqn:E2; [|reflexivity].
  destruct (level_range op); lia.
Qed.

Lemma after_op_binop : forall op r, after_op 40 (token_of_binop op :: r) = None.
Proof. intros op r. destruct op; reflexivity. Qed.

Lemma ploop_none : forall rec n minp left ts,
  next_binop minp ts = None -> ploop rec n minp left ts = Ok (left, ts).
Proof. intros rec n minp left ts H. destruct n; simpl; rewrite H; reflexivity. Qed.

(* ------------------------------------------------------------------ plumbing *)
Definition LoopsTo (minp : N) (t : past) (rest : list token) (res : past * list token) : Prop :=
  Ev (fun f => ploop (pexpr f) (List.length rest) minp t rest = Ok res).

Lemma loops_none : forall minp t rest, next_binop minp rest = None -> LoopsTo minp t rest (t, rest).
Proof. intros minp t rest H. exists 0%nat. intros f _. apply ploop_none. exact H. Qed.

Lemma mono_refl : forall rec, mono_rec rec rec.
Proof. intros rec p ts r H _. exact H. Qed.

(* pexpr from its two halves *)
Lemma pexpr_of_primary_loop : forall minp ts l r res,
  Ev (fun f => primary (pexpr f) ts = Ok (l, r)) -> LoopsTo minp l r res ->
  Ev (fun f => pexpr f minp ts = Ok res).
Proof.
  intros minp ts l r res H1 H2. apply Ev_succ.
  assert (HEV : Ev (fun f => primary (pexpr f) ts = Ok (l, r) /\
                              ploop (pexpr f) (List.length r) minp l r = Ok res)) by (repeat apply Ev_and; assumption).
    refine (Ev_imp _ _ _ HEV). intros f H.
    destruct H as [Ha Hb]; cbn [pexpr]; rewrite Ha; exact Hb.
Qed.

(* one iteration of the loop *)
Lemma loops_step : forall minp left op r0 c r' res,
  minp <= conv_level op ->
  Ev (fun f => pexpr f (rhs_level op) r0 = Ok (c, r')) ->
  (List.length r' <= List.length r0)%nat ->
  LoopsTo minp (PBin op left c) r' res ->
  LoopsTo minp left (token_of_binop op :: r0) res.
Proof.
  intros minp left op r0 c r' res Hl H1 Hlen H2. unfold LoopsTo.
  assert (HEV : Ev (fun f => pexpr f (rhs_level op) r0 = Ok (c, r') /\
                              ploop (pexpr f) (List.length r') minp (PBin op left c) r' = Ok res))
    by (repeat apply Ev_and; assumption).
  refine (Ev_imp _ _ _ HEV). intros f H.
  destruct H as [Ha Hb]. cbn [List.length ploop].
  rewrite (next_binop_tok minp op r0 Hl). rewrite Ha.
  apply (ploop_mono _ _ (mono_refl _) _ _ _ _ _ Hb); [discriminate|exact Hlen].
Qed.

(* a successful sub-parse leaves a suffix *)
Lemma pexpr_rest_len : forall f p ts t r, pexpr f p ts = Ok (t, r) -> (List.length r <= List.length ts)%nat.
Proof.
  intros f p ts t r H. destruct (pexpr_sound f p ts t r H) as [[pre [Hts _]] _].
  subst ts. rewrite app_length. lia.
Qed.

(* ------------------------------------------------------------------ completeness *)
Definition top (k : N) : N := if k =? 11 then 13 else k.

Definition CG (k : N) (pre : list token) (t : past) : Prop :=
  forall minp rest res,
    minp <= top k -> k <= 11 -> next_binop (k + 1) rest = None -> after_op 40 rest = None ->
    LoopsTo minp t rest res -> Ev (fun f => pexpr f minp (pre ++ rest) = Ok res).
Definition CA (a : list token) (ta : past) : Prop :=
  forall rest, after_op 40 rest = None -> Ev (fun f => primary (pexpr f) (a ++ rest) = Ok (ta, rest)).
Definition CArgs (l : list token) (tl : list past) : Prop :=
  forall rest n, (List.length (l ++ rest) < n)%nat ->
    Ev (fun f => pargs (pexpr f) n (l ++ rest) = Ok (tl, rest)).
Definition CPairs (l : list token) (tl : list (past * past)) : Prop :=
  forall rest n, (List.length (l ++ rest) < n)%nat ->
    Ev (fun f => ppairs (pexpr f) n (l ++ rest) = Ok (tl, rest)).

(* a complete expression at level 0 followed by ')' or ',' *)
Lemma CG0_closed : forall a ta c rest,
  CG 0 a ta -> c = 41 \/ c = 44 ->
  Ev (fun f => pexpr f 0 (a ++ TOp c :: rest) = Ok (ta, TOp c :: rest)).
Proof.
  intros a ta c rest H Hc.
  apply (H 0 (TOp c :: rest) (ta, TOp c :: rest)); try (unfold top; simpl; lia).
  - destruct Hc; subst; reflexivity.
  - destruct Hc; subst; reflexivity.
  - apply loops_none. destruct Hc; subst; reflexivity.
Qed.

Lemma app_cons_assoc : forall A (a : list A) x l r, (a ++ x :: l) ++ r = a ++ x :: (l ++ r).
Proof. intros. rewrite <- app_assoc. reflexivity. Qed.

Theorem complete_all :
  (forall k pre t, Gp k pre t -> CG k pre t) /\ (forall a ta, AtomP a ta -> CA a ta) /\
  (forall l tl, ArgsP l tl -> CArgs l tl) /\ (forall l tl, PairsP l tl -> CPairs l tl).
Proof.
  apply Gp_mutind.
  - (* Gp_up *)
    intros k ts t Hk _ IH minp rest res Hm Hk11 Hnb Hpar Hl.
    apply IH; try assumption.
    + unfold top in *. destruct (k =? 11) eqn:E; [lia|]. destruct (k + 1 =? 11); lia.
    + lia.
    + apply (next_binop_mono (k + 1)); [lia|assumption].
  - (* Gp_bin *)
    intros k op a c ta tc Hk Hlev _ IHa _ IHc minp rest res Hm Hk11 Hnb Hpar Hl.
    assert (Hmk : minp <= k) by (unfold top in Hm; destruct (k =? 11) eqn:E; lia).
    rewrite app_cons_assoc.
    apply IHa.
    + unfold top. destruct (k =? 11); lia.
    + lia.
    + unfold next_binop. rewrite binop_of_token_of, prec_conv.
      destruct (k + 1 <=? conv_level op) eqn:E; [lia|reflexivity].
    + apply after_op_binop.
    + (* the loop takes op, parses c at level k+1, and goes on *)
      assert (Hc : Ev (fun f => pexpr f (rhs_level op) (c ++ rest) = Ok (tc, rest))).
      { assert (Hr : rhs_level op = k + 1) by (destruct op; simpl in *; try reflexivity; lia).
        rewrite Hr. apply IHc.
        - unfold top. destruct (k + 1 =? 11); lia.
        - lia.
        - apply (next_binop_mono (k + 1)); [lia|assumption].
        - assumption.
        - apply loops_none. assumption. }
      apply (loops_step minp ta op (c ++ rest) tc rest res); try assumption.
      * lia.
      * rewrite app_length. lia.
  - (* Gp_neg *)
    intros a ta _ IH minp rest res Hm Hk11 Hnb Hpar Hl.
    apply (pexpr_of_primary_loop minp _ (PNeg ta) rest res); [|assumption].
    assert (Hr : Ev (fun f => pexpr f LEVEL_UMINUS (a ++ rest) = Ok (ta, rest))).
    { apply IH; try assumption; try (unfold top, LEVEL_UMINUS; simpl; lia).
      apply loops_none. apply next_binop_down; [left; reflexivity|assumption]. }
    refine (Ev_imp _ _ _ Hr). intros f H.
    cbn [app primary]; change (45 =? 45) with true; cbv iota; rewrite lvl_uminus, H; reflexivity.
  - (* Gp_pos *)
    intros a ta _ IH minp rest res Hm Hk11 Hnb Hpar Hl.
    apply (pexpr_of_primary_loop minp _ ta rest res); [|assumption].
    assert (Hr : Ev (fun f => pexpr f LEVEL_UPLUS (a ++ rest) = Ok (ta, rest))).
    { apply IH; try assumption; try (unfold top, LEVEL_UPLUS; simpl; lia).
      apply loops_none. assumption. }
    refine (Ev_imp _ _ _ Hr). intros f H.
    cbn [app primary]; change (43 =? 45) with false; change (43 =? 43) with true; cbv iota; rewrite lvl_uplus, H; reflexivity.
  - (* Gp_pow *)
    intros a c ta tc _ IHa _ IHc minp rest res Hm Hk11 Hnb Hpar Hl.
    rewrite app_cons_assoc.
    apply (pexpr_of_primary_loop minp _ ta (TPow :: c ++ rest) res).
    + apply IHa. reflexivity.
    + assert (Hc : Ev (fun f => pexpr f (rhs_level BPow) (c ++ rest) = Ok (tc, rest))).
      { change (rhs_level BPow) with 13.
        apply IHc; try assumption; try (unfold top; simpl; lia).
        apply loops_none. apply (next_binop_mono 12); [lia|assumption]. }
      apply (loops_step minp ta BPow (c ++ rest) tc rest res); try assumption.
      rewrite app_length. lia.
  - (* Gp_implpow *)
    intros s c tc _ IHc minp rest res Hm Hk11 Hnb Hpar Hl.
    apply (pexpr_of_primary_loop minp _ (PImplPow s tc) rest res); [|assumption].
    assert (Hc : Ev (fun f => pexpr f LEVEL_POW (c ++ rest) = Ok (tc, rest))).
    { apply IHc; try assumption; try (unfold top, LEVEL_POW; simpl; lia).
      apply loops_none. apply (next_binop_mono 12); [unfold LEVEL_POW; lia|assumption]. }
    refine (Ev_imp _ _ _ Hc). intros f H.
    cbn [app primary after_pow]; rewrite lvl_pow, H; reflexivity.
  - (* Gp_atom *)
    intros a ta _ IHa minp rest res Hm Hk11 Hnb Hpar Hl.
    apply (pexpr_of_primary_loop minp _ ta rest res); [|assumption].
    apply IHa. assumption.
  - (* Gp_impl *)
    intros s minp rest res Hm Hk11 Hnb Hpar Hl.
    apply (pexpr_of_primary_loop minp _ (PImpl s) rest res); [|assumption].
    exists 0%nat; intros f0 _. cbn [app primary].
    rewrite (munch_no_pow 12 rest); [reflexivity|lia|assumption].
  - (* AP_num *)
    intros s rest Hpar. exists 0%nat; intros f0 _. reflexivity.
  - (* AP_ident *)
    intros s rest Hpar. exists 0%nat; intros f0 _. cbn [app primary]. rewrite Hpar. reflexivity.
  - (* AP_paren *)
    intros a ta _ IH rest Hpar.
    pose proof (CG0_closed a ta 41 rest IH (or_introl eq_refl)) as H.
    refine (Ev_imp _ _ _ H). intros f H0.
    cbn [app primary]; change (40 =? 45) with false; change (40 =? 43) with false; change (40 =? 126) with false; change (40 =? 40) with true; cbv iota; rewrite <- app_assoc; cbn [app]; rewrite H0; reflexivity.
  - (* AP_call *)
    intros f l tl _ IH rest Hpar.
    specialize (IH rest (S (List.length (l ++ rest))) (Nat.lt_succ_diag_r _)).
    refine (Ev_imp _ _ _ IH). intros f0 H0.
    cbn [app primary after_op is_tok_op]; change (40 =? 40) with true; cbv iota; rewrite H0; reflexivity.
  - (* AP_pw *)
    intros l tl _ IH rest Hpar.
    specialize (IH rest (S (List.length (l ++ rest))) (Nat.lt_succ_diag_r _)).
    refine (Ev_imp _ _ _ IH). intros f0 H0.
    cbn [app primary after_op is_tok_op]; change (40 =? 40) with true; cbv iota; rewrite H0; reflexivity.
  - (* ArgsP_one *)
    intros a ta _ IH rest n Hn.
    pose proof (CG0_closed a ta 41 rest IH (or_introl eq_refl)) as H.
    destruct n as [|n]; [lia|].
    refine (Ev_imp _ _ _ H). intros f H0.
    rewrite <- app_assoc; cbn [app pargs]; rewrite H0; reflexivity.
  - (* ArgsP_cons *)
    intros a ta l tl _ IHa _ IHl rest n Hn.
    pose proof (CG0_closed a ta 44 (l ++ rest) IHa (or_intror eq_refl)) as H.
    destruct n as [|n]; [lia|].
    assert (Hl : Ev (fun f => pargs (pexpr f) n (l ++ rest) = Ok (tl, rest))).
    { apply IHl. rewrite app_cons_assoc in Hn. rewrite app_length in Hn. simpl in Hn. lia. }
    rewrite app_cons_assoc.
    assert (HEV : Ev (fun f => pexpr f 0 (a ++ TOp 44 :: l ++ rest) = Ok (ta, TOp 44 :: l ++ rest)
                               /\ pargs (pexpr f) n (l ++ rest) = Ok (tl, rest))) by (repeat apply Ev_and; assumption).
    refine (Ev_imp _ _ _ HEV). intros f H0.
    destruct H0 as [Ha Hb]; cbn [pargs]; rewrite Ha; cbn [after_op is_tok_op]; change (44 =? 44) with true; cbv iota; rewrite Hb; reflexivity.
  - (* PairsP_one *)
    intros e te c tc _ IHe _ IHc rest n Hn.
    destruct n as [|n]; [lia|].
    pose proof (CG0_closed e te 44 (c ++ TOp 41 :: TOp 41 :: rest) IHe (or_intror eq_refl)) as He.
    pose proof (CG0_closed c tc 41 (TOp 41 :: rest) IHc (or_introl eq_refl)) as Hc.
    replace ((TOp 40 :: e ++ TOp 44 :: c ++ [TOp 41; TOp 41]) ++ rest)
      with (TOp 40 :: e ++ TOp 44 :: c ++ TOp 41 :: TOp 41 :: rest)
      by (cbn [app]; rewrite app_cons_assoc; f_equal; f_equal; f_equal; rewrite <- app_assoc; reflexivity).
    assert (HEV : Ev (fun f => pexpr f 0 (e ++ TOp 44 :: c ++ TOp 41 :: TOp 41 :: rest)
                                   = Ok (te, TOp 44 :: c ++ TOp 41 :: TOp 41 :: rest)
                               /\ pexpr f 0 (c ++ TOp 41 :: TOp 41 :: rest)
                                   = Ok (tc, TOp 41 :: TOp 41 :: rest))) by (repeat apply Ev_and; assumption).
    refine (Ev_imp _ _ _ HEV). intros f H0.
    destruct H0 as [Ha Hb]; cbn [ppairs]; unfold pepair; cbn [after_op is_tok_op]; change (40 =? 40) with true; cbv iota; rewrite Ha; cbn [after_op is_tok_op]; change (44 =? 44) with true; cbv iota; rewrite Hb; cbn [after_op is_tok_op]; change (41 =? 41) with true; change (41 =? 44) with false; cbv iota; reflexivity.
  - (* PairsP_cons *)
    intros e te c tc l tl _ IHe _ IHc _ IHl rest n Hn.
    destruct n as [|n]; [lia|].
    pose proof (CG0_closed e te 44 (c ++ TOp 41 :: TOp 44 :: l ++ rest) IHe (or_intror eq_refl)) as He.
    pose proof (CG0_closed c tc 41 (TOp 44 :: l ++ rest) IHc (or_introl eq_refl)) as Hc.
    assert (Hl : Ev (fun f => ppairs (pexpr f) n (l ++ rest) = Ok (tl, rest))).
    { apply IHl. revert Hn. cbn [app]. repeat (rewrite app_length || cbn [List.length]). lia. }
    replace ((TOp 40 :: e ++ TOp 44 :: c ++ TOp 41 :: TOp 44 :: l) ++ rest)
      with (TOp 40 :: e ++ TOp 44 :: c ++ TOp 41 :: TOp 44 :: l ++ rest)
      by (cbn [app]; rewrite app_cons_assoc; f_equal; f_equal; f_equal; rewrite app_cons_assoc; reflexivity).
    assert (HEV : Ev (fun f => (pexpr f 0 (e ++ TOp 44 :: c ++ TOp 41 :: TOp 44 :: l ++ rest)
                                   = Ok (te, TOp 44 :: c ++ TOp 41 :: TOp 44 :: l ++ rest)
                               /\ pexpr f 0 (c ++ TOp 41 :: TOp 44 :: l ++ rest)
                                   = Ok (tc, TOp 41 :: TOp 44 :: l ++ rest))
                               /\ ppairs (pexpr f) n (l ++ rest) = Ok (tl, rest))) by (repeat apply Ev_and; assumption).
    refine (Ev_imp _ _ _ HEV). intros f H0.
    destruct H0 as [[Ha Hb] Hd]; cbn [ppairs]; unfold pepair; cbn [after_op is_tok_op]; change (40 =? 40) with true; cbv iota; rewrite Ha; cbn [after_op is_tok_op]; change (44 =? 44) with true; cbv iota; rewrite Hb; cbn [after_op is_tok_op]; change (41 =? 41) with true; cbv iota; cbn [after_op is_tok_op]; change (44 =? 44) with true; cbv iota; rewrite Hd; reflexivity.
Qed.

(* C17 grammar_complete: a token list derived from the start symbol and followed by END_OF_FILE
   is accepted by parse_tokens with the tree of the derivation *)
Theorem grammar_complete : forall pre t, Gp 0 pre t -> parse_tokens (pre ++ [TEnd]) = TopOk t.
Proof.
  intros pre t H.
  destruct complete_all as [HG _].
  assert (He : Ev (fun f => pexpr f 0 (pre ++ [TEnd]) = Ok (t, [TEnd]))).
  { apply (HG 0 pre t H 0 [TEnd] (t, [TEnd])); try (unfold top; simpl; lia); try reflexivity.
    apply loops_none. reflexivity. }
  destruct He as [f0 Hf0].
  unfold parse_tokens.
  set (F := S (List.length (pre ++ [TEnd]))).
  destruct (pexpr_total F 0 (pre ++ [TEnd])) as [Hnf _]; [unfold F; lia|].
  assert (Hmax : pexpr (Nat.max f0 F) 0 (pre ++ [TEnd]) = Ok (t, [TEnd])) by (apply Hf0; lia).
  assert (HF : pexpr F 0 (pre ++ [TEnd]) = Ok (t, [TEnd])).
  { destruct (pexpr F 0 (pre ++ [TEnd])) as [x| | |] eqn:E.
    - rewrite (pexpr_mono F (Nat.max f0 F) 0 _ _ E) in Hmax by (try discriminate; lia). exact Hmax.
    - rewrite (pexpr_mono F (Nat.max f0 F) 0 _ _ E) in Hmax by (try discriminate; lia). discriminate.
    - exfalso. apply Hnf. reflexivity.
    - rewrite (pexpr_mono F (Nat.max f0 F) 0 _ _ E) in Hmax by (try discriminate; lia). discriminate. }
  rewrite HF. reflexivity.
Qed.

(* the grammar is unambiguous: the tree is a function of the token list *)
Corollary grammar_unambiguous : forall pre t1 t2, Gp 0 pre t1 -> Gp 0 pre t2 -> t1 = t2.
Proof.
  intros pre t1 t2 H1 H2. apply grammar_complete in H1. apply grammar_complete in H2. congruence.
Qed.
