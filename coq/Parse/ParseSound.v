(* C17 -- grammar_conventional: the tree returned by the table-driven precedence-climbing parser
   is a derivation, in the stratified grammar of ParseSpec.v, of exactly the tokens it consumed,
   and the parser stops only in front of a token that cannot continue the expression at the
   requested level (maximal munch).  The proof uses the precedence table read from parser.yy only
   through [prec_conv] and the four unary levels: a changed %left/%right line breaks it. *)
From SE Require Import Parse.ParseSpec Parse.ParseProofs.
From Coq Require Import Lia ZifyBool ZifyN.
Local Open Scope N_scope.

(* ------------------------------------------------------------------ grammar lemmas *)
Lemma G_lift_nat : forall d k ts t, k + N.of_nat d <= 11 -> G (k + N.of_nat d) ts t -> G k ts t.
Proof.
  induction d as [|d IH]; intros k ts t Hle H.
  - simpl in H. rewrite N.add_0_r in H. exact H.
  - apply G_up; [lia|]. apply IH; [lia|].
    replace (k + 1 + N.of_nat d) with (k + N.of_nat (S d)) by lia. exact H.
Qed.

Lemma G_le : forall k k' ts t, k <= k' -> k' <= 11 -> G k' ts t -> G k ts t.
Proof.
  intros k k' ts t H1 H2 H.
  apply (G_lift_nat (N.to_nat (k' - k))); replace (k + N.of_nat (N.to_nat (k' - k))) with k' by lia;
    [lia|exact H].
Qed.

Lemma Prim_G11 : forall ts t, Prim ts t -> G 11 ts t.
Proof.
  intros ts t H. destruct H.
  - apply G_atom. assumption.
  - apply G_neg. assumption.
  - apply G_pos. assumption.
  - apply G_implpow. assumption.
  - apply G_impl.
Qed.

Lemma GL_low : forall p ts t, p <= 10 -> (GL p ts t <-> G p ts t).
Proof. intros p ts t H. unfold GL. destruct (p <=? 10) eqn:E; [tauto|lia]. Qed.
Lemma GL_mid : forall p ts t, 11 <= p -> p <= 13 -> (GL p ts t <-> G 11 ts t).
Proof.
  intros p ts t H1 H2. unfold GL. destruct (p <=? 10) eqn:E; [lia|].
  destruct (p <=? 13) eqn:E2; [tauto|lia].
Qed.
Lemma GL_high : forall p ts t, 14 <= p -> (GL p ts t <-> Prim ts t).
Proof.
  intros p ts t H. unfold GL. destruct (p <=? 10) eqn:E; [lia|].
  destruct (p <=? 13) eqn:E2; [lia|tauto].
Qed.

Lemma GL_of_G11 : forall p ts t, p <= 13 -> G 11 ts t -> GL p ts t.
Proof.
  intros p ts t Hp H. destruct (N.le_gt_cases p 10).
  - apply GL_low; [assumption|]. apply (G_le p 11); [lia|lia|assumption].
  - apply GL_mid; [lia|lia|assumption].
Qed.

Lemma GL_rhs_left : forall op ts t,
  conv_level op <= 10 -> GL (rhs_level op) ts t -> G (conv_level op + 1) ts t.
Proof.
  intros op ts t Hl H.
  assert (Hr : rhs_level op = conv_level op + 1) by (destruct op; simpl in *; try reflexivity; lia).
  rewrite Hr in H. destruct (N.le_gt_cases (conv_level op + 1) 10).
  - apply GL_low in H; assumption.
  - apply GL_mid in H; [|lia|lia]. replace (conv_level op + 1) with 11 by lia. assumption.
Qed.

(* ------------------------------------------------------------------ token lemmas *)
Lemma after_op_eq : forall c ts r, after_op c ts = Some r -> ts = TOp c :: r.
Proof.
  intros c ts r H. destruct ts as [|t r0]; simpl in H; [discriminate|].
  destruct t; simpl in H; try discriminate.
  destruct (N.eqb_spec c0 c); inversion H; subst. reflexivity.
Qed.

Lemma after_pow_eq : forall ts r, after_pow ts = Some r -> ts = TPow :: r.
Proof.
  intros ts r H. destruct ts as [|t r0]; simpl in H; [discriminate|].
  destruct t; inversion H; subst. reflexivity.
Qed.

Lemma munch_no_pow : forall p r, p <= 13 -> next_binop p r = None -> after_pow r = None.
Proof.
  intros p r Hp H. destruct r as [|t r0]; [reflexivity|].
  destruct t; try reflexivity.
  exfalso. change TPow with (token_of_binop BPow) in H.
  apply next_binop_none_cons in H. simpl in H. lia.
Qed.

Lemma next_binop_13_12 : forall ts, next_binop 13 ts = None -> next_binop 12 ts = None.
Proof.
  intros ts H. unfold next_binop in *.
  destruct ts as [|t r]; [reflexivity|].
  destruct (binop_of_token t) as [op|]; [|reflexivity].
  rewrite prec_conv in *.
  destruct (13 <=? conv_level op) eqn:E; [discriminate|].
  destruct (12 <=? conv_level op) eqn:E2; [|reflexivity].
  destruct (level_range op); lia.
Qed.

(* ------------------------------------------------------------------ soundness *)
Definition sound_rec (rec : N -> list token -> presult) : Prop :=
  forall p ts t r, rec p ts = Ok (t, r) ->
    (exists pre, ts = pre ++ r /\ GL p pre t) /\ next_binop p r = None.

(* what the operator loop knows about the operand parsed so far *)
Inductive lstate (minp : N) (pre : list token) (left : past) (ts : list token) : Prop :=
| LS_prim : Prim pre left -> (Atom pre left \/ after_pow ts = None) -> lstate minp pre left ts
| LS_lev : forall cur,
    (minp <= cur \/ 11 <= cur) -> cur <= 11 -> minp <= 13 ->
    G cur pre left -> next_binop (cur + 1) ts = None -> lstate minp pre left ts.

Lemma lstate_GL : forall minp pre left ts, lstate minp pre left ts -> GL minp pre left.
Proof.
  intros minp pre left ts H. destruct H as [Hp _|cur Hc1 Hc2 Hm Hg _].
  - destruct (N.le_gt_cases minp 13).
    + apply GL_of_G11; [assumption|]. apply Prim_G11. assumption.
    + apply GL_high; [lia|assumption].
  - destruct (N.le_gt_cases minp 10).
    + apply GL_low; [assumption|]. apply (G_le minp cur); [lia|lia|assumption].
    + apply GL_mid; [lia|lia|]. replace 11 with cur by lia. assumption.
Qed.

Section Sound.
  Variable rec : N -> list token -> presult.
  Hypothesis Hrec : sound_rec rec.

  Lemma pargs_sound : forall n ts l r,
    pargs rec n ts = Ok (l, r) -> exists pre, ts = pre ++ r /\ Args pre l.
  Proof.
    induction n as [|n IH]; intros ts l r H; [discriminate|].
    simpl in H.
    destruct (rec 0 ts) as [[a r0]| | |] eqn:E; simpl in H; try discriminate.
    destruct (Hrec 0 ts a r0 E) as [[pre0 [Hts Hg]] _].
    apply GL_low in Hg; [|lia].
    destruct (after_op 44 r0) as [r1|] eqn:E1.
    - apply after_op_eq in E1.
      destruct (pargs rec n r1) as [[l' r']| | |] eqn:E2; simpl in H; try discriminate.
      inversion H; subst. destruct (IH r1 l' r E2) as [pre1 [Hr1 Ha]].
      exists (pre0 ++ TOp 44 :: pre1). split.
      + rewrite Hr1. rewrite <- app_assoc. reflexivity.
      + apply Args_cons; assumption.
    - destruct (after_op 41 r0) as [r1|] eqn:E2; [|discriminate].
      apply after_op_eq in E2. inversion H; subst.
      exists (pre0 ++ [TOp 41]). split.
      + rewrite <- app_assoc. reflexivity.
      + apply Args_one. assumption.
  Qed.

  Lemma pepair_sound : forall ts e c r,
    pepair rec ts = Ok ((e, c), r) ->
    exists pe pc, ts = TOp 40 :: pe ++ TOp 44 :: pc ++ TOp 41 :: r /\ G 0 pe e /\ G 0 pc c.
  Proof.
    intros ts e c r H. unfold pepair in H.
    destruct (after_op 40 ts) as [r0|] eqn:E0; [|discriminate]. apply after_op_eq in E0.
    destruct (rec 0 r0) as [[e' r1]| | |] eqn:E; simpl in H; try discriminate.
    destruct (Hrec 0 r0 e' r1 E) as [[pe [Hr0 Hge]] _]. apply GL_low in Hge; [|lia].
    destruct (after_op 44 r1) as [r2|] eqn:E1; [|discriminate]. apply after_op_eq in E1.
    destruct (rec 0 r2) as [[c' r3]| | |] eqn:E2; simpl in H; try discriminate.
    destruct (Hrec 0 r2 c' r3 E2) as [[pc [Hr2 Hgc]] _]. apply GL_low in Hgc; [|lia].
    destruct (after_op 41 r3) as [r4|] eqn:E3; [|discriminate]. apply after_op_eq in E3.
    inversion H; subst. exists pe, pc. split; [|split; assumption].
    repeat (rewrite <- app_assoc; simpl). reflexivity.
  Qed.

  Lemma ppairs_sound : forall n ts l r,
    ppairs rec n ts = Ok (l, r) -> exists pre, ts = pre ++ r /\ Pairs pre l.
  Proof.
    induction n as [|n IH]; intros ts l r H; [discriminate|].
    simpl in H.
    destruct (pepair rec ts) as [[[e c] r0]| | |] eqn:E; simpl in H; try discriminate.
    destruct (pepair_sound ts e c r0 E) as [pe [pc [Hts [Hge Hgc]]]].
    destruct (after_op 44 r0) as [r1|] eqn:E1.
    - apply after_op_eq in E1.
      destruct (ppairs rec n r1) as [[l' r']| | |] eqn:E2; simpl in H; try discriminate.
      inversion H; subst. destruct (IH r1 l' r E2) as [pre1 [Hr1 Hp]].
      exists (TOp 40 :: pe ++ TOp 44 :: pc ++ TOp 41 :: TOp 44 :: pre1). split.
      + rewrite Hr1. simpl. f_equal. rewrite <- app_assoc. simpl. f_equal. f_equal.
        rewrite <- app_assoc. reflexivity.
      + apply Pairs_cons; assumption.
    - destruct (after_op 41 r0) as [r1|] eqn:E2; [|discriminate].
      apply after_op_eq in E2. inversion H; subst.
      exists (TOp 40 :: pe ++ TOp 44 :: pc ++ [TOp 41; TOp 41]). split.
      + simpl. f_equal. rewrite <- app_assoc. simpl. f_equal. f_equal.
        rewrite <- app_assoc. reflexivity.
      + apply Pairs_one; assumption.
  Qed.

  Lemma primary_sound : forall ts l r,
    primary rec ts = Ok (l, r) ->
    exists pre, ts = pre ++ r /\ Prim pre l /\ (Atom pre l \/ after_pow r = None).
  Proof.
    intros ts l r H. unfold primary in H.
    destruct ts as [|t0 r0]; [discriminate|].
    destruct t0; try discriminate.
    - (* TOp *)
      destruct (N.eqb_spec c 45) as [->|_].
      { rewrite lvl_uminus in H.
        destruct (rec LEVEL_UMINUS r0) as [[a r']| | |] eqn:E; simpl in H; try discriminate.
        inversion H; subst.
        destruct (Hrec _ _ _ _ E) as [[pre [Hr0 Hg]] Hm].
        apply GL_mid in Hg; [|unfold LEVEL_UMINUS; lia|unfold LEVEL_UMINUS; lia].
        exists (TOp 45 :: pre). split; [rewrite Hr0; reflexivity|].
        split; [apply P_neg; assumption|]. right.
        apply (munch_no_pow LEVEL_UMINUS); [unfold LEVEL_UMINUS; lia|assumption]. }
      destruct (N.eqb_spec c 43) as [->|_].
      { rewrite lvl_uplus in H.
        destruct (rec LEVEL_UPLUS r0) as [[a r']| | |] eqn:E; simpl in H; try discriminate.
        inversion H; subst.
        destruct (Hrec _ _ _ _ E) as [[pre [Hr0 Hg]] Hm].
        apply GL_mid in Hg; [|unfold LEVEL_UPLUS; lia|unfold LEVEL_UPLUS; lia].
        exists (TOp 43 :: pre). split; [rewrite Hr0; reflexivity|].
        split; [apply P_pos; assumption|]. right.
        apply (munch_no_pow LEVEL_UPLUS); [unfold LEVEL_UPLUS; lia|assumption]. }
      destruct (N.eqb_spec c 126) as [->|_].
      { rewrite lvl_not in H.
        destruct (rec LEVEL_NOT r0) as [[a r']| | |] eqn:E; simpl in H; try discriminate.
        inversion H; subst.
        destruct (Hrec _ _ _ _ E) as [[pre [Hr0 Hg]] Hm].
        apply GL_high in Hg; [|unfold LEVEL_NOT; lia].
        exists (TOp 126 :: pre). split; [rewrite Hr0; reflexivity|].
        assert (Ha : Atom (TOp 126 :: pre) (PNot a)) by (apply A_not; assumption).
        split; [apply P_atom; assumption|left; assumption]. }
      destruct (N.eqb_spec c 40) as [->|_]; [|discriminate].
      destruct (rec 0 r0) as [[a r1]| | |] eqn:E; simpl in H; try discriminate.
      destruct (Hrec _ _ _ _ E) as [[pre [Hr0 Hg]] _]. apply GL_low in Hg; [|lia].
      destruct (after_op 41 r1) as [r'|] eqn:E1; [|discriminate].
      apply after_op_eq in E1. inversion H; subst.
      exists (TOp 40 :: pre ++ [TOp 41]). split.
      { simpl. rewrite <- app_assoc. reflexivity. }
      assert (Ha : Atom (TOp 40 :: pre ++ [TOp 41]) l) by (apply A_paren; assumption).
      split; [apply P_atom; assumption|left; assumption].
    - (* TPiecewise *)
      destruct (after_op 40 r0) as [r1|] eqn:E0; [|discriminate]. apply after_op_eq in E0.
      destruct (ppairs rec (S (List.length r1)) r1) as [[l' r']| | |] eqn:E; simpl in H;
        try discriminate.
      inversion H; subst. destruct (ppairs_sound _ _ _ _ E) as [pre [Hr1 Hp]].
      exists (TPiecewise :: TOp 40 :: pre). split; [rewrite Hr1; reflexivity|].
      assert (Ha : Atom (TPiecewise :: TOp 40 :: pre) (PPw l')) by (apply A_pw; assumption).
      split; [apply P_atom; assumption|left; assumption].
    - (* TIdent *)
      destruct (after_op 40 r0) as [r1|] eqn:E0.
      + apply after_op_eq in E0.
        destruct (pargs rec (S (List.length r1)) r1) as [[l' r']| | |] eqn:E; simpl in H;
          try discriminate.
        inversion H; subst. destruct (pargs_sound _ _ _ _ E) as [pre [Hr1 Hp]].
        exists (TIdent s :: TOp 40 :: pre). split; [rewrite Hr1; reflexivity|].
        assert (Ha : Atom (TIdent s :: TOp 40 :: pre) (PCall s l')) by (apply A_call; assumption).
        split; [apply P_atom; assumption|left; assumption].
      + inversion H; subst. exists [TIdent s]. split; [reflexivity|].
        split; [apply P_atom; apply A_ident|left; apply A_ident].
    - (* TNum *)
      inversion H; subst. exists [TNum s]. split; [reflexivity|].
      split; [apply P_atom; apply A_num|left; apply A_num].
    - (* TImpl *)
      destruct (after_pow r0) as [r1|] eqn:E0.
      + apply after_pow_eq in E0. rewrite lvl_pow in H.
        destruct (rec LEVEL_POW r1) as [[e r']| | |] eqn:E; simpl in H; try discriminate.
        inversion H; subst.
        destruct (Hrec _ _ _ _ E) as [[pre [Hr1 Hg]] Hm].
        apply GL_mid in Hg; [|unfold LEVEL_POW; lia|unfold LEVEL_POW; lia].
        exists (TImpl s :: TPow :: pre). split; [rewrite Hr1; reflexivity|].
        split; [apply P_implpow; assumption|]. right.
        apply (munch_no_pow LEVEL_POW); [unfold LEVEL_POW; lia|assumption].
      + inversion H; subst. exists [TImpl s]. split; [reflexivity|].
        split; [apply P_impl|right; assumption].
  Qed.

  (* one iteration of the operator loop preserves the state *)
  Lemma loop_step : forall minp pre left ts op rp r0 c r' prec,
    lstate minp pre left ts ->
    next_binop minp ts = Some (op, rp, r0) ->
    r0 = prec ++ r' -> GL rp prec c -> next_binop rp r' = None ->
    lstate minp (pre ++ token_of_binop op :: prec) (PBin op left c) r'.
  Proof.
    intros minp pre left ts op rp r0 c r' prec Hst Hnb Hr0 Hgc Hm.
    apply next_binop_some in Hnb. destruct Hnb as [Hts [Hmin Hrp]]. subst rp.
    destruct (level_range op) as [Hlow|Hpow].
    - (* a left-associative operator of level k <= 10 *)
      assert (Hleft : G (conv_level op) pre left).
      { destruct Hst as [Hp _|cur Hc1 Hc2 Hm13 Hg Hnone].
        - apply (G_le _ 11); [lia|lia|]. apply Prim_G11. assumption.
        - rewrite Hts in Hnone. apply next_binop_none_cons in Hnone.
          apply (G_le _ cur); [lia|lia|assumption]. }
      apply GL_rhs_left in Hgc; [|assumption].
      apply (LS_lev _ _ _ _ (conv_level op)); try lia.
      + apply G_bin; [lia|reflexivity|assumption|assumption].
      + assert (Hr : rhs_level op = conv_level op + 1)
          by (destruct op; simpl in *; try reflexivity; lia).
        rewrite <- Hr. assumption.
    - (* ** : the left operand is an atom *)
      assert (Hop : op = BPow) by (destruct op; simpl in Hpow; try lia; reflexivity).
      subst op. simpl in *.
      assert (Hatom : Atom pre left).
      { destruct Hst as [Hp [Ha|Hnp]|cur Hc1 Hc2 Hm13 Hg Hnone].
        - assumption.
        - rewrite Hts in Hnp. discriminate.
        - rewrite Hts in Hnone. change TPow with (token_of_binop BPow) in Hnone.
          apply next_binop_none_cons in Hnone. simpl in Hnone. lia. }
      apply GL_mid in Hgc; [|lia|lia].
      apply (LS_lev _ _ _ _ 11); try lia.
      + apply G_pow; assumption.
      + simpl. apply next_binop_13_12. assumption.
  Qed.

  Lemma ploop_sound : forall n minp left ts t r pre0,
    lstate minp pre0 left ts ->
    ploop rec n minp left ts = Ok (t, r) ->
    exists pre, ts = pre ++ r /\ GL minp (pre0 ++ pre) t /\ next_binop minp r = None.
  Proof.
    induction n as [|n IH]; intros minp left ts t r pre0 Hst H.
    - simpl in H. destruct (next_binop minp ts) as [[[op rp] r0]|] eqn:E; [discriminate|].
      inversion H; subst. exists []. split; [reflexivity|]. rewrite app_nil_r.
      split; [apply (lstate_GL _ _ _ r); assumption|assumption].
    - simpl in H. destruct (next_binop minp ts) as [[[op rp] r0]|] eqn:E.
      + destruct (rec rp r0) as [[c r']| | |] eqn:E2; simpl in H; try discriminate.
        destruct (Hrec _ _ _ _ E2) as [[prec [Hr0 Hgc]] Hm].
        pose proof (loop_step _ _ _ _ _ _ _ _ _ _ Hst E Hr0 Hgc Hm) as Hst'.
        destruct (IH _ _ _ _ _ _ Hst' H) as [pre2 [Hr' [Hg Hn]]].
        apply next_binop_some in E. destruct E as [Hts _].
        exists (token_of_binop op :: prec ++ pre2). split.
        * rewrite Hts, Hr0, Hr'. simpl. rewrite <- app_assoc. reflexivity.
        * split; [|assumption].
          replace (pre0 ++ token_of_binop op :: prec ++ pre2)
            with ((pre0 ++ token_of_binop op :: prec) ++ pre2); [assumption|].
          rewrite <- app_assoc. reflexivity.
      + inversion H; subst. exists []. split; [reflexivity|]. rewrite app_nil_r.
        split; [apply (lstate_GL _ _ _ r); assumption|assumption].
  Qed.
End Sound.

Theorem pexpr_sound : forall f, sound_rec (pexpr f).
Proof.
  induction f as [|f IH]; intros p ts t r H; [discriminate|].
  simpl in H.
  destruct (primary (pexpr f) ts) as [[l r1]| | |] eqn:E; simpl in H; try discriminate.
  destruct (primary_sound _ IH _ _ _ E) as [pre1 [Hts [Hp Hd]]].
  assert (Hst : lstate p pre1 l r1) by (apply LS_prim; assumption).
  destruct (ploop_sound _ IH _ _ _ _ _ _ _ Hst H) as [pre2 [Hr1 [Hg Hn]]].
  split; [|assumption].
  exists (pre1 ++ pre2). split; [|assumption].
  rewrite Hts, Hr1. rewrite app_assoc. reflexivity.
Qed.

(* C17 grammar_conventional: an accepted token list is END_OF_FILE preceded by a derivation of
   the returned tree from the start symbol E_0 *)
Theorem grammar_conventional : forall ts t,
  parse_tokens ts = TopOk t -> exists pre, ts = pre ++ [TEnd] /\ G 0 pre t.
Proof.
  intros ts t H. unfold parse_tokens in H.
  destruct (pexpr (S (List.length ts)) 0 ts) as [[t' r]| | |] eqn:E; try discriminate.
  destruct r as [|t0 r0]; [discriminate|].
  destruct t0; try discriminate. destruct r0; [|discriminate].
  inversion H; subst.
  destruct (pexpr_sound _ _ _ _ _ E) as [[pre [Hts Hg]] _].
  exists pre. split; [assumption|]. apply GL_low in Hg; [assumption|lia].
Qed.
