(* Reference parser for symengine/parser/parser.yy (C16, C17, C18), Parser::parse_numeric /
   parse_identifier / parse_implicit_mul / functionify of parser.cpp, and the Parser object as a
   state machine.

   The reference parser is a precedence-climbing parser DRIVEN BY THE PRECEDENCE TABLE READ FROM
   parser.yy (Gen_Prec.prec_table).  It produces a syntactic tree [past]; [denote] turns the tree
   into a recipe [rcp] of library calls (the semantic actions of parser.yy), which the C++ driver
   evaluates with the library's own constructors -- no model of add/mul/pow is involved.
   The bison-generated LALR automaton (parser.tab.cc) is tied to this model by correspondence. *)
From SE Require Export Parse.Lexer Parse.Gen_Names.
Local Open Scope N_scope.

(* ---------------------------------------------------------------- syntax trees *)
Inductive binop :=
| BOr | BXor | BAnd | BEq | BGt | BLt | BNe | BLe | BGe | BAdd | BSub | BMul | BDiv | BPow.

Inductive past :=
| PNum (s : list N)                     (* NUMERIC *)
| PIdent (s : list N)                   (* IDENTIFIER *)
| PImpl (s : list N)                    (* IMPLICIT_MUL as a leaf *)
| PImplPow (s : list N) (e : past)      (* IMPLICIT_MUL POW expr *)
| PBin (op : binop) (a c : past)
| PNeg (a : past)
| PNot (a : past)
| PCall (f : list N) (args : list past) (* IDENTIFIER '(' expr_list ')' *)
| PPw (l : list (past * past)).         (* PIECEWISE '(' piecewise_list ')' *)

(* ---------------------------------------------------------------- precedence table *)
Fixpoint prec_find (k : tk) (tbl : list (assoc * list tk)) (lvl : N) : option (N * assoc) :=
  match tbl with
  | [] => None
  | (a, ks) :: r => if existsb (tk_eqb k) ks then Some (lvl, a) else prec_find k r (lvl + 1)
  end.
Definition prec_of (k : tk) : option (N * assoc) := prec_find k prec_table 0.
Definition lvl (k : tk) : N := match prec_of k with Some (p, _) => p | None => 0 end.

Definition binop_of_token (t : token) : option binop :=
  match t with
  | TOp c =>
      if c =? 124 then Some BOr
      else if c =? 94 then Some BXor
      else if c =? 38 then Some BAnd
      else if c =? 62 then Some BGt
      else if c =? 60 then Some BLt
      else if c =? 43 then Some BAdd
      else if c =? 45 then Some BSub
      else if c =? 42 then Some BMul
      else if c =? 47 then Some BDiv
      else None
  | TEq => Some BEq
  | TNe => Some BNe
  | TLe => Some BLe
  | TGe => Some BGe
  | TPow => Some BPow
  | _ => None
  end.


Definition tk_of_binop (op : binop) : tk :=
  match op with
  | BOr => K_OR | BXor => K_XOR | BAnd => K_AND | BEq => K_EQ | BGt => K_GT | BLt => K_LT
  | BNe => K_NE | BLe => K_LE | BGe => K_GE | BAdd => K_PLUS | BSub => K_MINUS
  | BMul => K_STAR | BDiv => K_SLASH | BPow => K_POW
  end.

(* ---------------------------------------------------------------- the reference parser *)
Definition presult := res (past * list token).
Definition syntax_error {A} : res A := ErrExn EXN_PARSE.
(* failure of a sub-parser: running out of fuel stays visible, anything else is a syntax error *)
Definition err_of {A B} (r : res A) : res B :=
  match r with ErrFuel => ErrFuel | _ => syntax_error end.

(* the rest of the tokens after the single-character operator c, if that is the next token *)
Definition is_tok_op (c : N) (t : token) : bool :=
  match t with TOp d => d =? c | _ => false end.
Definition after_op (c : N) (ts : list token) : option (list token) :=
  match ts with
  | t :: r => if is_tok_op c t then Some r else None
  | [] => None
  end.
Definition after_pow (ts : list token) : option (list token) :=
  match ts with
  | TPow :: r => Some r
  | _ => None
  end.

Section Rec.
  (* the parser for sub-expressions: minimal precedence, tokens *)
  Variable rec : N -> list token -> presult.

  (* expr_list ')' : one or more expressions separated by ',' *)
  Fixpoint pargs (n : nat) (ts : list token) : res (list past * list token) :=
    match n with
    | O => ErrFuel
    | S n' =>
        match rec 0 ts with
        | Ok (a, r) =>
            match after_op 44 r with
            | Some r1 =>
                match pargs n' r1 with
                | Ok (l, r') => Ok (a :: l, r')
                | e => err_of e
                end
            | None =>
                match after_op 41 r with
                | Some r1 => Ok ([a], r1)
                | None => syntax_error
                end
            end
        | e => err_of e
        end
    end.

  (* epair = '(' expr ',' expr ')' *)
  Definition pepair (ts : list token) : res ((past * past) * list token) :=
    match after_op 40 ts with
    | Some r =>
        match rec 0 r with
        | Ok (e, r1) =>
            match after_op 44 r1 with
            | Some r2 =>
                match rec 0 r2 with
                | Ok (c, r3) =>
                    match after_op 41 r3 with
                    | Some r4 => Ok ((e, c), r4)
                    | None => syntax_error
                    end
                | e' => err_of e'
                end
            | None => syntax_error
            end
        | e' => err_of e'
        end
    | None => syntax_error
    end.

  (* piecewise_list ')' *)
  Fixpoint ppairs (n : nat) (ts : list token) : res (list (past * past) * list token) :=
    match n with
    | O => ErrFuel
    | S n' =>
        match pepair ts with
        | Ok (p, r) =>
            match after_op 44 r with
            | Some r1 =>
                match ppairs n' r1 with
                | Ok (l, r') => Ok (p :: l, r')
                | e => err_of e
                end
            | None =>
                match after_op 41 r with
                | Some r1 => Ok ([p], r1)
                | None => syntax_error
                end
            end
        | e => err_of e
        end
    end.

  (* everything that can start an expression: prefix operators, parentheses, leaves *)
  Definition primary (ts : list token) : presult :=
    match ts with
    | TOp c :: r =>
        if c =? 45 then                                  (* '-' expr %prec UMINUS *)
          match rec (lvl K_UMINUS) r with
          | Ok (a, r') => Ok (PNeg a, r')
          | e => err_of e
          end
        else if c =? 43 then                             (* '+' expr %prec UPLUS : $$ = $2 *)
          match rec (lvl K_UPLUS) r with
          | Ok (a, r') => Ok (a, r')
          | e => err_of e
          end
        else if c =? 126 then                            (* '~' expr %prec NOT *)
          match rec (lvl K_NOT) r with
          | Ok (a, r') => Ok (PNot a, r')
          | e => err_of e
          end
        else if c =? 40 then                             (* '(' expr ')' : $$ = $2 *)
          match rec 0 r with
          | Ok (a, r1) =>
              match after_op 41 r1 with
              | Some r' => Ok (a, r')
              | None => syntax_error
              end
          | e => err_of e
          end
        else syntax_error
    | TNum s :: r => Ok (PNum s, r)
    | TIdent f :: r =>
        match after_op 40 r with
        | Some r1 =>                                     (* IDENTIFIER '(' expr_list ')' *)
            match pargs (S (List.length r1)) r1 with
            | Ok (l, r') => Ok (PCall f l, r')
            | e => err_of e
            end
        | None => Ok (PIdent f, r)
        end
    | TImpl s :: r =>
        match after_pow r with
        | Some r1 =>                                     (* IMPLICIT_MUL POW expr (shift preferred) *)
            match rec (lvl K_POW) r1 with
            | Ok (e, r') => Ok (PImplPow s e, r')
            | e => err_of e
            end
        | None => Ok (PImpl s, r)
        end
    | TPiecewise :: r =>
        match after_op 40 r with
        | Some r1 =>
            match ppairs (S (List.length r1)) r1 with
            | Ok (l, r') => Ok (PPw l, r')
            | e => err_of e
            end
        | None => syntax_error
        end
    | _ => syntax_error
    end.

  (* the operator the loop may take next: (operator, its precedence level, the minimal precedence
     of its right operand): p+1 for %left, p for %right *)
  Definition next_binop (minp : N) (ts : list token) : option (binop * N * list token) :=
    match ts with
    | t :: r =>
        match binop_of_token t with
        | Some op =>
            match prec_of (tk_of_binop op) with
            | Some (p, a) =>
                if minp <=? p then Some (op, match a with AssocRight => p | _ => p + 1 end, r)
                else None
            | None => None
            end
        | None => None
        end
    | [] => None
    end.

  (* binary operators following a complete operand *)
  Fixpoint ploop (n : nat) (minp : N) (left : past) (ts : list token) : presult :=
    match next_binop minp ts with
    | Some (op, rp, r) =>
        match n with
        | O => ErrFuel
        | S n' =>
            match rec rp r with
            | Ok (c, r') => ploop n' minp (PBin op left c) r'
            | e => err_of e
            end
        end
    | None => Ok (left, ts)
    end.
End Rec.

Fixpoint pexpr (fuel : nat) (minp : N) (ts : list token) : presult :=
  match fuel with
  | O => ErrFuel
  | S f =>
      match primary (pexpr f) ts with
      | Ok (l, r) => ploop (pexpr f) (List.length r) minp l r
      | e => err_of e
      end
  end.

(* st_expr : expr END_OF_FILE.
   [top_outcome]: what yy::parser::operator() does with the token stream, including whether the
   action of st_expr (p.res = $$) runs before a syntax error is detected: it does when a complete
   expression is followed by a token that cannot continue it (default reduction), it does not
   when the lexer throws on that token. *)
Inductive top_outcome :=
| TopOk (t : past)                  (* accepted: res assigned, p() == 0 *)
| TopErrAssigned (t : past)         (* ParseError after res was assigned *)
| TopErr                            (* ParseError, res untouched *)
| TopFuel.

Definition parse_tokens (ts : list token) : top_outcome :=
  match pexpr (S (List.length ts)) 0 ts with
  | Ok (t, [TEnd]) => TopOk t
  | Ok (t, TBad :: _) => TopErr
  | Ok (t, _) => TopErrAssigned t
  | ErrFuel => TopFuel
  | _ => TopErr
  end.

(* ---------------------------------------------------------------- numeric literals *)
(* digit value in strtol: 0-9, a-z, A-Z *)
Definition digit_val (c : N) : option N :=
  if is_dig c then Some (c - 48)
  else if (97 <=? c) && (c <=? 122) then Some (c - 87)
  else if (65 <=? c) && (c <=? 90) then Some (c - 55)
  else None.

Definition LONG_MAX : Z := 9223372036854775807.

(* digits valid in [base], accumulated; returns (value, consumed digits, rest) *)
Fixpoint strtol_digits (base : N) (acc : Z) (n : nat) (bs : list N) : Z * nat * list N :=
  match bs with
  | c :: r =>
      match digit_val c with
      | Some d => if d <? base then strtol_digits base (acc * Z.of_N base + Z.of_N d)%Z (S n) r
                  else (acc, n, bs)
      | None => (acc, n, bs)
      end
  | [] => (acc, n, bs)
  end.

(* std::strtol(s, &end, base) for base 0, 8, 10 or 16 on a string without leading white space or
   sign (tokens never have them): (value, end - s, errno == ERANGE) *)
Definition strtol (base : N) (bs : list N) : Z * nat * bool :=
  let is_x c := (c =? 120) || (c =? 88) in
  let hexprefix :=
    match bs with
    | 48 :: x :: d :: _ =>
        is_x x && match digit_val d with Some v => v <? 16 | None => false end
    | _ => false
    end in
  let '(b', skip, body) :=
    if ((base =? 0) || (base =? 16)) && hexprefix then (16, 2%nat, skipn 2 bs)
    else if base =? 0 then
      match bs with
      | 48 :: _ => (8, 0%nat, bs)
      | _ => (10, 0%nat, bs)
      end
    else (base, 0%nat, bs) in
  let '(v, n, _) := strtol_digits b' 0 0 body in
  match n with
  | O => (0%Z, 0%nat, false)
  | _ => if (LONG_MAX <? v)%Z then (LONG_MAX, (skip + n)%nat, true) else (v, (skip + n)%nat, false)
  end.

(* integer_class(expr): mpz_set_str in base 10 *)
Fixpoint dec_value (acc : Z) (bs : list N) : option Z :=
  match bs with
  | [] => Some acc
  | c :: r => if is_dig c then dec_value (acc * 10 + Z.of_N (c - 48))%Z r else None
  end.

Inductive numlit :=
| NumInt (z : Z)              (* integer(l) / integer(integer_class(expr)) *)
| NumFloat (lit : list N)     (* real_double(from_chars(expr)): the decimal literal itself *)
| NumBad.                     (* integer_class(expr) rejects the string (not reachable from tokens) *)

(* Parser::parse_numeric *)
Definition parse_numeric (s : list N) : numlit :=
  let '(l, n, erange) := strtol strtol_base s in
  if negb (mem 46 s) && Nat.eqb n (List.length s) then
    if negb erange then NumInt l
    else match dec_value 0 s with Some z => NumInt z | None => NumBad end
  else NumFloat s.

(* fast_float::from_chars(...).ptr: the longest prefix of the form
   digits [. digits] [(e|E) [+|-] digits+] with at least one digit in the mantissa *)
Definition ff_prefix (bs : list N) : list N * list N :=
  let '(d1, r1) := span is_dig bs in
  let '(frac, r2) := match r1 with
                     | 46 :: r1' => let '(d2, r) := span is_dig r1' in (46 :: d2, r)
                     | _ => ([], r1)
                     end in
  if nonempty d1 || (1 <? N.of_nat (List.length frac)) then
    let '(ex, r3) := scan_exp r2 in (d1 ++ frac ++ ex, r3)
  else ([], bs).

(* ---------------------------------------------------------------- recipes *)
(* a recipe denotes a sequence of library calls; library functions and constants are named by
   their C++ identifiers (as they appear in parser.cpp / parser.yy) *)
Inductive rcp :=
| RInt (z : Z)
| RFloat (lit : list N)                    (* the double nearest to the decimal literal *)
| RBadNum
| RSym (name : list N)                     (* symbol(name) *)
| RConst (c : list N)                      (* E, pi, I, Inf, ComplexInf, Nan, boolTrue, ... *)
| ROne
| RApp (f : list N) (args : list rcp)      (* f(args...) *)
| RAppBool (f : list N) (args : list rcp)  (* every argument must be a Boolean, else ParseError *)
| RAppUnchecked (f : list N) (args : list rcp)   (* rcp_static_cast<Boolean> without a test *)
| RFunSym (name : list N) (args : list rcp)
| RPw (l : list (rcp * rcp)).              (* piecewise; conditions must be Boolean, else ParseError *)

Definition numeric_rcp (s : list N) : rcp :=
  match parse_numeric s with
  | NumInt z => RInt z
  | NumFloat l => RFloat l
  | NumBad => RBadNum
  end.

(* Parser::parse_identifier (without local constants) *)
Definition ident_rcp (s : list N) : rcp :=
  match assoc_find s parser_constants with
  | Some c => RConst c
  | None => RSym s
  end.

(* Parser::parse_implicit_mul *)
Definition implicit_mul (s : list N) : rcp * option rcp :=
  let '(num, rest) := ff_prefix s in
  (numeric_rcp num, match rest with [] => None | _ => Some (ident_rcp rest) end).

(* Parser::functionify *)
Definition functionify (name : list N) (params : list rcp) : rcp :=
  let n := List.length params in
  let try1 :=
    if Nat.eqb n 1 then
      match assoc_find name single_arg_functions with
      | Some f => Some (RApp f params)
      | None =>
          match assoc_find name single_arg_boolean_functions with
          | Some f => Some (RApp f params)
          | None =>
              match assoc_find name single_arg_boolean_boolean_functions with
              | Some f => Some (RAppBool f params)
              | None => None
              end
          end
      end
    else None in
  match try1 with
  | Some r => r
  | None =>
  let try2 :=
    if Nat.eqb n 2 then
      match assoc_find name double_arg_functions with
      | Some f => Some (RApp f params)
      | None =>
          match assoc_find name double_arg_boolean_functions with
          | Some f => Some (RApp f params)
          | None => None
          end
      end
    else None in
  match try2 with
  | Some r => r
  | None =>
      match assoc_find name multi_arg_functions with
      | Some f => RApp f params
      | None =>
          match assoc_find name multi_arg_vec_boolean_functions with
          | Some f => RAppBool f params
          | None =>
              match assoc_find name multi_arg_set_boolean_functions with
              | Some f => RAppBool f params
              | None => RFunSym name params
              end
          end
      end
  end end.

Definition binop_key (op : binop) : list N :=
  Eval compute in
  match op with
  | BOr => b "BOr" | BXor => b "BXor" | BAnd => b "BAnd" | BEq => b "BEq" | BGt => b "BGt"
  | BLt => b "BLt" | BNe => b "BNe" | BLe => b "BLe" | BGe => b "BGe" | BAdd => b "BAdd"
  | BSub => b "BSub" | BMul => b "BMul" | BDiv => b "BDiv" | BPow => b "BPow"
  end.
Definition s_mul : list N := Eval compute in b "mul".
Definition s_pow : list N := Eval compute in b "pow".
Definition s_neg : list N := Eval compute in b "neg".
Definition s_logical_not : list N := Eval compute in b "logical_not".
Definition s_unknown : list N := Eval compute in b "?".
Definition is_logical (op : binop) : bool :=
  match op with BOr | BXor | BAnd => true | _ => false end.
Definition bin_action (op : binop) : list N :=
  match assoc_find (binop_key op) bin_action_table with Some f => f | None => s_unknown end.
Definition logical_app (f : list N) (args : list rcp) : rcp :=
  if logical_operands_checked then RAppBool f args else RAppUnchecked f args.

(* the semantic actions *)
Fixpoint denote (t : past) : rcp :=
  match t with
  | PNum s => numeric_rcp s
  | PIdent s => ident_rcp s
  | PImpl s =>
      let '(num, sym) := implicit_mul s in
      RApp s_mul [num; match sym with Some x => x | None => ROne end]
  | PImplPow s e =>
      let '(num, sym) := implicit_mul s in
      match sym with
      | Some x => RApp s_mul [num; RApp s_pow [x; denote e]]
      | None => RApp s_pow [num; denote e]
      end
  | PBin op a c =>
      if is_logical op then logical_app (bin_action op) [denote a; denote c]
      else RApp (bin_action op) [denote a; denote c]
  | PNeg a => RApp s_neg [denote a]
  | PNot a => logical_app s_logical_not [denote a]
  | PCall f args => functionify f (List.map denote args)
  | PPw l => RPw (List.map (fun p => (denote (fst p), denote (snd p))) l)
  end.

(* ---------------------------------------------------------------- the Parser object *)
(* fields of SymEngine::Parser / Tokenizer that survive a call: inp, the tokenizer's cursor
   (an offset into inp) and res.  res holds "the value of a recipe". *)
Record pstate := mk_pstate {
  ps_inp : list N;
  ps_cur : N;
  ps_res : option rcp
}.
Definition fresh_parser : pstate := mk_pstate [] 0 None.

Inductive outcome :=
| OutValue (r : rcp)       (* returns this->res (or throws what evaluating r throws) *)
| OutParseError
| OutFuel.

(* the bytes the tokenizer reads starting at its cursor *)
Definition visible (st : pstate) : list N := skipn (N.to_nat (ps_cur st)) (ps_inp st).

(* Parser::parse(input, convert_xor): inp = input; replace; m_tokenizer->set_string(inp);
   yy::parser p(this); if (p() == 0) return res; throw ParseError.
   The cursor after the call is not modelled exactly (it is overwritten by the next set_string
   before it is read): it is left at the end of inp. *)
Definition parser_parse (st : pstate) (input : list N) (conv : bool) : pstate * outcome :=
  let st1 := mk_pstate (convert_xor conv input) (ps_cur st) (ps_res st) in   (* inp = ...   *)
  let st2 := mk_pstate (ps_inp st1) 0 (ps_res st1) in                         (* set_string  *)
  let endcur := N.of_nat (List.length (ps_inp st2)) in
  match lex (visible st2) with
  | None => (mk_pstate (ps_inp st2) endcur (ps_res st2), OutFuel)
  | Some ts =>
      match parse_tokens ts with
      | TopOk t =>
          let st3 := mk_pstate (ps_inp st2) endcur (Some (denote t)) in      (* p.res = $$  *)
          (st3, match ps_res st3 with Some r => OutValue r | None => OutParseError end)
      | TopErrAssigned t => (mk_pstate (ps_inp st2) endcur (Some (denote t)), OutParseError)
      | TopErr => (mk_pstate (ps_inp st2) endcur (ps_res st2), OutParseError)
      | TopFuel => (mk_pstate (ps_inp st2) endcur (ps_res st2), OutFuel)
      end
  end.

(* a history of inputs given to one parser object: the outcomes, and the final state *)
Fixpoint run_history (st : pstate) (h : list (list N * bool)) : pstate * list outcome :=
  match h with
  | [] => (st, [])
  | (s, conv) :: r =>
      let '(st1, o) := parser_parse st s conv in
      let '(st2, os) := run_history st1 r in
      (st2, o :: os)
  end.

(* SymEngine::parse(s): a fresh Parser for each call *)
Definition parse_ref (s : list N) (conv : bool) : outcome := snd (parser_parse fresh_parser s conv).

(* the syntactic part alone: bytes -> tree *)
Definition parse_syntax (s : list N) (conv : bool) : top_outcome :=
  match lex (convert_xor conv s) with
  | Some ts => parse_tokens ts
  | None => TopFuel
  end.
