(* Model of Tokenizer::lex (symengine/parser/tokenizer.re), at the level of the regular
   expressions: longest match, ties broken by rule order.  The re2c-generated DFA
   (tokenizer.cpp) is tied to this model by the correspondence runs only.

     end = "\x00";  whitespace = [ \t\v\n\r]+;  dig = [0-9];
     char = [\x80-\xff] | [a-zA-Z_];
     operators = "-"|"+"|"/"|"("|")"|"*"|","|"^"|"~"|"<"|">"|"&"|"|";
     pows = "**"|"@";  le = "<=";  ge = ">=";  ne = "!=";  eqs = "==";
     ident = char (char | dig)*;   pwise = "Piecewise";
     numeric = (dig*"."?dig+([eE][-+]?dig+)?) | (dig+".");
     implicitmul = numeric ident;

   The operator and whitespace classes are read from the source (Gen_Prec.v); the remaining
   definitions are checked textually by translators/tr_grammar.py. *)
From SE Require Export Parse.Tokens Parse.Gen_Prec.
Local Open Scope N_scope.

Definition mem (c : N) (l : list N) : bool := existsb (N.eqb c) l.

Definition is_ws (c : N) : bool := mem c whitespace_bytes.
Definition is_dig (c : N) : bool := (48 <=? c) && (c <=? 57).
Definition is_char (c : N) : bool :=
  (128 <=? c) || ((65 <=? c) && (c <=? 90)) || ((97 <=? c) && (c <=? 122)) || (c =? 95).
Definition is_identc (c : N) : bool := is_char c || is_dig c.
Definition is_op (c : N) : bool := mem c operator_bytes.
Definition is_e (c : N) : bool := (c =? 101) || (c =? 69).
Definition is_sign (c : N) : bool := (c =? 45) || (c =? 43).

(* longest prefix whose bytes satisfy p, and the rest *)
Fixpoint span (p : N -> bool) (l : list N) : list N * list N :=
  match l with
  | [] => ([], [])
  | c :: r => if p c then let '(a, z) := span p r in (c :: a, z) else ([], l)
  end.

Definition nonempty {A} (l : list A) : bool := match l with [] => false | _ => true end.

(* ([eE][-+]?dig+)? : the exponent is taken only when at least one digit follows *)
Definition split_sign (r1 : list N) : list N * list N :=
  match r1 with
  | s :: r2' => if is_sign s then ([s], r2') else ([], r1)
  | [] => ([], r1)
  end.
Definition scan_exp (r : list N) : list N * list N :=
  match r with
  | e :: r1 =>
      if is_e e then
        let '(sg, r2) := split_sign r1 in
        let '(ds, r3) := span is_dig r2 in
        if nonempty ds then (e :: sg ++ ds, r3) else ([], r)
      else ([], r)
  | [] => ([], r)
  end.

(* longest prefix matching `numeric`, if any *)
(* digits d1 already read, r1 follows: no decimal point taken *)
Definition scan_nodot (d1 r1 : list N) : option (list N * list N) :=
  if nonempty d1 then let '(ex, r4) := scan_exp r1 in Some (d1 ++ ex, r4) else None.
(* digits d1 and a "." already read, r2 follows *)
Definition scan_dot (d1 r2 : list N) : option (list N * list N) :=
  let '(d2, r3) := span is_dig r2 in
  if nonempty d2 then
    let '(ex, r4) := scan_exp r3 in Some (d1 ++ 46 :: d2 ++ ex, r4)
  else if nonempty d1 then Some (d1 ++ [46], r2)
  else None.
Definition scan_tail (d1 r1 : list N) : option (list N * list N) :=
  match r1 with
  | c :: r2 => if c =? 46 then scan_dot d1 r2 else scan_nodot d1 r1
  | [] => scan_nodot d1 r1
  end.
Definition scan_numeric (bs : list N) : option (list N * list N) :=
  let '(d1, r1) := span is_dig bs in scan_tail d1 r1.

Definition piecewise_bytes : list N := Eval compute in b "Piecewise".

(* one call of Tokenizer::lex on input that does not start with whitespace:
   the token and the remaining input.  [] is the end of the std::string (its terminating NUL). *)
Definition lex_one (bs : list N) : token * list N :=
  match bs with
  | [] => (TEnd, [])
  | c :: r =>
      if c =? 0 then (TEnd, bs)
      else
      match scan_numeric bs with
      | Some (num, r1) =>
          match r1 with
          | d :: _ =>
              if is_char d then let '(id, r2) := span is_identc r1 in (TImpl (num ++ id), r2)
              else (TNum num, r1)
          | [] => (TNum num, r1)
          end
      | None =>
          if is_char c then
            let '(id, r1) := span is_identc bs in
            (if bytes_eq id piecewise_bytes then TPiecewise else TIdent id, r1)
          else
          match r with
          | d :: r' =>
              if (c =? 42) && (d =? 42) then (TPow, r')
              else if (c =? 60) && (d =? 61) then (TLe, r')
              else if (c =? 62) && (d =? 61) then (TGe, r')
              else if (c =? 33) && (d =? 61) then (TNe, r')
              else if (c =? 61) && (d =? 61) then (TEq, r')
              else if c =? 64 then (TPow, r)
              else if is_op c then (TOp c, r)
              else (TBad, r)
          | [] =>
              if c =? 64 then (TPow, r)
              else if is_op c then (TOp c, r)
              else (TBad, r)
          end
      end
  end.

(* the token stream the parser can see: lexing stops at END_OF_FILE and at the first unknown
   token (which throws).  None = out of fuel (never happens with fuel > length, LexProofs). *)
Fixpoint lex_fuel (fuel : nat) (bs : list N) : option (list token) :=
  match fuel with
  | O => None
  | S f =>
      let bs' := snd (span is_ws bs) in
      let '(t, r) := lex_one bs' in
      match t with
      | TEnd => Some [TEnd]
      | TBad => Some [TBad]
      | _ => match lex_fuel f r with Some l => Some (t :: l) | None => None end
      end
  end.

(* Parser::parse: std::replace(inp.begin(), inp.end(), '^', '@') when convert_xor *)
Definition convert_xor (conv : bool) (bs : list N) : list N :=
  if conv then List.map (fun c => if c =? 94 then 64 else c) bs else bs.

Definition lex (bs : list N) : option (list token) := lex_fuel (S (List.length bs)) bs.
