(* C16 -- parse_print, PARTIAL: the round trip  bytes of str(e) -> lexer -> parser -> tree  for the
   fragment of nested powers over symbols and non-negative integers,

       e ::= Symbol (identifier-shaped name) | Integer n (n >= 0) | Pow e e

   i.e. the printer's rule "parenthesize base and exponent when their precedence is <= Pow"
   (_print_pow / parenthesizeLE) is exactly what the right-associative ** of the grammar needs:
   parse_syntax (print e) = TopOk (syn e), where syn mirrors e.
   The full statement (all of Add / Mul / functions / relationals) is covered by the
   correspondence runs of check C16 only. *)
From SE Require Import Parse.ParseSpec Parse.ParseComplete Parse.LexProofs Parse.PrintModel.
From Coq Require Import Lia ZifyBool ZifyN ZifyNat.
Local Open Scope N_scope.

(* ------------------------------------------------------------------ the fragment *)
Definition ident_name (nm : list N) : bool :=
  match nm with
  | c :: r => is_char c && forallb is_identc r && negb (bytes_eq nm piecewise_bytes)
  | [] => false
  end.

Inductive powfrag : expr -> Prop :=
| PF_sym : forall nm, ident_name nm = true -> powfrag (ESym nm)
| PF_nat : forall n, powfrag (ENum (NInt (Z.of_N n)))
| PF_pow : forall a c, powfrag a -> powfrag c -> powfrag (EPow a c).

(* the tree the printed string denotes *)
Fixpoint syn (e : expr) : past :=
  match e with
  | ESym nm => PIdent nm
  | ENum (NInt z) => PNum (dec_Z z)
  | EPow a c => PBin BPow (syn a) (syn c)
  | _ => PNum []
  end.

(* the tokens of the printed string *)
Definition is_pow (e : expr) : bool := match e with EPow _ _ => true | _ => false end.
Fixpoint ptoks (e : expr) : list token :=
  match e with
  | ESym nm => [TIdent nm]
  | ENum (NInt z) => [TNum (dec_Z z)]
  | EPow a c =>
      (if is_pow a then TOp 40 :: ptoks a ++ [TOp 41] else ptoks a) ++ TPow ::
      (if is_pow c then TOp 40 :: ptoks c ++ [TOp 41] else ptoks c)
  | _ => []
  end.
Definition wrap (e : expr) : list token :=
  if is_pow e then TOp 40 :: ptoks e ++ [TOp 41] else ptoks e.

(* ------------------------------------------------------------------ tokens -> tree *)
Lemma Gp_le : forall k k' ts t, k <= k' -> k' <= 11 -> Gp k' ts t -> Gp k ts t.
Proof.
  intros k k' ts t H1 H2 H.
  remember (N.to_nat (k' - k)) as d eqn:Hd. revert k H1 Hd.
  induction d as [|d IH]; intros k H1 Hd.
  - replace k with k' by lia. exact H.
  - apply Gp_up; [lia|]. apply IH; lia.
Qed.

Lemma frag_derivation : forall e, powfrag e -> Gp 11 (ptoks e) (syn e) /\ AtomP (wrap e) (syn e).
Proof.
  induction 1 as [nm Hn|n|a c Ha [IHa1 IHa2] Hc [IHc1 IHc2]].
  - split; [apply Gp_atom|]; apply AP_ident.
  - split; [apply Gp_atom|]; cbn [syn ptoks wrap is_pow]; apply AP_num.
  - assert (G : Gp 11 (ptoks (EPow a c)) (syn (EPow a c))).
    { cbn [ptoks syn]. fold (wrap a). fold (wrap c). apply Gp_pow; [exact IHa2|].
      apply Gp_atom. exact IHc2. }
    split; [exact G|]. unfold wrap. cbn [is_pow]. apply AP_paren.
    apply (Gp_le 0 11); [lia|lia|exact G].
Qed.

Theorem frag_parse_tokens : forall e, powfrag e -> parse_tokens (ptoks e ++ [TEnd]) = TopOk (syn e).
Proof.
  intros e H. apply grammar_complete. apply (Gp_le 0 11); [lia|lia|].
  apply (proj1 (frag_derivation e H)).
Qed.

(* ------------------------------------------------------------------ bytes -> tokens *)
Definition text (t : token) : list N :=
  match t with
  | TIdent s | TNum s => s
  | TPow => [42; 42]
  | TOp c => [c]
  | _ => []
  end.
Fixpoint render (ts : list token) : list N :=
  match ts with [] => [] | t :: r => text t ++ render r end.

(* the first byte of what follows must not continue the token *)
Definition stops_ident (rest : list N) : Prop :=
  match rest with [] => True | c :: _ => is_identc c = false end.
Definition stops_num (rest : list N) : Prop :=
  match rest with [] => True | c :: _ => is_dig c = false /\ is_char c = false /\ c <> 46 end.

Lemma span_all_stop : forall p l rest,
  forallb p l = true -> match rest with [] => True | c :: _ => p c = false end ->
  span p (l ++ rest) = (l, rest).
Proof.
  induction l as [|c l IH]; intros rest Hl Hr; cbn [app].
  - destruct rest as [|d r]; [reflexivity|]. cbn [span]. rewrite Hr. reflexivity.
  - cbn [forallb] in Hl. apply andb_true_iff in Hl. destruct Hl as [Hc Hl].
    cbn [span]. rewrite Hc. rewrite (IH rest Hl Hr). reflexivity.
Qed.

Lemma is_char_not_dig : forall c, is_char c = true -> is_dig c = false.
Proof. intros c H. unfold is_char, is_dig in *. lia. Qed.
Lemma is_char_not_dot : forall c, is_char c = true -> (c =? 46) = false.
Proof. intros c H. unfold is_char in *. lia. Qed.
Lemma is_char_not_zero : forall c, is_char c = true -> (c =? 0) = false.
Proof. intros c H. unfold is_char in *. lia. Qed.

Lemma lex_one_ident : forall nm rest,
  ident_name nm = true -> stops_ident rest -> lex_one (nm ++ rest) = (TIdent nm, rest).
Proof.
  intros nm rest Hn Hr. unfold ident_name in Hn. destruct nm as [|c r]; [discriminate|].
  apply andb_true_iff in Hn. destruct Hn as [Hn Hpw]. apply andb_true_iff in Hn.
  destruct Hn as [Hc Hall].
  assert (Hsp : span is_identc ((c :: r) ++ rest) = (c :: r, rest)).
  { apply span_all_stop.
    - cbn [forallb]. unfold is_identc at 1. rewrite Hc. simpl. exact Hall.
    - destruct rest; [exact I|exact Hr]. }
  unfold lex_one. cbn [app]. rewrite (is_char_not_zero c Hc).
  assert (Hnum : scan_numeric (c :: r ++ rest) = None).
  { unfold scan_numeric. cbn [span]. rewrite (is_char_not_dig c Hc).
    rewrite scan_tail_cons. rewrite (is_char_not_dot c Hc). reflexivity. }
  rewrite Hnum. rewrite Hc.
  change (c :: r ++ rest) with ((c :: r) ++ rest). rewrite Hsp.
  destruct (bytes_eq (c :: r) piecewise_bytes); [discriminate|reflexivity].
Qed.

Lemma lex_one_num : forall ds rest,
  ds <> [] -> forallb is_dig ds = true -> stops_num rest -> lex_one (ds ++ rest) = (TNum ds, rest).
Proof.
  intros ds rest Hne Hd Hr.
  assert (Hsp : span is_dig (ds ++ rest) = (ds, rest)).
  { apply span_all_stop; [exact Hd|]. destruct rest; [exact I|]. apply Hr. }
  assert (Hnum : scan_numeric (ds ++ rest) = Some (ds, rest)).
  { unfold scan_numeric. rewrite Hsp.
    assert (Hnd : scan_nodot ds rest = Some (ds, rest)).
    { unfold scan_nodot. destruct ds as [|d0 ds0]; [congruence|]. cbn [nonempty].
      assert (He : scan_exp rest = ([], rest)).
      { destruct rest as [|e r]; [reflexivity|]. rewrite scan_exp_cons.
        destruct Hr as [_ [Hch _]].
        assert (Hee : is_e e = false) by (unfold is_e, is_char in *; lia).
        rewrite Hee. reflexivity. }
      rewrite He. rewrite app_nil_r. reflexivity. }
    destruct rest as [|c r]; [exact Hnd|]. rewrite scan_tail_cons.
    destruct Hr as [_ [_ Hdot]]. destruct (N.eqb_spec c 46); [contradiction|exact Hnd]. }
  unfold lex_one. destruct ds as [|d0 ds0]; [congruence|]. cbn [app].
  assert (Hd0 : (d0 =? 0) = false).
  { cbn [forallb] in Hd. apply andb_true_iff in Hd. destruct Hd as [Hd0 _].
    unfold is_dig in Hd0. lia. }
  rewrite Hd0. change (d0 :: ds0 ++ rest) with ((d0 :: ds0) ++ rest). rewrite Hnum.
  destruct rest as [|c r]; [reflexivity|]. destruct Hr as [_ [Hch _]]. rewrite Hch. reflexivity.
Qed.

Lemma lex_one_pow : forall rest, lex_one (42 :: 42 :: rest) = (TPow, rest).
Proof. intros rest. reflexivity. Qed.
Lemma lex_one_lpar : forall rest, lex_one (40 :: rest) = (TOp 40, rest).
Proof. intros rest. destruct rest; reflexivity. Qed.
Lemma lex_one_rpar : forall rest, lex_one (41 :: rest) = (TOp 41, rest).
Proof. intros rest. destruct rest; reflexivity. Qed.

(* no white space in front of a token text that starts with a non-space byte *)
Lemma span_ws_nil : forall c r, is_ws c = false -> snd (span is_ws (c :: r)) = c :: r.
Proof. intros c r H. cbn [span]. rewrite H. reflexivity. Qed.

(* tokens of the fragment and what may follow them *)
Inductive ftok : token -> Prop :=
| FT_ident : forall nm, ident_name nm = true -> ftok (TIdent nm)
| FT_num : forall ds, ds <> [] -> forallb is_dig ds = true -> ftok (TNum ds)
| FT_pow : ftok TPow
| FT_lpar : ftok (TOp 40)
| FT_rpar : ftok (TOp 41).

(* t may be directly followed by u *)
Definition follows (t u : token) : Prop :=
  match t with
  | TIdent _ | TNum _ => u = TPow \/ u = TOp 41
  | _ => True
  end.

Fixpoint chain (ts : list token) : Prop :=
  match ts with
  | t :: ((u :: _) as r) => ftok t /\ follows t u /\ chain r
  | [t] => ftok t
  | [] => True
  end.

Lemma first_byte_ws : forall t r, ftok t -> exists c b, text t ++ r = c :: b /\ is_ws c = false.
Proof.
  intros t r H. destruct H as [nm Hn|ds Hne Hd| | |].
  - unfold ident_name in Hn. destruct nm as [|c nm']; [discriminate|].
    apply andb_true_iff in Hn. destruct Hn as [Hn _]. apply andb_true_iff in Hn.
    destruct Hn as [Hc _]. exists c, (nm' ++ r). split; [reflexivity|].
    unfold is_char in Hc. unfold is_ws, mem, whitespace_bytes. cbn [existsb]. lia.
  - destruct ds as [|c ds']; [congruence|]. cbn [forallb] in Hd. apply andb_true_iff in Hd.
    destruct Hd as [Hc _]. exists c, (ds' ++ r). split; [reflexivity|].
    unfold is_dig in Hc. unfold is_ws, mem, whitespace_bytes. cbn [existsb]. lia.
  - exists 42, (42 :: r). split; reflexivity.
  - exists 40, r. split; reflexivity.
  - exists 41, r. split; reflexivity.
Qed.

Lemma follows_stops : forall t u r, ftok t -> ftok u -> follows t u ->
  match t with
  | TIdent _ => stops_ident (text u ++ r)
  | TNum _ => stops_num (text u ++ r)
  | _ => True
  end.
Proof.
  intros t u r Ht Hu Hf. destruct Ht; cbn [follows] in Hf; try exact I.
  - destruct Hf as [->| ->]; reflexivity.
  - destruct Hf as [->| ->]; cbn; repeat split; discriminate.
Qed.

Lemma lex_one_ftok : forall t rest,
  ftok t ->
  match t with TIdent _ => stops_ident rest | TNum _ => stops_num rest | _ => True end ->
  lex_one (text t ++ rest) = (t, rest).
Proof.
  intros t rest Ht Hs. destruct Ht as [nm Hn|ds Hne Hd| | |]; cbn [text].
  - apply lex_one_ident; assumption.
  - apply lex_one_num; assumption.
  - apply lex_one_pow.
  - apply lex_one_lpar.
  - apply lex_one_rpar.
Qed.

Lemma lex_fuel_chain : forall ts f, chain ts -> (List.length ts < f)%nat ->
  lex_fuel f (render ts) = Some (ts ++ [TEnd]).
Proof.
  induction ts as [|t r IH]; intros f Hc Hf.
  - destruct f; [lia|]. reflexivity.
  - destruct f as [|f]; [lia|]. cbn [render lex_fuel].
    assert (Ht : ftok t) by (destruct r; [exact Hc|exact (proj1 Hc)]).
    destruct (first_byte_ws t (render r) Ht) as [c [bs [Hb Hws]]].
    rewrite Hb. rewrite (span_ws_nil c bs Hws). rewrite <- Hb.
    assert (Hl : lex_one (text t ++ render r) = (t, render r)).
    { apply lex_one_ftok; [exact Ht|]. destruct r as [|u r'].
      - cbn [render]. destruct t; exact I.
      - destruct Hc as [_ [Hfo Hc']]. cbn [render].
        assert (Hu : ftok u) by (destruct r'; [exact Hc'|exact (proj1 Hc')]).
        exact (follows_stops t u (render r') Ht Hu Hfo). }
    rewrite Hl.
    assert (Hr : lex_fuel f (render r) = Some (r ++ [TEnd])).
    { apply IH; [destruct r as [|u r']; [exact I|exact (proj2 (proj2 Hc))]|cbn [List.length] in Hf; lia]. }
    rewrite Hr. destruct Ht; reflexivity.
Qed.

Theorem lex_render : forall ts, chain ts -> lex (render ts) = Some (ts ++ [TEnd]).
Proof.
  intros ts Hc.
  assert (H : lex_fuel (S (List.length ts)) (render ts) = Some (ts ++ [TEnd]))
    by (apply lex_fuel_chain; [exact Hc|lia]).
  unfold lex.
  destruct (lex_fuel (S (List.length (render ts))) (render ts)) as [l|] eqn:E.
  - set (m := Nat.max (S (List.length ts)) (S (List.length (render ts)))).
    assert (H2 : lex_fuel m (render ts) = Some (ts ++ [TEnd]))
      by (apply (lex_fuel_mono _ _ _ H); unfold m; lia).
    assert (E2 : lex_fuel m (render ts) = Some l)
      by (apply (lex_fuel_mono _ _ _ E); unfold m; lia).
    congruence.
  - exfalso. apply (lex_fuel_total (S (List.length (render ts))) (render ts)); [lia|exact E].
Qed.
