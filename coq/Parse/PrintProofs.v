(* C16 -- the printed form of a sum does not depend on the order in which the unordered_map of
   the Add happens to iterate: StrPrinter copies the dictionary into a std::map ordered by
   PrinterBasicCmp, and for keys on which that comparator is a strict total order the sorted
   sequence -- hence the string -- is the same for every permutation of the dictionary.
   The order hypotheses are stated on the keys at hand; PrintWf.v discharges them for
   well-formed sums from the C02 theorems. *)
From SE Require Import Parse.PrintModel.
From Coq Require Import Lia Permutation Sorted.
Local Open Scope N_scope.

Section Order.
  Variable P : expr -> Prop.
  Hypothesis lt_trans : forall x y z, P x -> P y -> P z ->
    printer_lt x y = true -> printer_lt y z = true -> printer_lt x z = true.
  Hypothesis lt_asym : forall x y, P x -> P y ->
    printer_lt x y = true -> printer_lt y x = true -> False.

  Definition R (p q : expr * number) : Prop := printer_lt (fst p) (fst q) = true.
  Definition keysP (m : list (expr * number)) : Prop := forall p, In p m -> P (fst p).
  Definition cmpable (p q : expr * number) : Prop := R p q \/ R q p.

  Lemma ins_in : forall k v m x, In x (pmap_insert k v m) -> x = (k, v) \/ In x m.
  Proof.
    induction m as [|[k' v'] m IH]; intros x H; cbn [pmap_insert] in H.
    - destruct H as [H|[]]. left. symmetry. exact H.
    - destruct (printer_lt k' k).
      + destruct H as [H|H]; [right; left; exact H|].
        destruct (IH x H) as [H1|H1]; [left; exact H1|right; right; exact H1].
      + destruct (printer_lt k k').
        * destruct H as [H|H]; [left; symmetry; exact H|right; exact H].
        * right. exact H.
  Qed.

  Lemma ins_sorted : forall k v m, P k -> keysP m ->
    StronglySorted R m -> StronglySorted R (pmap_insert k v m).
  Proof.
    induction m as [|[k' v'] m IH]; intros Pk Km S; cbn [pmap_insert].
    - constructor; constructor.
    - inversion S as [|? ? Stl Hhd]; subst.
      assert (Pk' : P k') by (apply (Km (k', v')); left; reflexivity).
      assert (Km' : keysP m) by (intros q Hq; apply Km; right; exact Hq).
      destruct (printer_lt k' k) eqn:L1.
      + constructor; [apply IH; assumption|].
        apply Forall_forall. intros x Hx. destruct (ins_in _ _ _ _ Hx) as [->|Hm].
        * exact L1.
        * eapply Forall_forall in Hhd; [exact Hhd|exact Hm].
      + destruct (printer_lt k k') eqn:L2; [|exact S].
        constructor; [exact S|].
        apply Forall_forall. intros x [<-|Hx]; [exact L2|].
        eapply Forall_forall in Hhd; [|exact Hx]. unfold R in *. simpl in *.
        apply (lt_trans k k' (fst x)); try assumption. apply Km'. exact Hx.
  Qed.

  Lemma ins_perm : forall k v m,
    (forall p, In p m -> cmpable p (k, v)) -> Permutation ((k, v) :: m) (pmap_insert k v m).
  Proof.
    induction m as [|[k' v'] m IH]; intros Hc; cbn [pmap_insert]; [apply Permutation_refl|].
    destruct (printer_lt k' k) eqn:L1.
    - eapply Permutation_trans; [apply perm_swap|]. apply perm_skip. apply IH.
      intros p Hp. apply Hc. right. exact Hp.
    - destruct (printer_lt k k') eqn:L2; [apply Permutation_refl|].
      exfalso. destruct (Hc (k', v')) as [H|H]; [left; reflexivity| |]; unfold R in H; simpl in H;
        congruence.
  Qed.

  Lemma ins_keysP : forall k v m, P k -> keysP m -> keysP (pmap_insert k v m).
  Proof.
    intros k v m Pk Km p Hp. destruct (ins_in _ _ _ _ Hp) as [->|H]; [exact Pk|apply Km; exact H].
  Qed.

  Definition step (m : list (expr * number)) (p : expr * number) := pmap_insert (fst p) (snd p) m.

  Lemma fold_sorted : forall d m, keysP d -> keysP m -> StronglySorted R m ->
    StronglySorted R (fold_left step d m) /\ keysP (fold_left step d m).
  Proof.
    induction d as [|[k v] d IH]; intros m Kd Km S; cbn [fold_left]; [split; assumption|].
    assert (Pk : P k) by (apply (Kd (k, v)); left; reflexivity).
    apply IH.
    - intros q Hq. apply Kd. right. exact Hq.
    - apply ins_keysP; assumption.
    - apply ins_sorted; assumption.
  Qed.

  (* distinct entries are comparable *)
  Definition all_cmp (l : list (expr * number)) : Prop :=
    NoDup l /\ forall p q, In p l -> In q l -> p = q \/ cmpable p q.

  Lemma all_cmp_perm : forall l1 l2, Permutation l1 l2 -> all_cmp l1 -> all_cmp l2.
  Proof.
    intros l1 l2 PM [ND H]. split; [eapply Permutation_NoDup; eassumption|].
    intros p q Hp Hq. apply H; eapply Permutation_in; try eassumption; apply Permutation_sym; exact PM.
  Qed.

  Lemma fold_perm : forall d m, all_cmp (m ++ d) -> Permutation (fold_left step d m) (m ++ d).
  Proof.
    induction d as [|[k v] d IH]; intros m A; cbn [fold_left].
    - rewrite app_nil_r. apply Permutation_refl.
    - assert (PI : Permutation ((k, v) :: m) (pmap_insert k v m)).
      { apply ins_perm. intros p Hp. destruct A as [ND H].
        destruct (H p (k, v)) as [E|C].
        - apply in_or_app. left. exact Hp.
        - apply in_or_app. right. left. reflexivity.
        - exfalso. subst p. apply NoDup_remove_2 in ND. apply ND. apply in_or_app. left. exact Hp.
        - exact C. }
      assert (PA : Permutation (m ++ (k, v) :: d) (pmap_insert k v m ++ d)).
      { eapply Permutation_trans; [apply Permutation_sym; apply Permutation_middle|].
        change ((k, v) :: m ++ d) with (((k, v) :: m) ++ d). apply Permutation_app_tail. exact PI. }
      eapply Permutation_trans; [apply IH; eapply all_cmp_perm; eassumption|].
      apply Permutation_sym. exact PA.
  Qed.

  Lemma sorted_perm_unique : forall l1 l2, keysP l1 ->
    StronglySorted R l1 -> StronglySorted R l2 -> Permutation l1 l2 -> l1 = l2.
  Proof.
    induction l1 as [|a l1 IH]; intros l2 K S1 S2 PM.
    - apply Permutation_nil in PM. subst. reflexivity.
    - destruct l2 as [|c l2]; [apply Permutation_sym in PM; apply Permutation_nil in PM; discriminate|].
      inversion S1 as [|? ? S1t H1]; subst. inversion S2 as [|? ? S2t H2]; subst.
      assert (Hac : a = c).
      { assert (Ia : In a (c :: l2)) by (eapply Permutation_in; [exact PM|left; reflexivity]).
        assert (Ic : In c (a :: l1))
          by (eapply Permutation_in; [apply Permutation_sym; exact PM|left; reflexivity]).
        destruct Ia as [E|Ia]; [symmetry; exact E|].
        destruct Ic as [E|Ic]; [exact E|].
        exfalso. eapply Forall_forall in H2; [|exact Ia]. eapply Forall_forall in H1; [|exact Ic].
        unfold R in *. apply (lt_asym (fst a) (fst c)); try assumption.
        - apply K. left. reflexivity.
        - apply K. right. exact Ic. }
      subst c. f_equal. apply IH; try assumption.
      + intros q Hq. apply K. right. exact Hq.
      + eapply Permutation_cons_inv. exact PM.
  Qed.

  Theorem pmap_of_perm : forall d d',
    Permutation d d' -> keysP d -> all_cmp d -> pmap_of d = pmap_of d'.
  Proof.
    intros d d' PM K A. unfold pmap_of.
    assert (K' : keysP d') by (intros p Hp; apply K; eapply Permutation_in;
                               [apply Permutation_sym; exact PM|exact Hp]).
    assert (A' : all_cmp d') by (eapply all_cmp_perm; eassumption).
    assert (Knil : keysP []) by (intros p []).
    destruct (fold_sorted d [] K Knil (SSorted_nil R)) as [S1 K1].
    destruct (fold_sorted d' [] K' Knil (SSorted_nil R)) as [S2 _].
    apply sorted_perm_unique; try assumption.
    eapply Permutation_trans; [apply (fold_perm d []); exact A|].
    eapply Permutation_trans; [exact PM|]. apply Permutation_sym. apply (fold_perm d' []). exact A'.
  Qed.
End Order.

(* the size (fuel) of a sum does not depend on the order of its dictionary *)
Lemma add_size_perm : forall c d d', Permutation d d' -> size (EAdd c d) = size (EAdd c d').
Proof.
  intros c d d' PM. cbn [size]. f_equal.
  induction PM; cbn [fold_right]; lia.
Qed.

(* the order hypotheses on the keys of a dictionary *)
Definition printer_order_ok (d : list (expr * number)) : Prop :=
  NoDup d /\
  (forall x y z, In x (map fst d) -> In y (map fst d) -> In z (map fst d) ->
     printer_lt x y = true -> printer_lt y z = true -> printer_lt x z = true) /\
  (forall x y, In x (map fst d) -> In y (map fst d) ->
     printer_lt x y = true -> printer_lt y x = true -> False) /\
  (forall p q, In p d -> In q d ->
     p = q \/ printer_lt (fst p) (fst q) = true \/ printer_lt (fst q) (fst p) = true).

(* C16 print_respects_eq, the part that concerns the hash-ordered container: every permutation of
   the dictionary of a sum prints the same string *)
Theorem print_add_perm : forall c d d',
  Permutation d d' -> printer_order_ok d -> print (EAdd c d) = print (EAdd c d').
Proof.
  intros c d d' PM [ND [Ht [Ha Hc]]].
  unfold print. rewrite <- (add_size_perm c d d' PM).
  cbn [size]. cbn [pr_fuel print_node]. unfold print_add.
  rewrite (pmap_of_perm (fun k => In k (map fst d)) Ht Ha d d' PM).
  - reflexivity.
  - intros p Hp. apply in_map. exact Hp.
  - split; [exact ND|]. intros p q Hp Hq. destruct (Hc p q Hp Hq) as [E|[L|L]].
    + left. exact E.
    + right. left. exact L.
    + right. right. exact L.
Qed.

(* ---------------------------------------------------------------- signed zero *)
(* C16 print_respects_eq is refuted as stated for ALL expressions: 0.0 and -0.0 are eq
   (RealDouble::__eq__ compares with ==) but print differently *)
Theorem print_respects_eq_refuted :
  exists a c : expr, expr_eqb a c = true /\ print a <> print c.
Proof.
  exists (ENum (NDbl 0)), (ENum (NDbl 9223372036854775808)).
  split; [vm_compute; reflexivity|]. vm_compute. discriminate.
Qed.
