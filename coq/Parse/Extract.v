(* Extraction of the parser / printer models (run from the output directory; not part of `make`). *)
From SE Require Import Expr.IO Parse.ParseModel Parse.PrintModel.
Require Import ExtrOcamlBasic.
Extraction "semodel.ml" SE.Expr.IO.N_of_digits SE.Expr.IO.Z_of_digits SE.Expr.IO.digits_of_N tc_lookup
  expr_eqb expr_cmp
  lex convert_xor parse_tokens parse_syntax denote parser_parse run_history fresh_parser parse_ref
  parse_numeric ff_prefix print printable print_double.
