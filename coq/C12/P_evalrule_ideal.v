(* C12 obligation: for EVERY node class with a mathematical specification (EvalSpec.spec_table:
   35 classes of eval_double, 39 with the lambda-only ones), the formula generated from
   eval_double.cpp -- by the visitor AND by the single-dispatch table -- interpreted with ideal
   real functions is the mathematical function of the class on its domain: direct functions equal
   their defining expression (cot = cos/sin, sech = 1/cosh, ...), inverse functions satisfy their
   characterisation (acsc x = y with -pi/2 <= y <= pi/2, 1/sin y = x; acoth, asech, acot, log, ...);
   Pow: the E case is exp, the general case the real power and E**x = exp x; the closed formulas of
   the constants pi and E denote PI and exp 1.  For any interpretation of Gamma/lgamma/erf/erfc. *)
From Coq Require Import Reals.
From SE Require Import Gen.TypeCodes Eval.EvalModel Eval.EvalIdeal Eval.EvalSpec Eval.TableProofs Eval.Gen_EvalRules.
Theorem C12_evalrule_ideal :
  forall (gamma_R lgamma_R erf_R erfc_R : R -> R) (lit_other : lit -> R),
    table_ideal gamma_R lgamma_R erf_R erfc_R lit_other visitor_rules /\
    table_ideal gamma_R lgamma_R erf_R erfc_R lit_other dispatch_rules /\
    pow_meets gamma_R lgamma_R erf_R erfc_R lit_other (lookup_rule visitor_rules TC_Pow) /\
    pow_meets gamma_R lgamma_R erf_R erfc_R lit_other (lookup_rule dispatch_rules TC_Pow) /\
    const_meets gamma_R lgamma_R erf_R erfc_R lit_other (lookup_rule visitor_rules TC_Constant) /\
    const_meets gamma_R lgamma_R erf_R erfc_R lit_other (lookup_rule dispatch_rules TC_Constant).
Proof. exact evalrule_ideal. Qed.
Print Assumptions C12_evalrule_ideal.
