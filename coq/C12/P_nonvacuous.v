(* C12: the hypotheses of the theorems are met by concrete inputs, evaluated by the kernel in the
   Flocq binary64 instance: the tree 1/10 + 2*|-3| + max(7, 2, 7) visits only single-dispatch
   classes, both evaluators return 0x402a333333333333 = 13.1 (with the TRUNCATED 1/10 of mpq_get_d),
   and the instance's max/min are idempotent. *)
From Coq Require Import List NArith.
From SE Require Import Eval.EvalModel Eval.EvalFloat Eval.AgreeProofs Eval.Witnesses Eval.Gen_EvalRules.
Import ListNotations.
Local Open Scope N_scope.
Example C12_example_codes : CodesIn dispatch_codes (eval_fuel ex12) ex12.
Proof. exact ex12_codes. Qed.
Example C12_example_value :
  eval nb_arith (eval_fuel ex12) visitor_rules visitor_rules [] [] [] ex12 = Ok 4623564262444577587
  /\ eval nb_arith (eval_fuel ex12) visitor_rules dispatch_rules [] [] [] ex12 = Ok 4623564262444577587.
Proof. exact ex12_value. Qed.
Example C12_example_idempotent :
  forall un bin a, f_bin (b64_alg un bin) BMax a a = Some a /\ f_bin (b64_alg un bin) BMin a a = Some a.
Proof. intros. split; [ apply b64_max_idem | apply b64_min_idem ]. Qed.
Print Assumptions C12_example_value.
