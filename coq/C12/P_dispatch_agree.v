(* C12 obligation (tables): every class the single-dispatch table of eval_double.cpp has is evaluated
   by the same rule as in the visitor (Max/Min: same fold, the first argument visited twice); the
   classes it has / lacks are exactly the listed ones. *)
From Coq Require Import List Bool NArith.
From SE Require Import Gen.TypeCodes Eval.EvalModel Eval.TableProofs Eval.Gen_EvalRules.
Import ListNotations.
Theorem C12_dispatch_agree :
  forallb (fun c => is_throw (rule_at dispatch_rules c) || rule_agree (rule_at visitor_rules c) (rule_at dispatch_rules c))
          all_codes = true
  /\ filter (fun c => is_throw (rule_at dispatch_rules c) && negb (is_throw (rule_at visitor_rules c))) all_codes
     = [TC_NumberWrapper; TC_FunctionWrapper; TC_Piecewise; TC_BooleanAtom; TC_UnevaluatedExpr].
Proof. exact dispatch_agree_tables. Qed.
Print Assumptions C12_dispatch_agree.
