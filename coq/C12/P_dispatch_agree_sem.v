(* C12 obligation: the single-dispatch and the visitor evaluator AGREE: in every float algebra whose
   max and min are idempotent (the Flocq binary64 instance and the reals are), on every tree all of
   whose visited nodes (get_args() of Add/Mul included) belong to the 44 classes of the single-dispatch
   table, eval_double_single_dispatch and eval_double compute the same result, errors included. *)
From Coq Require Import List NArith.
From SE Require Import Eval.EvalModel Eval.EvalProofs Eval.AgreeProofs Eval.Gen_EvalRules.
Import ListNotations.
Theorem C12_dispatch_agree_sem :
  forall (F : Type) (A : falg F),
    (forall a, f_bin A BMax a a = Some a) -> (forall a, f_bin A BMin a a = Some a) ->
    forall fu e, CodesIn dispatch_codes fu e ->
    eval A fu visitor_rules visitor_rules [] [] [] e = eval A fu visitor_rules dispatch_rules [] [] [] e.
Proof. intros F A. exact (dispatch_agree_sem A). Qed.
Print Assumptions C12_dispatch_agree_sem.
