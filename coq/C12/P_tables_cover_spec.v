(* C12 obligation: the specification table is not vacuous: each of the 35 classes of eval_classes
   has a FORMULA rule in the visitor table, in the single-dispatch table and in the lambda table
   (so C12_evalrule_ideal constrains all of them), and the 4 lambda-only classes in the lambda table. *)
From Coq Require Import List Bool NArith.
From SE Require Import Eval.EvalModel Eval.TableProofs Eval.Gen_EvalRules Eval.Gen_LambdaRules.
Theorem C12_tables_cover_spec :
  forallb (fun c => is_formula (lookup_rule visitor_rules c) && is_formula (lookup_rule dispatch_rules c)
                    && is_formula (lookup_rule lambda_rules c)) eval_classes = true
  /\ forallb (fun c => is_formula (lookup_rule lambda_rules c)) lambda_only_classes = true
  /\ (length eval_classes + length lambda_only_classes = 39)%nat.
Proof. exact tables_cover_spec. Qed.
Print Assumptions C12_tables_cover_spec.
