(* C03 obligation: mul(a, b) on the power-product fragment ([mul_operand_ok]: exact numbers, atoms, rational
   powers of atoms, products of those) returns -- for every fuel that suffices, and fuel 2 suffices -- a value
   that is canonical, well formed and again a legal operand. *)
From SE Require Import Expr.ArithMulProofs.
Theorem C03_mul_canonical :
  (forall fuel a b r, mul_operand_ok a = true -> mul_operand_ok b = true -> e_mul fuel a b = Ok r ->
     mul_operand_ok r = true /\ canonical r = true /\ wf r = true) /\
  (forall f a b, mul_operand_ok a = true -> mul_operand_ok b = true ->
     exists r, e_mul (S (S f)) a b = Ok r /\ mul_operand_ok r = true /\ canonical r = true /\ wf r = true).
Proof. split; [exact mul_canonical | exact mul_total_closed]. Qed.
Print Assumptions C03_mul_canonical.
