(* Extraction of the arithmetic model (C03, C04, C07) together with the expression core. *)
From SE Require Import Expr.IO Expr.ArithGuards.
Require Import ExtrOcamlBasic.
Extraction "semodel.ml" N_of_digits Z_of_digits digits_of_N tc_lookup tc_table wf
  hash expr_eqb expr_cmp expr_keyless api_run canonical canonical_witness node_rule add_operand_ok mul_operand_ok mul_operand_sorted.
