(* C03 obligation: every value produced by a PROGRAM of API calls (add, n-ary add, mul, neg; operands = earlier
   results) is canonical and well formed, as long as each call's operands lie in the fragment of the theorem
   covering that call (the guard is evaluated by [run] before the call; programs of any length).
   PARTIAL with respect to the design's `api_reachable_canonical`: the guards are checked dynamically (the
   add- and mul-fragments are not closed under each other: a product with a sum as a factor is not a legal
   add-term -- DESIGN row 42), and pow / div / expand / subs are not covered. *)
From SE Require Import Expr.ArithProg.
Theorem C03_api_guarded_reachable_canonical :
  forall (fuel : nat) (prog : list instr) (env env' : list expr),
    Forall (fun e => canonical e = true /\ wf e = true) env ->
    run fuel prog env = Some env' ->
    Forall (fun e => canonical e = true /\ wf e = true) env'.
Proof. exact api_guarded_reachable_canonical. Qed.
Print Assumptions C03_api_guarded_reachable_canonical.
