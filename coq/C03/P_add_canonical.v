(* C03 obligation: add(a, b) on operands of the exact fragment ([add_operand_ok]: linear forms with exact
   coefficients over canonical non-Add terms) always returns a value (no exception, no fuel), and that value
   is canonical (every node satisfies Add/Mul/Pow::is_canonical and the number invariants), well formed,
   and again a legal operand (so the statement iterates over any sequence of add calls). *)
From SE Require Import Expr.ArithAddProofs.
Theorem C03_add_canonical :
  forall a b : expr, add_operand_ok a = true -> add_operand_ok b = true ->
  exists r, e_add a b = Ok r /\ canonical r = true /\ wf r = true /\ add_operand_ok r = true.
Proof.
  intros a b Ha Hb. destruct (add_total_closed a b Ha Hb) as (r & E & C).
  exists r. destruct (add_canonical a b r Ha Hb E). auto.
Qed.
Print Assumptions C03_add_canonical.
