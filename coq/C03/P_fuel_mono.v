(* C03/C04/C07 obligation: the result of every API call of the model (a value or an exception) does not
   depend on the fuel once the fuel suffices -- for ALL inputs, modelled fragment or not. *)
From SE Require Import Expr.ArithFuelMono.
Theorem C03_fuel_mono :
  forall (f f' : nat) (op : apiop) (args : list expr) (r : res expr),
    (f <= f')%nat -> api f op args = r -> r <> ErrFuel -> api f' op args = r.
Proof.
  intros f f' op args r L E NF. destruct (api_fuel_mono f f' op args L) as [Q|Q]; congruence.
Qed.
Print Assumptions C03_fuel_mono.
