(* C03 refutations (model-level witnesses, each replayed on the library by checks/C03.py):
   canonical operands whose product / sum / power is NOT canonical. *)
From SE Require Import Expr.Canon.
Local Open Scope Z_scope.
Definition sx := ESym [120%N].
(* (x**2)**(1/2) * (x * (x**2)**(1/2))  =  Mul{x:1, x**2:1}   (DESIGN row 36) *)
Theorem C03_mul_pow_key_refuted :
  exists a b r, canonical a = true /\ canonical b = true /\ api_run OMul [a; b] = Ok r /\ canonical r = false.
Proof.
  exists (EPow (EPow sx (e_int 2)) e_half),
         (EMul (NInt 1) [(sx, e_int 1); (EPow sx (e_int 2), e_half)]).
  eexists. vm_compute. repeat split; reflexivity.
Qed.
(* 0**x + 0**x = Mul(2, {0: x}): Pow::is_canonical accepts 0**x, Mul::is_canonical rejects the key 0 *)
Theorem C03_zero_key_refuted :
  exists a r, canonical a = true /\ api_run OAdd [a; a] = Ok r /\ canonical r = false.
Proof. exists (EPow (e_int 0) sx). eexists. vm_compute. repeat split; reflexivity. Qed.
(* pow(0, I) = Pow(0, I) *)
Theorem C03_pow_zero_complex_refuted :
  exists r, api_run OPow [e_int 0; ENum I_unit] = Ok r /\ canonical r = false.
Proof. eexists. vm_compute. split; reflexivity. Qed.
(* (I*sqrt(2))**(2/3) * z keeps a Mul key with a Complex coefficient *)
Theorem C03_complex_coef_key_refuted :
  exists a r, canonical a = true /\ api_run OPow [a; ENum (NRat 2 3)] = Ok r /\ canonical r = true /\
    exists r2, api_run OMul [ESym [122%N]; r] = Ok r2 /\ canonical r2 = false.
Proof.
  exists (EMul I_unit [(e_int 2, e_half)]). eexists. vm_compute. repeat split; try reflexivity.
  eexists. split; reflexivity.
Qed.
