(* C03 refutations (model-level witnesses, each replayed on the library by checks/C03.py):
   canonical operands whose product / sum / power is NOT canonical.
   [bad_result r] = the call returned a value and that value is not canonical. *)
From SE Require Import Expr.Canon.
Local Open Scope Z_scope.
Definition bad_result (r : res expr) : bool := match r with Ok e => negb (canonical e) | _ => false end.
Definition sx := ESym [120%N].
(* 0**x + 0**x = Mul(2, {0: x}): Pow::is_canonical accepts 0**x, Mul::is_canonical rejects the key 0 *)
Theorem C03_zero_key_refuted :
  exists a, canonical a = true /\ bad_result (api_run OAdd [a; a]) = true.
Proof. exists (EPow (e_int 0) sx). vm_compute. repeat split; reflexivity. Qed.
(* pow(0, I) = Pow(0, I) *)
Theorem C03_pow_zero_complex_refuted : bad_result (api_run OPow [e_int 0; ENum I_unit]) = true.
Proof. vm_compute. reflexivity. Qed.
(* z * (I*sqrt(2))**(2/3) keeps a Mul key with a Complex coefficient and a numeric exponent *)
Theorem C03_complex_coef_key_refuted :
  exists a, canonical a = true /\
    bad_result (match api_run OPow [a; ENum (NRat 2 3)] with Ok p => api_run OMul [ESym [122%N]; p] | e => e end) = true.
Proof. exists (EMul I_unit [(e_int 2, e_half)]). vm_compute. repeat split; reflexivity. Qed.
