(* C03 obligation: pow(a, n) for an Integer n on the power-product fragment -- numbers (exponent in GMP's range,
   0 not raised to a negative power), atoms, integer / rational powers of atoms (nested-power folding
   (b**q)**n = b**(q*n)) and products (Mul::power_num distributes the exponent) -- returns, for every sufficient
   fuel (4 suffices), a value that is canonical, well formed and again in the fragment. *)
From SE Require Import Expr.ArithPowProofs.
Theorem C03_pow_canonical :
  (forall fuel a n r, pow_operand_ok a n = true -> e_pow fuel a (ENum (NInt n)) = Ok r ->
     mul_operand_ok r = true /\ canonical r = true /\ wf r = true) /\
  (forall f a n, pow_operand_ok a n = true ->
     exists r, e_pow (S (S (S (S f)))) a (ENum (NInt n)) = Ok r /\
       mul_operand_ok r = true /\ canonical r = true /\ wf r = true).
Proof. split; [exact pow_int_canonical | exact pow_int_total_closed]. Qed.
Print Assumptions C03_pow_canonical.
