(* C03 obligation: div(a, b) = mul(a, pow(b, -1)) and neg(a) = mul(-1, a) on the power-product fragment return
   canonical, well-formed values of the fragment.  (sub(a, b) = add(a, mul(-1, b)) is covered by C03_add_canonical
   and C03_mul_canonical whenever mul(-1, b) is a legal add operand; not stated separately.) *)
From SE Require Import Expr.ArithPowProofs.
Theorem C03_div_neg_canonical :
  (forall fuel a b r, mul_operand_ok a = true -> pow_operand_ok b (-1) = true -> e_div fuel a b = Ok r ->
     mul_operand_ok r = true /\ canonical r = true /\ wf r = true) /\
  (forall fuel a r, mul_operand_ok a = true -> e_neg fuel a = Ok r ->
     mul_operand_ok r = true /\ canonical r = true /\ wf r = true).
Proof.
  split; [exact div_canonical|]. intros fuel a r Ha E. unfold e_neg in E.
  exact (mul_canonical fuel e_minus_one a r eq_refl Ha E).
Qed.
Print Assumptions C03_div_neg_canonical.
