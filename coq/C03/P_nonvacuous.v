(* C03: the hypotheses of the theorems are satisfiable by non-trivial inputs, and a non-trivial guarded
   program runs to completion. *)
From SE Require Import Expr.ArithProg Expr.ArithPowProofs.
Local Open Scope Z_scope.
Definition vx := ESym [120%N]. Definition vy := ESym [121%N].
Definition sinx := EF1 TC_Sin vx.
(* 3/2 + 2*x - y**(1/2)*sin(x)   and   1/2*I*x*y**(-2) *)
Definition ex_sum := EAdd (NRat 3 2) [(vx, NInt 2); (EMul (NInt 1) [(vy, e_half); (sinx, e_int 1)], NInt (-1))].
Definition ex_prod := EMul (NCplx 0 1 1 2) [(vx, e_int 1); (vy, e_int (-2))].
Example C03_guards_hold :
  add_operand_ok ex_sum = true /\ add_operand_ok (EPow vy e_half) = true /\ add_operand_ok ex_prod = true /\
  mul_operand_ok ex_prod = true /\ mul_operand_ok (EPow vy e_half) = true /\ mul_operand_ok ex_sum = true /\
  canonical ex_sum = true /\ canonical ex_prod = true.
Proof. vm_compute. repeat split; reflexivity. Qed.
(* r2 = x + ex_sum; r3 = ex_prod * y**(1/2); r4 = -r3; r5 = addv(r2, x, r2) *)
Example C03_program_runs :
  match run 10 [ICall OAdd [0; 1]; ICall OMul [2; 3]; ICall ONeg [5]; ICall OAddV [4; 0; 4]]%nat
            [vx; ex_sum; ex_prod; EPow vy e_half] with
  | Some env => (length env =? 8)%nat && forallb canonical env
  | None => false
  end = true.
Proof. vm_compute. reflexivity. Qed.
(* pow / div: (1/2*I*x*y**-2)**-3 and ex_sum / ex_prod return canonical values *)
Example C03_pow_div_guards_hold :
  pow_operand_ok ex_prod (-3) = true /\ pow_operand_ok ex_prod (-1) = true /\ pow_operand_ok (EPow vy e_half) 4 = true /\
  match e_pow 6 ex_prod (ENum (NInt (-3))), e_div 6 ex_sum ex_prod with
  | Ok p, Ok q => canonical p && canonical q && negb (expr_eqb p q)
  | _, _ => false
  end = true.
Proof. vm_compute. repeat split; reflexivity. Qed.
