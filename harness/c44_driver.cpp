// C44 driver: alternative printers (MathML, LaTeX, Unicode/StringBox, Julia, SBML).
//
// Input line:  a recipe (harness/recipe.h) with the local ops
//     (Subs a k v ...) (imageset sym expr base) (condset sym cond) (uneval a) (primepi a)
//     (primorial a) (hexs <hex>) = Symbol with the given name bytes  (hexfs <hex> a...) = FunctionSymbol
//   or  "BOX <script>"  : a history of StringBox operations (see run_box)
// Output line: <dump of e> \t=>\t M=<r> \t L=<r> \t U=<r> \t J=<r> \t S=<r> \t R=<0|1|-> [\t#ORACLE:<class>:<text>]...
//   <r> = hex of the printer's output bytes, or EXN:<k> (harness/common.h numbering), or FALLBACK
//         (text of StrPrinter::bvisit(const Basic &): contains an address)
//   R   = 1 when parse_sbml(sbml(e)) is eq to e, 0 when not, - when sbml threw
// Property oracles evaluated on the library's own output (independent of the model):
//   mathml-malformed     the MathML text is not a well-formed XML document
//   latex-unbalanced     braces / \left..\right of the LaTeX text do not nest
//   latex-bad-delimiter  \left or \right is not followed by a delimiter
//   unicode-not-rect     the lines of the Unicode rendering differ in display width (code points)
//   unicode-width-field  StringBox::width_ differs from the display width of its lines
//   crash / hang         reported by the check from CRASH:/HANG
#include <symengine/basic.h>
#include <symengine/add.h>
#include <symengine/mul.h>
#include <symengine/pow.h>
#include <symengine/functions.h>
#include <symengine/logic.h>
#include <symengine/sets.h>
#include <symengine/constants.h>
#include <symengine/complex.h>
#include <symengine/complex_double.h>
#include <symengine/real_double.h>
#include <symengine/infinity.h>
#include <symengine/nan.h>
#include <symengine/derivative.h>
#include <symengine/printers.h>
#define private public
#define protected public
#include <symengine/printers/stringbox.h>
#include <symengine/printers/unicode.h>
#undef private
#undef protected
#include <symengine/parser.h>
#include <symengine/parser/sbml/sbml_parser.h>
#include <symengine/visitor.h>
#include <symengine/symengine_exception.h>
#include "common.h"
#include "dump.h"
#include "recipe.h"
using namespace SymEngine;

// ---------------------------------------------------------------- dump with the two set binders
static std::string dump44(const Basic &b);
static std::string dump44_args(const vec_basic &v)
{
    std::string s;
    for (const auto &a : v)
        s += " " + dump44(*a);
    return s;
}
static std::string dump44(const Basic &b)
{
    std::ostringstream o;
    const std::string name = type_code_name(b.get_type_code());
    if (is_a_Number(b)) {
        return verif::dump_num(down_cast<const Number &>(b));
    } else if (is_a<Dummy>(b) or is_a<Symbol>(b) or is_a<Constant>(b) or is_a<BooleanAtom>(b)) {
        return verif::dump(b);
    } else if (is_a<Add>(b)) {
        const Add &a = down_cast<const Add &>(b);
        o << "(Add " << verif::dump_num(*a.get_coef());
        for (const auto &p : a.get_dict())
            o << " (" << dump44(*p.first) << " " << verif::dump_num(*p.second) << ")";
        o << ")";
    } else if (is_a<Mul>(b)) {
        const Mul &a = down_cast<const Mul &>(b);
        o << "(Mul " << verif::dump_num(*a.get_coef());
        for (const auto &p : a.get_dict())
            o << " (" << dump44(*p.first) << " " << dump44(*p.second) << ")";
        o << ")";
    } else if (is_a<Pow>(b)) {
        const Pow &p = down_cast<const Pow &>(b);
        o << "(Pow " << dump44(*p.get_base()) << " " << dump44(*p.get_exp()) << ")";
    } else if (is_a<FunctionSymbol>(b)) {
        const FunctionSymbol &f = down_cast<const FunctionSymbol &>(b);
        o << "(FunSym " << verif::hexbytes(f.get_name()) << dump44_args(f.get_vec()) << ")";
    } else if (is_a<Derivative>(b)) {
        const Derivative &d = down_cast<const Derivative &>(b);
        o << "(Deriv " << dump44(*d.get_arg());
        for (const auto &x : d.get_symbols())
            o << " " << dump44(*x);
        o << ")";
    } else if (is_a<Subs>(b)) {
        const Subs &s = down_cast<const Subs &>(b);
        o << "(Subs " << dump44(*s.get_arg());
        for (const auto &p : s.get_dict())
            o << " (" << dump44(*p.first) << " " << dump44(*p.second) << ")";
        o << ")";
    } else if (is_a<Piecewise>(b)) {
        const Piecewise &p = down_cast<const Piecewise &>(b);
        o << "(Pw";
        for (const auto &q : p.get_vec())
            o << " (" << dump44(*q.first) << " " << dump44(*q.second) << ")";
        o << ")";
    } else if (is_a<Interval>(b)) {
        const Interval &i = down_cast<const Interval &>(b);
        o << "(Interval " << dump44(*i.get_start()) << " " << dump44(*i.get_end()) << " "
          << (i.get_left_open() ? 1 : 0) << " " << (i.get_right_open() ? 1 : 0) << ")";
    } else if (is_a<Contains>(b) or is_a<Complement>(b)) {
        o << "(Lex " << name << dump44_args(b.get_args()) << ")";
    } else if (is_a<Not>(b)) {
        o << "(F1 " << name << dump44_args(b.get_args()) << ")";
    } else if (dynamic_cast<const OneArgFunction *>(&b) != nullptr) {
        o << "(F1 " << name << " " << dump44(*down_cast<const OneArgFunction &>(b).get_arg()) << ")";
    } else if (dynamic_cast<const TwoArgFunction *>(&b) != nullptr
               or dynamic_cast<const Relational *>(&b) != nullptr) {
        o << "(F2 " << name << dump44_args(b.get_args()) << ")";
    } else if (dynamic_cast<const MultiArgFunction *>(&b) != nullptr or is_a<And>(b) or is_a<Or>(b)
               or is_a<Xor>(b) or is_a<FiniteSet>(b) or is_a<Union>(b) or is_a<Intersection>(b)
               or is_a<ImageSet>(b) or is_a<ConditionSet>(b)) {
        o << "(FN " << name << dump44_args(b.get_args()) << ")";
    } else if (is_a<Reals>(b) or is_a<Rationals>(b) or is_a<Integers>(b) or is_a<Naturals>(b)
               or is_a<Naturals0>(b) or is_a<Complexes>(b) or is_a<EmptySet>(b)
               or is_a<UniversalSet>(b)) {
        o << "(Atom " << name << ")";
    } else {
        o << "(Opaque " << name << ")";
    }
    return o.str();
}

// ---------------------------------------------------------------- recipes with local ops
static std::string unhex(const std::string &h)
{
    std::string s;
    for (size_t i = 0; i + 1 < h.size(); i += 2)
        s += (char)std::stoi(h.substr(i, 2), nullptr, 16);
    return s;
}
static bool is_local_op(const std::string &op)
{
    return op == "Subs" or op == "imageset" or op == "condset" or op == "uneval" or op == "primepi"
           or op == "primorial" or op == "hexs" or op == "hexfs";
}
static bool has_local_op(const verif::Sexp &e)
{
    if (e.is_atom)
        return false;
    if (!e.kids.empty() && e.kids[0].is_atom && is_local_op(e.kids[0].atom))
        return true;
    for (const auto &k : e.kids)
        if (has_local_op(k))
            return true;
    return false;
}
static RCP<const Basic> eval44(const verif::Sexp &e)
{
    if (!has_local_op(e))
        return verif::eval_recipe(e);
    const std::string &op = e.kids.at(0).atom;
    auto arg = [&](size_t i) { return eval44(e.kids.at(i)); };
    auto args = [&](size_t from) {
        vec_basic v;
        for (size_t i = from; i < e.kids.size(); i++)
            v.push_back(eval44(e.kids[i]));
        return v;
    };
    if (op == "Subs") {
        map_basic_basic m;
        for (size_t i = 2; i + 1 < e.kids.size(); i += 2)
            m[arg(i)] = arg(i + 1);
        return Subs::create(arg(1), m);
    }
    if (op == "imageset") return imageset(arg(1), arg(2), verif::as_set(arg(3)));
    if (op == "condset") return conditionset(arg(1), verif::as_bool(arg(2)));
    if (op == "uneval") return unevaluated_expr(arg(1));
    if (op == "primepi") return primepi(arg(1));
    if (op == "primorial") return primorial(arg(1));
    if (op == "hexs") return symbol(unhex(e.kids.at(1).atom));
    if (op == "hexfs") return function_symbol(unhex(e.kids.at(1).atom), args(2));
    if (op == "add") return add(arg(1), arg(2));
    if (op == "sub") return sub(arg(1), arg(2));
    if (op == "mul") return mul(arg(1), arg(2));
    if (op == "div") return div(arg(1), arg(2));
    if (op == "pow") return pow(arg(1), arg(2));
    if (op == "neg") return neg(arg(1));
    if (op == "addv") return add(args(1));
    if (op == "mulv") return mul(args(1));
    if (op == "sqrt") return sqrt(arg(1));
    if (op == "exp") return exp(arg(1));
    if (op == "f1") {
        auto it = verif::f1_table().find(e.kids.at(1).atom);
        if (it == verif::f1_table().end())
            throw std::runtime_error("recipe: unknown f1");
        return it->second(arg(2));
    }
    if (op == "fs") return function_symbol(e.kids.at(1).atom, args(2));
    if (op == "f2") {
        auto it = verif::f2_table().find(e.kids.at(1).atom);
        if (it == verif::f2_table().end())
            throw std::runtime_error("recipe: unknown f2");
        return it->second(arg(2), arg(3));
    }
    if (op == "max") return max(args(1));
    if (op == "min") return min(args(1));
    if (op == "levi") return levi_civita(args(1));
    if (op == "ne") return Ne(arg(1), arg(2));
    if (op == "gt") return Gt(arg(1), arg(2));
    if (op == "ge") return Ge(arg(1), arg(2));
    if (op == "eq") return Eq(arg(1), arg(2));
    if (op == "lt") return Lt(arg(1), arg(2));
    if (op == "le") return Le(arg(1), arg(2));
    if (op == "contains") return contains(arg(1), verif::as_set(arg(2)));
    if (op == "and" or op == "or") {
        set_boolean s;
        for (auto &x : args(1))
            s.insert(verif::as_bool(x));
        return op == "and" ? logical_and(s) : logical_or(s);
    }
    if (op == "xor") {
        vec_boolean s;
        for (auto &x : args(1))
            s.push_back(verif::as_bool(x));
        return logical_xor(s);
    }
    if (op == "not") return logical_not(verif::as_bool(arg(1)));
    if (op == "pw") {
        PiecewiseVec v;
        for (size_t i = 1; i + 1 < e.kids.size(); i += 2)
            v.push_back({arg(i), verif::as_bool(arg(i + 1))});
        return piecewise(std::move(v));
    }
    if (op == "interval")
        return interval(verif::as_num(arg(1)), verif::as_num(arg(2)), e.kids.at(3).atom == "1",
                        e.kids.at(4).atom == "1");
    if (op == "fset") {
        set_basic s;
        for (auto &x : args(1))
            s.insert(x);
        return finiteset(s);
    }
    if (op == "union" or op == "isect") {
        set_set s;
        for (auto &x : args(1))
            s.insert(verif::as_set(x));
        return op == "union" ? set_union(s) : set_intersection(s);
    }
    if (op == "compl") return set_complement(verif::as_set(arg(1)), verif::as_set(arg(2)));
    if (op == "deriv") {
        multiset_basic xs;
        for (size_t i = 2; i < e.kids.size(); i++)
            xs.insert(arg(i));
        return Derivative::create(arg(1), xs);
    }
    if (op == "diff") {
        RCP<const Basic> x = arg(2);
        if (!is_a_sub<Symbol>(*x))
            throw std::runtime_error("recipe: diff wrt non-symbol");
        return arg(1)->diff(rcp_static_cast<const Symbol>(x));
    }
    if (op == "subs") {
        map_basic_basic m;
        for (size_t i = 2; i + 1 < e.kids.size(); i += 2)
            m[arg(i)] = arg(i + 1);
        return arg(1)->subs(m);
    }
    throw std::runtime_error("recipe: op " + op + " above a local op is not supported");
}

// ---------------------------------------------------------------- helpers
static std::string hexof(const std::string &s)
{
    static const char *d = "0123456789abcdef";
    std::string o;
    o.reserve(2 * s.size());
    for (unsigned char c : s) {
        o += d[c >> 4];
        o += d[c & 15];
    }
    return o;
}
static bool is_fallback(const std::string &s)
{
    return s.find(" instance at 0x") != std::string::npos;
}
static std::string brief(const std::string &s)
{
    std::string t = s.size() > 160 ? s.substr(0, 160) + "..." : s;
    for (auto &c : t)
        if (c == '\n' or c == '\t')
            c = ' ';
    return t;
}

// ---------------------------------------------------------------- oracle: XML well-formedness
// One root element; tags nest; names are XML names; attributes are name="value"; character
// data contains neither '<' nor a bare '&'.  Returns "" or the reason.
static bool xml_name_start(unsigned char c)
{
    return isalpha(c) or c == '_' or c == ':' or c >= 0x80;
}
static bool xml_name_char(unsigned char c)
{
    return xml_name_start(c) or isdigit(c) or c == '-' or c == '.';
}
static std::string xml_check(const std::string &s)
{
    std::vector<std::string> stack;
    size_t i = 0, n = s.size();
    int roots = 0;
    while (i < n) {
        if (s[i] == '<') {
            size_t j = i + 1;
            bool closing = false;
            if (j < n and s[j] == '/') {
                closing = true;
                j++;
            }
            size_t st = j;
            if (j >= n or !xml_name_start((unsigned char)s[j]))
                return "tag without a name at offset " + std::to_string(i);
            while (j < n and xml_name_char((unsigned char)s[j]))
                j++;
            std::string name = s.substr(st, j - st);
            bool selfclose = false;
            if (closing) {
                while (j < n and s[j] == ' ')
                    j++;
                if (j >= n or s[j] != '>')
                    return "malformed closing tag </" + name;
                if (stack.empty() or stack.back() != name)
                    return "closing tag </" + name + "> does not match "
                           + (stack.empty() ? std::string("(nothing open)") : "<" + stack.back() + ">");
                stack.pop_back();
                i = j + 1;
                continue;
            }
            // attributes
            while (true) {
                size_t k = j;
                while (k < n and s[k] == ' ')
                    k++;
                if (k < n and s[k] == '>') {
                    j = k;
                    break;
                }
                if (k + 1 < n and s[k] == '/' and s[k + 1] == '>') {
                    selfclose = true;
                    j = k + 1;
                    break;
                }
                if (k == j)
                    return "junk in tag <" + name;
                if (k >= n or !xml_name_start((unsigned char)s[k]))
                    return "bad attribute in <" + name;
                while (k < n and xml_name_char((unsigned char)s[k]))
                    k++;
                if (k >= n or s[k] != '=')
                    return "attribute without value in <" + name;
                k++;
                if (k >= n or s[k] != '"')
                    return "unquoted attribute in <" + name;
                k++;
                while (k < n and s[k] != '"' and s[k] != '<')
                    k++;
                if (k >= n or s[k] != '"')
                    return "unterminated attribute in <" + name;
                j = k + 1;
            }
            if (stack.empty()) {
                roots++;
                if (roots > 1)
                    return "more than one root element";
            }
            if (!selfclose)
                stack.push_back(name);
            i = j + 1;
        } else {
            if (stack.empty())
                return "character data outside the root element";
            if (s[i] == '&') {
                size_t k = i + 1;
                while (k < n and (isalnum((unsigned char)s[k]) or s[k] == '#'))
                    k++;
                if (k == i + 1 or k >= n or s[k] != ';')
                    return "bare & in character data";
                i = k + 1;
            } else {
                i++;
            }
        }
    }
    if (!stack.empty())
        return "unclosed <" + stack.back() + ">";
    if (roots != 1)
        return "no root element";
    return "";
}

// ---------------------------------------------------------------- oracle: LaTeX groups
// TeX lexing: '\' + letters = control word, '\' + other = control symbol (so \{ \} \\ are not
// group characters); '{' '}' open/close a group; \left X ... \right Y is a group of its own that
// must nest with the braces; X, Y must be delimiters.
static bool tex_delim_at(const std::string &s, size_t i)
{
    if (i >= s.size())
        return false;
    char c = s[i];
    if (c == '(' or c == ')' or c == '[' or c == ']' or c == '|' or c == '.' or c == '/' or c == '<'
        or c == '>')
        return true;
    if (c == '\\' and i + 1 < s.size()) {
        char d = s[i + 1];
        if (d == '{' or d == '}' or d == '|')
            return true;
        size_t j = i + 1;
        while (j < s.size() and isalpha((unsigned char)s[j]))
            j++;
        std::string w = s.substr(i + 1, j - i - 1);
        return w == "langle" or w == "rangle" or w == "lfloor" or w == "rfloor" or w == "lceil"
               or w == "rceil" or w == "vert" or w == "Vert" or w == "lbrace" or w == "rbrace"
               or w == "backslash" or w == "uparrow" or w == "downarrow";
    }
    return false;
}
static std::string tex_check(const std::string &s, std::string &cls)
{
    std::vector<char> stack; // '{' or 'L'
    size_t i = 0, n = s.size();
    while (i < n) {
        char c = s[i];
        if (c == '\\') {
            size_t j = i + 1;
            if (j < n and isalpha((unsigned char)s[j])) {
                while (j < n and isalpha((unsigned char)s[j]))
                    j++;
                std::string w = s.substr(i + 1, j - i - 1);
                if (w == "left" or w == "right") {
                    size_t k = j;
                    while (k < n and s[k] == ' ')
                        k++;
                    if (!tex_delim_at(s, k)) {
                        cls = "latex-bad-delimiter";
                        return "\\" + w + " at offset " + std::to_string(i) + " is not followed by a delimiter";
                    }
                    if (w == "left") {
                        stack.push_back('L');
                    } else {
                        if (stack.empty() or stack.back() != 'L') {
                            cls = "latex-unbalanced";
                            return "\\right at offset " + std::to_string(i) + " closes "
                                   + (stack.empty() ? std::string("nothing") : std::string("a brace group"));
                        }
                        stack.pop_back();
                    }
                    // skip the delimiter
                    if (s[k] == '\\') {
                        size_t m = k + 1;
                        if (m < n and isalpha((unsigned char)s[m])) {
                            while (m < n and isalpha((unsigned char)s[m]))
                                m++;
                        } else {
                            m = k + 2;
                        }
                        j = m;
                    } else {
                        j = k + 1;
                    }
                }
                i = j;
            } else {
                i = j + 1; // control symbol
            }
        } else if (c == '{') {
            stack.push_back('{');
            i++;
        } else if (c == '}') {
            if (stack.empty() or stack.back() != '{') {
                cls = "latex-unbalanced";
                return "'}' at offset " + std::to_string(i) + " closes "
                       + (stack.empty() ? std::string("nothing") : std::string("a \\left group"));
            }
            stack.pop_back();
            i++;
        } else {
            i++;
        }
    }
    if (!stack.empty()) {
        cls = "latex-unbalanced";
        return std::string("unclosed ") + (stack.back() == '{' ? "'{'" : "\\left");
    }
    return "";
}

// ---------------------------------------------------------------- oracle: display width
static size_t codepoints(const std::string &s)
{
    size_t k = 0;
    for (unsigned char c : s)
        if ((c & 0xC0) != 0x80)
            k++;
    return k;
}
static std::string rect_check(const std::vector<std::string> &lines, size_t width, std::string &cls)
{
    for (size_t i = 0; i < lines.size(); i++) {
        if (codepoints(lines[i]) != codepoints(lines[0])) {
            cls = "unicode-not-rect";
            return "line " + std::to_string(i) + " has display width " + std::to_string(codepoints(lines[i]))
                   + ", line 0 has " + std::to_string(codepoints(lines[0]));
        }
    }
    if (!lines.empty() and codepoints(lines[0]) != width) {
        cls = "unicode-width-field";
        return "width_ = " + std::to_string(width) + " but the lines have display width "
               + std::to_string(codepoints(lines[0]));
    }
    return "";
}

// ---------------------------------------------------------------- one expression
static std::string guarded(const std::function<std::string()> &f, bool &ok)
{
    ok = false;
    try {
        std::string s = f();
        ok = true;
        return s;
    } catch (...) {
        return verif::exn_name();
    }
}

// which: the printers to run ("MLUJS" = all); "" = only the dump
static std::string run_expr(const std::string &line, const std::string &which)
{
    auto want = [&](char c) { return which.find(c) != std::string::npos; };
    RCP<const Basic> e;
    try {
        e = eval44(verif::parse_sexp(line));
    } catch (...) {
        return "SKIP recipe";
    }
    std::string d = dump44(*e);
    if (d.find("(Opaque") != std::string::npos)
        return "SKIP opaque";
    std::ostringstream o, orc;
    o << "@" << d << "\t=>\t";
    bool ok;
    // MathML
    if (want('M')) {
        std::string m = guarded([&]() { return mathml(*e); }, ok);
        o << "M=" << (ok ? hexof(m) : m);
        if (ok) {
            std::string why = xml_check(m);
            if (!why.empty())
                orc << "\t#ORACLE:mathml-malformed:" << why << " in `" << brief(m) << "`";
        }
    }
    // LaTeX
    std::string l;
    if (want('L'))
        l = guarded([&]() { return latex(*e); }, ok);
    if (!want('L')) {
    } else if (ok and is_fallback(l)) {
        o << "\tL=FALLBACK";
    } else {
        o << "\tL=" << (ok ? hexof(l) : l);
        if (ok) {
            std::string cls;
            std::string why = tex_check(l, cls);
            if (!why.empty())
                orc << "\t#ORACLE:" << cls << ":" << why << " in `" << brief(l) << "`";
        }
    }
    // Unicode
    if (want('U')) {
        bool uok = false;
        std::string u, cls, why;
        try {
            UnicodePrinter printer;
            StringBox box = printer.apply(*e);
            u = box.get_string();
            uok = true;
            if (!is_fallback(u))
                why = rect_check(box.lines_, box.width_, cls);
        } catch (...) {
            u = verif::exn_name();
        }
        if (uok and is_fallback(u)) {
            o << "\tU=FALLBACK";
        } else {
            o << "\tU=" << (uok ? hexof(u) : u);
            if (!why.empty())
                orc << "\t#ORACLE:" << cls << ":" << why << " in `" << brief(u) << "`";
        }
    }
    // Julia
    if (want('J')) {
        std::string j = guarded([&]() { return julia_str(*e); }, ok);
        o << "\tJ=" << (ok and is_fallback(j) ? std::string("FALLBACK") : (ok ? hexof(j) : j));
    }
    // SBML + parse back
    if (!want('S'))
        return o.str() + orc.str();
    std::string s = guarded([&]() { return sbml(*e); }, ok);
    o << "\tS=" << (ok and is_fallback(s) ? std::string("FALLBACK") : (ok ? hexof(s) : s));
    if (ok) {
        std::string r;
        try {
            RCP<const Basic> back = parse_sbml(s);
            r = eq(*back, *e) ? "1" : "0:" + hexof(dump44(*back));
        } catch (...) {
            r = "0:" + verif::exn_name();
        }
        o << "\tR=" << r;
    } else {
        o << "\tR=-";
    }
    return o.str() + orc.str();
}

// ---------------------------------------------------------------- StringBox histories
// BOX script: tokens separated by blanks; a stack machine over StringBox values.
//   s<hex>      push StringBox(std::string of the bytes)           (width_ = byte length)
//   w<hex>:<n>  push StringBox(bytes, n)
//   e           push StringBox()
//   below | line | right | power      binary: a op b  (a below the top, b the top); b is dropped
//   abs parens sq curly floor ceil sqrt lparen rparen lsq rsq lcurly rcurly     unary on the top
// Output: BOX\t=>\tW=<width_> H=<#lines> T=<hex of get_string()>  [\t#ORACLE:...]
static std::string run_box(const std::string &script)
{
    std::vector<std::string> t = verif::split_ws(script);
    std::vector<StringBox> st;
    bool power_order_broken = false;
    for (const std::string &c : t) {
        if (c[0] == 's' and c != "sq" and c != "sqrt") {
            st.push_back(StringBox(unhex(c.substr(1))));
        } else if (c[0] == 'w') {
            size_t p = c.find(':');
            st.push_back(StringBox(unhex(c.substr(1, p - 1)), (size_t)std::stoul(c.substr(p + 1))));
        } else if (c == "e") {
            st.push_back(StringBox());
        } else if (c == "below" or c == "line" or c == "right" or c == "power") {
            if (st.size() < 2)
                return "SKIP box";
            StringBox b = st.back();
            st.pop_back();
            StringBox &a = st.back();
            if (c == "below") a.add_below(b);
            else if (c == "line") a.add_below_unicode_line(b);
            else if (c == "right") a.add_right(b);
            else {
                std::vector<std::string> exponent = b.lines_;
                a.add_power(b);
                // the exponent's lines must sit above the base in their own order
                for (size_t i = 0; i < exponent.size() and i < a.lines_.size(); i++) {
                    const std::string &got = a.lines_[i];
                    if (got.size() < exponent[i].size()
                        or got.compare(got.size() - exponent[i].size(), exponent[i].size(), exponent[i]) != 0) {
                        power_order_broken = true;
                    }
                }
            }
        } else {
            if (st.empty())
                return "SKIP box";
            StringBox &a = st.back();
            if (a.lines_.empty())
                return "SKIP box"; // the enclose operations index lines_[0] / lines_.back()
            if (c == "abs") a.enclose_abs();
            else if (c == "parens") a.enclose_parens();
            else if (c == "sq") a.enclose_sqbrackets();
            else if (c == "curly") a.enclose_curlies();
            else if (c == "floor") a.enclose_floor();
            else if (c == "ceil") a.enclose_ceiling();
            else if (c == "sqrt") a.enclose_sqrt();
            else if (c == "lparen") a.add_left_parens();
            else if (c == "rparen") a.add_right_parens();
            else if (c == "lsq") a.add_left_sqbracket();
            else if (c == "rsq") a.add_right_sqbracket();
            else if (c == "lcurly") a.add_left_curly();
            else if (c == "rcurly") a.add_right_curly();
            else return "SKIP box";
        }
    }
    if (st.empty())
        return "SKIP box";
    const StringBox &a = st.back();
    std::ostringstream o;
    o << "@BOX " << script << "\t=>\tW=" << a.width_ << " H=" << a.lines_.size() << " T=" << hexof(a.get_string());
    std::string cls;
    std::string why = rect_check(a.lines_, a.width_, cls);
    if (!why.empty())
        o << "\t#ORACLE:" << (cls == "unicode-not-rect" ? "stringbox-not-rect" : "stringbox-width-field") << ":" << why;
    if (power_order_broken)
        o << "\t#ORACLE:stringbox-power-order:add_power put the lines of a multi-line exponent in reverse order";
    return o.str();
}

// one case, isolated: used after the batch child died on it
static std::string run_isolated(const std::string &line)
{
    bool is_box = line.compare(0, 4, "BOX ") == 0;
    if (!is_box and !verif::survives([&]() { (void)eval44(verif::parse_sexp(line)); }, 60))
        return "SKIP construction crashed";
    std::string r = verif::run_forked(
        [&]() {
            if (is_box)
                return run_box(line.substr(4));
            return run_expr(line, "MLUJS");
        },
        120);
    if (!is_box and (r.empty() or r[0] != '@') and r.compare(0, 4, "SKIP") != 0) {
        // a printer (or parse_sbml) died: run them one by one to keep the others' results
        std::string head = verif::run_forked([&]() { return run_expr(line, ""); }, 120);
        if (!head.empty() and head[0] == '@') {
            std::string all = head, orc;
            const char *names[] = {"M", "L", "U", "J", "S"};
            for (const char *nm : names) {
                std::string part = verif::run_forked([&]() { return run_expr(line, nm); }, 120);
                size_t arrow = part.find("\t=>\t");
                if (!part.empty() and part[0] == '@' and arrow != std::string::npos) {
                    std::string body = part.substr(arrow + 4);
                    size_t op = body.find("\t#ORACLE:");
                    if (op != std::string::npos) {
                        orc += body.substr(op);
                        body = body.substr(0, op);
                    }
                    if (!body.empty() and body[0] == '\t')
                        body = body.substr(1);
                    all += (std::string(nm) == "M" ? "" : "\t") + body;
                } else {
                    std::string how = part.size() > 40 ? part.substr(part.size() - 40) : part;
                    size_t c = how.find("CRASH:");
                    if (c == std::string::npos)
                        c = how.find("HANG");
                    how = c == std::string::npos ? "DIED" : how.substr(c);
                    all += (std::string(nm) == "M" ? "" : "\t") + std::string(nm) + "=" + how;
                    if (std::string(nm) == "S")
                        all += "\tR=-";
                    orc += "\t#ORACLE:crash-" + std::string(nm) + ":the printer ends with " + how;
                }
            }
            r = all + orc;
        }
    }
    for (auto &c : r)
        if (c == '\n')
            c = ' ';
    if (!r.empty() and r[0] == '@')
        r = r.substr(1);
    else if (r.compare(0, 4, "SKIP") != 0)
        r = "DIED " + r; // CRASH:<sig> / HANG
    return r;
}

int main()
{
    // warm the function-local statics before forking
    try {
        RCP<const Basic> w = sin(symbol("x"));
        (void)mathml(*w);
        (void)latex(*w);
        (void)unicode(*w);
        (void)sbml(*w);
        (void)julia_str(*w);
    } catch (...) {
    }
    std::vector<std::string> lines;
    std::string line;
    while (std::getline(std::cin, line))
        lines.push_back(line);
    size_t n = lines.size(), start = 0;
    std::vector<std::string> out(n);
    // batches: one child runs the cases in order and reports each result; when it dies, the case it
    // was working on is re-run in isolation and a new child continues behind it
    while (start < n) {
        int fd[2];
        if (pipe(fd) != 0)
            return 3;
        fflush(stdout);
        pid_t pid = fork();
        if (pid == 0) {
            close(fd[0]);
            struct rlimit rl;
            rl.rlim_cur = rl.rlim_max = 0;
            setrlimit(RLIMIT_CORE, &rl);
            for (size_t i = start; i < n; i++) {
                alarm(120);
                std::string r;
                try {
                    if (lines[i].compare(0, 4, "BOX ") == 0)
                        r = run_box(lines[i].substr(4));
                    else
                        r = run_expr(lines[i], "MLUJS");
                } catch (...) {
                    r = "UNCAUGHT";
                }
                for (auto &c : r)
                    if (c == '\n')
                        c = ' ';
                r += "\n";
                size_t off = 0;
                while (off < r.size()) {
                    ssize_t w = write(fd[1], r.data() + off, r.size() - off);
                    if (w <= 0)
                        _exit(4);
                    off += (size_t)w;
                }
            }
            _exit(0);
        }
        close(fd[1]);
        std::string buf;
        char tmp[65536];
        ssize_t r;
        while ((r = read(fd[0], tmp, sizeof tmp)) > 0)
            buf.append(tmp, (size_t)r);
        close(fd[0]);
        int status = 0;
        waitpid(pid, &status, 0);
        size_t i = start, pos = 0;
        while (pos < buf.size() and i < n) {
            size_t nl = buf.find('\n', pos);
            if (nl == std::string::npos)
                break; // incomplete last line: the child died while writing
            std::string l = buf.substr(pos, nl - pos);
            pos = nl + 1;
            if (!l.empty() and l[0] == '@')
                l = l.substr(1);
            else if (l.compare(0, 4, "SKIP") != 0)
                l = "DIED " + l;
            out[i++] = l;
        }
        if (i < n) {
            // the child died on case i (or was killed): isolate it
            out[i] = run_isolated(lines[i]);
            i++;
        }
        start = i;
    }
    for (size_t i = 0; i < n; i++)
        std::cout << out[i] << "\n";
    return 0;
}
