// Canonical tree dump of a SymEngine expression (DESIGN.md 4.2), read back by
// ocaml/expr_io.ml into the Coq model's `expr` type (coq/Expr/ExprDefs.v).
//   exact tree with class names, integer strings, double BIT PATTERNS in hex (never decimal
//   floats), dictionary entries in the order the implementation iterates them.
// Include the symengine headers before this file.
#pragma once
#include <string>
#include <sstream>
#include <cstring>
#include <cstdint>
#include <algorithm>

namespace verif
{
using namespace SymEngine;

inline std::string hexbytes(const std::string &s)
{
    static const char *d = "0123456789abcdef";
    std::string o = "x"; // the prefix keeps empty names readable
    for (unsigned char c : s) {
        o += d[c >> 4];
        o += d[c & 15];
    }
    return o;
}

inline std::string dblbits(double x)
{
    uint64_t u;
    std::memcpy(&u, &x, 8);
    char buf[32];
    snprintf(buf, sizeof buf, "%016llx", (unsigned long long)u);
    return buf;
}

inline std::string zstr(const integer_class &z)
{
    std::ostringstream o;
    o << z;
    return o.str();
}

inline std::string dump(const Basic &b);
inline std::string dump(const RCP<const Basic> &b)
{
    return dump(*b);
}

inline std::string dump_num(const Number &n)
{
    std::ostringstream o;
    if (is_a<Integer>(n)) {
        o << "(I " << zstr(down_cast<const Integer &>(n).as_integer_class()) << ")";
    } else if (is_a<Rational>(n)) {
        const rational_class &q = down_cast<const Rational &>(n).as_rational_class();
        o << "(Q " << zstr(get_num(q)) << " " << zstr(get_den(q)) << ")";
    } else if (is_a<Complex>(n)) {
        const Complex &c = down_cast<const Complex &>(n);
        o << "(C " << zstr(get_num(c.real_)) << " " << zstr(get_den(c.real_)) << " "
          << zstr(get_num(c.imaginary_)) << " " << zstr(get_den(c.imaginary_)) << ")";
    } else if (is_a<RealDouble>(n)) {
        o << "(D " << dblbits(down_cast<const RealDouble &>(n).i) << ")";
    } else if (is_a<ComplexDouble>(n)) {
        const ComplexDouble &c = down_cast<const ComplexDouble &>(n);
        o << "(CD " << dblbits(c.i.real()) << " " << dblbits(c.i.imag()) << ")";
    } else if (is_a<Infty>(n)) {
        const Infty &i = down_cast<const Infty &>(n);
        RCP<const Number> d = i.get_direction();
        if (is_a<Integer>(*d))
            o << "(Inf " << zstr(down_cast<const Integer &>(*d).as_integer_class()) << ")";
        else
            o << "(Opaque InftyWithOddDirection)";
    } else if (is_a<NaN>(n)) {
        o << "(NaN)";
    } else {
        o << "(Opaque " << type_code_name(n.get_type_code()) << ")";
    }
    return o.str();
}

inline std::string dump_args(const vec_basic &v)
{
    std::string s;
    for (const auto &a : v)
        s += " " + dump(*a);
    return s;
}

inline std::string dump(const Basic &b)
{
    std::ostringstream o;
    const std::string name = type_code_name(b.get_type_code());
    if (is_a_Number(b)) {
        return dump_num(down_cast<const Number &>(b));
    } else if (is_a<Dummy>(b)) {
        const Dummy &d = down_cast<const Dummy &>(b);
        o << "(Dummy " << hexbytes(d.get_name()) << " " << d.get_index() << ")";
    } else if (is_a<Symbol>(b)) {
        o << "(Sym " << hexbytes(down_cast<const Symbol &>(b).get_name()) << ")";
    } else if (is_a<Constant>(b)) {
        o << "(Const " << hexbytes(down_cast<const Constant &>(b).get_name()) << ")";
    } else if (is_a<Add>(b)) {
        const Add &a = down_cast<const Add &>(b);
        o << "(Add " << dump_num(*a.get_coef());
        for (const auto &p : a.get_dict())
            o << " (" << dump(*p.first) << " " << dump_num(*p.second) << ")";
        o << ")";
    } else if (is_a<Mul>(b)) {
        const Mul &a = down_cast<const Mul &>(b);
        o << "(Mul " << dump_num(*a.get_coef());
        for (const auto &p : a.get_dict())
            o << " (" << dump(*p.first) << " " << dump(*p.second) << ")";
        o << ")";
    } else if (is_a<Pow>(b)) {
        const Pow &p = down_cast<const Pow &>(b);
        o << "(Pow " << dump(*p.get_base()) << " " << dump(*p.get_exp()) << ")";
    } else if (is_a<FunctionSymbol>(b)) {
        const FunctionSymbol &f = down_cast<const FunctionSymbol &>(b);
        o << "(FunSym " << hexbytes(f.get_name()) << dump_args(f.get_vec()) << ")";
    } else if (is_a<Derivative>(b)) {
        const Derivative &d = down_cast<const Derivative &>(b);
        o << "(Deriv " << dump(*d.get_arg());
        for (const auto &x : d.get_symbols())
            o << " " << dump(*x);
        o << ")";
    } else if (is_a<Subs>(b)) {
        const Subs &s = down_cast<const Subs &>(b);
        o << "(Subs " << dump(*s.get_arg());
        for (const auto &p : s.get_dict())
            o << " (" << dump(*p.first) << " " << dump(*p.second) << ")";
        o << ")";
    } else if (is_a<Piecewise>(b)) {
        const Piecewise &p = down_cast<const Piecewise &>(b);
        o << "(Pw";
        for (const auto &q : p.get_vec())
            o << " (" << dump(*q.first) << " " << dump(*q.second) << ")";
        o << ")";
    } else if (is_a<BooleanAtom>(b)) {
        o << "(Bool " << (down_cast<const BooleanAtom &>(b).get_val() ? 1 : 0) << ")";
    } else if (is_a<Interval>(b)) {
        const Interval &i = down_cast<const Interval &>(b);
        o << "(Interval " << dump(*i.get_start()) << " " << dump(*i.get_end()) << " "
          << (i.get_left_open() ? 1 : 0) << " " << (i.get_right_open() ? 1 : 0) << ")";
    } else if (is_a<Contains>(b) or is_a<Complement>(b)) {
        o << "(Lex " << name << dump_args(b.get_args()) << ")";
    } else if (is_a<Not>(b)) {
        o << "(F1 " << name << dump_args(b.get_args()) << ")";
    } else if (dynamic_cast<const OneArgFunction *>(&b) != nullptr) {
        o << "(F1 " << name << " " << dump(*down_cast<const OneArgFunction &>(b).get_arg()) << ")";
    } else if (dynamic_cast<const TwoArgFunction *>(&b) != nullptr
               or dynamic_cast<const Relational *>(&b) != nullptr) {
        o << "(F2 " << name << dump_args(b.get_args()) << ")";
    } else if (dynamic_cast<const MultiArgFunction *>(&b) != nullptr or is_a<And>(b) or is_a<Or>(b)
               or is_a<Xor>(b) or is_a<FiniteSet>(b) or is_a<Union>(b) or is_a<Intersection>(b)) {
        o << "(FN " << name << dump_args(b.get_args()) << ")";
    } else if (is_a<Reals>(b) or is_a<Rationals>(b) or is_a<Integers>(b) or is_a<Naturals>(b)
               or is_a<Naturals0>(b) or is_a<Complexes>(b) or is_a<EmptySet>(b)
               or is_a<UniversalSet>(b)) {
        o << "(Atom " << name << ")";
    } else {
        o << "(Opaque " << name << ")";
    }
    return o.str();
}

// dump with Add dictionaries (and other hash-ordered parts) sorted by their own dump string:
// a canonical text for comparing results between model and implementation
inline std::string dump_sorted(const Basic &b);
inline std::string dump_sorted_args(const vec_basic &v)
{
    std::string s;
    for (const auto &a : v)
        s += " " + dump_sorted(*a);
    return s;
}
inline std::string dump_sorted(const Basic &b)
{
    if (is_a<Add>(b)) {
        const Add &a = down_cast<const Add &>(b);
        std::vector<std::string> items;
        for (const auto &p : a.get_dict())
            items.push_back("(" + dump_sorted(*p.first) + " " + dump_num(*p.second) + ")");
        std::sort(items.begin(), items.end());
        std::string s = "(Add " + dump_num(*a.get_coef());
        for (auto &i : items)
            s += " " + i;
        return s + ")";
    } else if (is_a<Mul>(b)) {
        const Mul &a = down_cast<const Mul &>(b);
        std::vector<std::string> items;
        for (const auto &p : a.get_dict())
            items.push_back("(" + dump_sorted(*p.first) + " " + dump_sorted(*p.second) + ")");
        std::sort(items.begin(), items.end());
        std::string s = "(Mul " + dump_num(*a.get_coef());
        for (auto &i : items)
            s += " " + i;
        return s + ")";
    } else if (is_a<Pow>(b)) {
        const Pow &p = down_cast<const Pow &>(b);
        return "(Pow " + dump_sorted(*p.get_base()) + " " + dump_sorted(*p.get_exp()) + ")";
    } else if (is_a_Number(b) or is_a<Symbol>(b) or is_a<Constant>(b) or is_a<BooleanAtom>(b)) {
        return dump(b);
    } else {
        // generic: class name + sorted-dump of get_args (sets keep their container order)
        std::string name = type_code_name(b.get_type_code());
        if (is_a<FunctionSymbol>(b))
            name += ":" + hexbytes(down_cast<const FunctionSymbol &>(b).get_name());
        if (is_a<Interval>(b)) {
            const Interval &i = down_cast<const Interval &>(b);
            name += i.get_left_open() ? ":lo" : ":lc";
            name += i.get_right_open() ? ":ro" : ":rc";
        }
        return "(G " + name + dump_sorted_args(b.get_args()) + ")";
    }
}

} // namespace verif
