// C40 driver: handle programs over RCP<const Basic> variables, observed through the live-object
// counter (hook H2: SymEngine::verif_live_objects()), use_count() and the true member edges of
// the objects, printed in the format of the extracted model (ocaml/rcp_main.ml).
//
// Input lines
//   P <nslots> | step | step | ...     handle program (model-compared mode)
//   W <op> ;; <op> ;; ...              API workload (sanitizer / leak mode, no model)
// Steps of a handle program (i, j, k: slot numbers)
//   mk i k1 k2 ...   v[i] = make_rcp<const FunctionSymbol>("g", {v[k1],...})   (no k: a Symbol)
//   cp i j   v[i] = v[j]               mv i j   v[i] = std::move(v[j])
//   mc i j   { RCP t(std::move(v[j])); v[i] = std::move(t); }
//   rs i     v[i].reset()              dr i     v[i].~RCP(); new (&v[i]) RCP()
//   ft i j   v[i] = v[j]->rcp_from_this()       tp j     { RCP t(v[j]); }
//   ap <fn> i args...   v[i] = fn(args)  through the public API (see api_call)
//   fdm i j c   v[i] = Add::from_dict(0, {std::move(v[j]) : c})   (v[j] ends null: dictionary stealing)
//   fdk i j c   v[i] = Add::from_dict(0, {v[j] : c})              (v[j] keeps its handle)
// Output: E<r0,r1,...> | step-observation | ...   with step-observation =
//   L<live delta> S<slot ids> O<id:use_count,...> X<changed external id:use_count,...> [N <root> <new nodes>]
// and "\t#ORACLE:..." when a property oracle fails (held expression changed, leak, count mismatch).
#include <cstdio>
#include <cstdlib>
#include <string>
#include <vector>
#include <map>
#include <set>
#include <sstream>
#include <iostream>
#include <algorithm>
#include <new>
#include <symengine/basic.h>
#include <symengine/add.h>
#include <symengine/mul.h>
#include <symengine/pow.h>
#include <symengine/symbol.h>
#include <symengine/integer.h>
#include <symengine/rational.h>
#include <symengine/complex.h>
#include <symengine/complex_double.h>
#include <symengine/real_double.h>
#include <symengine/functions.h>
#include <symengine/logic.h>
#include <symengine/sets.h>
#include <symengine/infinity.h>
#include <symengine/nan.h>
#include <symengine/constants.h>
#include <symengine/visitor.h>
#include <symengine/derivative.h>
#include <symengine/subs.h>
#include <symengine/parser.h>
#include <symengine/solve.h>
#include <symengine/series.h>
#include <symengine/series_generic.h>
#include <symengine/matrix.h>
#include <symengine/polys/uintpoly.h>
#include <symengine/polys/uratpoly.h>
#include <symengine/polys/basic_conversions.h>
#include <symengine/prime_sieve.h>
#include <symengine/ntheory.h>
#include <symengine/finitediff.h>
#include <symengine/symengine_exception.h>
#include "common.h"
#include "dump.h"
#include "recipe.h"
using namespace SymEngine;

#if defined(__SANITIZE_ADDRESS__)
#include <sanitizer/lsan_interface.h>
#define HAVE_LSAN 1
#endif

namespace SymEngine
{
// the unexported constants of constants.cpp (trigonometric tables are built from them)
extern RCP<const Basic> &i2, &i3, &i5, &im2, &im3, &im5, &sq3, &sq2, &sq5, &C0, &C1, &C2, &C3, &C4, &C5, &C6,
    &mC0, &mC1, &mC2, &mC3, &mC4, &mC5, &mC6;
} // namespace SymEngine

static long live_now()
{
#ifdef SYMENGINE_VERIF_LIVE_OBJECTS
    return SymEngine::verif_live_objects();
#else
    return 0;
#endif
}

// ---------------------------------------------------------------- true member edges
static bool true_kids(const Basic &b, std::vector<const Basic *> &out)
{
    switch (b.get_type_code()) {
        case SYMENGINE_SYMBOL:
        case SYMENGINE_DUMMY:
        case SYMENGINE_INTEGER:
        case SYMENGINE_RATIONAL:
        case SYMENGINE_COMPLEX:
        case SYMENGINE_REAL_DOUBLE:
        case SYMENGINE_COMPLEX_DOUBLE:
        case SYMENGINE_CONSTANT:
        case SYMENGINE_NOT_A_NUMBER:
        case SYMENGINE_BOOLEAN_ATOM:
            return true;
        case SYMENGINE_INFTY:
            out.push_back(down_cast<const Infty &>(b).get_direction().get());
            return true;
        case SYMENGINE_ADD: {
            const Add &a = down_cast<const Add &>(b);
            out.push_back(a.get_coef().get());
            for (const auto &p : a.get_dict()) {
                out.push_back(p.first.get());
                out.push_back(p.second.get());
            }
            return true;
        }
        case SYMENGINE_MUL: {
            const Mul &a = down_cast<const Mul &>(b);
            out.push_back(a.get_coef().get());
            for (const auto &p : a.get_dict()) {
                out.push_back(p.first.get());
                out.push_back(p.second.get());
            }
            return true;
        }
        case SYMENGINE_POW: {
            const Pow &a = down_cast<const Pow &>(b);
            out.push_back(a.get_base().get());
            out.push_back(a.get_exp().get());
            return true;
        }
        case SYMENGINE_DERIVATIVE: {
            const Derivative &a = down_cast<const Derivative &>(b);
            out.push_back(a.get_arg().get());
            for (const auto &p : a.get_symbols())
                out.push_back(p.get());
            return true;
        }
        case SYMENGINE_SUBS: {
            const Subs &a = down_cast<const Subs &>(b);
            out.push_back(a.get_arg().get());
            for (const auto &p : a.get_dict()) {
                out.push_back(p.first.get());
                out.push_back(p.second.get());
            }
            return true;
        }
        default:
            break;
    }
    if (const OneArgFunction *f = dynamic_cast<const OneArgFunction *>(&b)) {
        out.push_back(f->get_arg().get());
        return true;
    }
    if (const TwoArgFunction *f = dynamic_cast<const TwoArgFunction *>(&b)) {
        out.push_back(f->get_arg1().get());
        out.push_back(f->get_arg2().get());
        return true;
    }
    if (const MultiArgFunction *f = dynamic_cast<const MultiArgFunction *>(&b)) {
        for (const auto &a : f->get_vec())
            out.push_back(a.get());
        return true;
    }
    return false;
}

// ---------------------------------------------------------------- externals (objects of the library's statics)
static std::vector<const Basic *> ext_objs;
static std::map<const Basic *, long> ext_id;
static std::vector<unsigned> ext_rc0;

static void ext_walk(const Basic *p)
{
    if (p == nullptr || ext_id.count(p))
        return;
    std::vector<const Basic *> k;
    true_kids(*p, k);
    for (const Basic *c : k)
        ext_walk(c);
    ext_id[p] = (long)ext_objs.size();
    ext_objs.push_back(p);
}

static void init_externals()
{
    // build the lazily initialised tables of functions.cpp and the set singletons first
    try {
        sin(div(pi, integer(6)));
        asin(div(one, integer(2)));
        atan(one);
        parse("x + pi*I + oo"); // the parser's table of constants is a function-local static
        (void)symbol("x")->__str__();
        emptyset();
        universalset();
        reals();
        rationals();
        integers();
        naturals();
        naturals0();
        complexes();
    } catch (...) {
    }
    const Basic *roots[] = {zero.get(), one.get(), minus_one.get(), two.get(), I.get(), pi.get(), E.get(),
                            EulerGamma.get(), Catalan.get(), GoldenRatio.get(), Inf.get(), NegInf.get(),
                            ComplexInf.get(), Nan.get(), boolTrue.get(), boolFalse.get(), i2.get(), i3.get(),
                            i5.get(), im2.get(), im3.get(), im5.get(), sq3.get(), sq2.get(), sq5.get(),
                            C0.get(), C1.get(), C2.get(), C3.get(), C4.get(), C5.get(), C6.get(), mC0.get(),
                            mC1.get(), mC2.get(), mC3.get(), mC4.get(), mC5.get(), mC6.get()};
    for (const Basic *r : roots)
        ext_walk(r);
    for (const Basic *p : ext_objs)
        ext_rc0.push_back(p->use_count());
}

// ---------------------------------------------------------------- handle programs
struct Machine {
    std::vector<RCP<const Basic>> v;
    std::map<const Basic *, long> idof; // program objects currently reachable from the slots
    long next_id;
    long base_live;
    std::vector<unsigned long long> fps; // fingerprint of what each slot shows
    std::ostringstream oracle;
    int counter = 0;
    bool unknown_class = false;
};

static unsigned long long mix(unsigned long long h, unsigned long long x)
{
    h ^= x + 0x9e3779b97f4a7c15ULL + (h << 6) + (h >> 2);
    return h;
}

static unsigned long long fingerprint(const Basic *p, std::map<const Basic *, unsigned long long> &memo)
{
    auto it = memo.find(p);
    if (it != memo.end())
        return it->second;
    std::vector<const Basic *> k;
    bool known = true_kids(*p, k);
    unsigned long long h = 1469598103934665603ULL + (unsigned)p->get_type_code();
    if (!known || k.empty()) {
        for (unsigned char c : p->__str__())
            h = mix(h, c);
    } else {
        if (is_a<FunctionSymbol>(*p))
            for (unsigned char c : down_cast<const FunctionSymbol &>(*p).get_name())
                h = mix(h, c);
        for (const Basic *c : k)
            h = mix(h, fingerprint(c, memo));
    }
    memo[p] = h;
    return h;
}

// post-order walk; objects not yet numbered are appended to `fresh` (members before owners)
static void walk(Machine &m, const Basic *p, std::set<const Basic *> &seen, std::vector<const Basic *> &fresh,
                 std::vector<const Basic *> &order)
{
    if (seen.count(p))
        return;
    seen.insert(p);
    if (ext_id.count(p))
        return;
    std::vector<const Basic *> k;
    if (!true_kids(*p, k))
        m.unknown_class = true;
    for (const Basic *c : k)
        walk(m, c, seen, fresh, order);
    if (!m.idof.count(p))
        fresh.push_back(p);
    order.push_back(p);
}

static std::string refname(Machine &m, const Basic *p, const std::map<const Basic *, long> &newidx)
{
    auto e = ext_id.find(p);
    if (e != ext_id.end())
        return "o" + std::to_string(e->second);
    auto n = newidx.find(p);
    if (n != newidx.end())
        return "n" + std::to_string(n->second);
    return "o" + std::to_string(m.idof.at(p));
}

// observation after a step; `dest` = slot assigned by an API step (or -1)
static std::string observe(Machine &m, int dest, const std::vector<int> &written)
{
    std::ostringstream o;
    std::set<const Basic *> seen;
    std::vector<const Basic *> fresh, order;
    std::string nfield;
    // objects created by an API call are reachable from its result: number them first
    if (dest >= 0 && !m.v[dest].is_null()) {
        walk(m, m.v[dest].get(), seen, fresh, order);
        std::map<const Basic *, long> newidx;
        for (size_t i = 0; i < fresh.size(); i++)
            newidx[fresh[i]] = (long)i;
        std::ostringstream nf;
        nf << " N " << refname(m, m.v[dest].get(), newidx) << " ";
        if (fresh.empty())
            nf << ".";
        for (size_t i = 0; i < fresh.size(); i++) {
            if (i)
                nf << "/";
            std::vector<const Basic *> k;
            true_kids(*fresh[i], k);
            if (k.empty())
                nf << "-";
            for (size_t j = 0; j < k.size(); j++)
                nf << (j ? "," : "") << refname(m, k[j], newidx);
        }
        nfield = nf.str();
        for (const Basic *p : fresh)
            m.idof[p] = m.next_id++;
        fresh.clear();
    }
    for (size_t i = 0; i < m.v.size(); i++)
        if (!m.v[i].is_null())
            walk(m, m.v[i].get(), seen, fresh, order);
    if (!fresh.empty()) {
        if (dest >= 0)
            m.oracle << " objects unknown to the program became reachable from a slot other than the result;";
        for (const Basic *p : fresh)
            m.idof[p] = m.next_id++;
    }
    // forget objects that are no longer reachable (they are dead if the protocol is right)
    std::set<const Basic *> reach(order.begin(), order.end());
    for (auto it = m.idof.begin(); it != m.idof.end();)
        it = reach.count(it->first) ? std::next(it) : m.idof.erase(it);
    long live = live_now() - m.base_live;
    o << "L" << live << " S";
    for (size_t i = 0; i < m.v.size(); i++) {
        if (i)
            o << ",";
        if (m.v[i].is_null())
            o << "-";
        else if (ext_id.count(m.v[i].get()))
            o << ext_id[m.v[i].get()];
        else
            o << m.idof[m.v[i].get()];
    }
    std::vector<std::pair<long, unsigned>> rcs;
    for (auto &p : m.idof)
        rcs.push_back(std::make_pair(p.second, p.first->use_count()));
    std::sort(rcs.begin(), rcs.end());
    o << " O";
    for (size_t i = 0; i < rcs.size(); i++)
        o << (i ? "," : "") << rcs[i].first << ":" << rcs[i].second;
    o << " X";
    bool first = true;
    for (size_t i = 0; i < ext_objs.size(); i++)
        if (ext_objs[i]->use_count() != ext_rc0[i]) {
            o << (first ? "" : ",") << i << ":" << ext_objs[i]->use_count();
            first = false;
        }
    o << nfield;
    // oracle 1 (independent of the model): the live-object count is the number of reachable program objects
    if (!m.unknown_class && live != (long)m.idof.size())
        m.oracle << " live objects " << live << " but " << m.idof.size() << " reachable from the handles;";
    // oracle 2: expressions are immutable while held
    std::map<const Basic *, unsigned long long> memo;
    for (size_t i = 0; i < m.v.size(); i++) {
        unsigned long long f = m.v[i].is_null() ? 0 : fingerprint(m.v[i].get(), memo);
        bool w = std::find(written.begin(), written.end(), (int)i) != written.end();
        if (!w && f != m.fps[i])
            m.oracle << " the expression held by v[" << i << "] changed;";
        m.fps[i] = f;
    }
    return o.str();
}

static RCP<const Basic> api_call(Machine &m, const std::vector<std::string> &t)
{
    // t: ap fn dest args...
    const std::string &fn = t[1];
    auto A = [&](size_t k) -> const RCP<const Basic> & {
        int s = std::stoi(t.at(k));
        if (s < 0 || s >= (int)m.v.size() || m.v[s].is_null())
            throw std::runtime_error("null");
        return m.v[s];
    };
    if (fn == "sym")
        return symbol(t.at(3));
    if (fn == "int")
        return integer(integer_class(t.at(3)));
    if (fn == "rat")
        return Rational::from_two_ints(*integer(integer_class(t.at(3))), *integer(integer_class(t.at(4))));
    if (fn == "add")
        return add(A(3), A(4));
    if (fn == "sub")
        return sub(A(3), A(4));
    if (fn == "mul")
        return mul(A(3), A(4));
    if (fn == "div")
        return div(A(3), A(4));
    if (fn == "pow")
        return pow(A(3), A(4));
    if (fn == "neg")
        return neg(A(3));
    if (fn == "expand")
        return expand(A(3));
    if (fn == "diff")
        return A(3)->diff(symbol(t.at(4)));
    if (fn == "subs") {
        map_basic_basic d;
        d[A(4)] = A(5);
        return A(3)->subs(d);
    }
    if (fn == "xreplace") {
        map_basic_basic d;
        d[A(4)] = A(5);
        return A(3)->xreplace(d);
    }
    if (fn == "sin")
        return sin(A(3));
    if (fn == "cos")
        return cos(A(3));
    if (fn == "exp")
        return exp(A(3));
    if (fn == "log")
        return log(A(3));
    if (fn == "abs")
        return abs(A(3));
    if (fn == "sqrt")
        return sqrt(A(3));
    if (fn == "fs")
        return function_symbol("F", {A(3), A(4)});
    if (fn == "parse")
        return parse(A(3)->__str__());
    if (fn == "addv") {
        vec_basic a;
        for (size_t k = 3; k < t.size(); k++)
            a.push_back(A(k));
        return add(a);
    }
    if (fn == "mulv") {
        vec_basic a;
        for (size_t k = 3; k < t.size(); k++)
            a.push_back(A(k));
        return mul(a);
    }
    throw std::runtime_error("unknown api function " + fn);
}

static std::string run_program(const std::string &line)
{
#ifndef SYMENGINE_VERIF_LIVE_OBJECTS
    return "NOHOOK";
#endif
    // P <nslots> | step | ...
    std::vector<std::string> steps;
    {
        size_t st = 0;
        while (true) {
            size_t p = line.find('|', st);
            if (p == std::string::npos) {
                steps.push_back(line.substr(st));
                break;
            }
            steps.push_back(line.substr(st, p - st));
            st = p + 1;
        }
    }
    std::vector<std::string> head = verif::split_ws(steps[0]);
    if (head.size() < 2 || head[0] != "P")
        return "BADLINE";
    int ns = std::stoi(head[1]);
    std::ostringstream out;
    out << "E";
    for (size_t i = 0; i < ext_rc0.size(); i++)
        out << (i ? "," : "") << ext_rc0[i];
    {
        Machine m;
        m.v.resize(ns);
        m.fps.assign(ns, 0);
        m.next_id = (long)ext_objs.size();
        m.base_live = live_now();
        for (size_t si = 1; si < steps.size(); si++) {
            std::vector<std::string> t = verif::split_ws(steps[si]);
            if (t.empty())
                continue;
            const std::string &c = t[0];
            std::vector<int> written;
            int dest = -1;
            std::string note;
            auto slot_ok = [&](int s) { return s >= 0 && s < ns; };
            try {
                if (c == "mk") {
                    int i = std::stoi(t.at(1));
                    vec_basic a;
                    bool ok = slot_ok(i);
                    for (size_t k = 2; k < t.size() && ok; k++) {
                        int s = std::stoi(t[k]);
                        if (!slot_ok(s) || m.v[s].is_null())
                            ok = false;
                        else
                            a.push_back(m.v[s]);
                    }
                    if (ok) {
                        std::string name = "g" + std::to_string(m.counter++);
                        if (a.empty())
                            m.v[i] = make_rcp<const Symbol>(name);
                        else
                            m.v[i] = make_rcp<const FunctionSymbol>(name, a);
                        written.push_back(i);
                    } else
                        note = "SKIP";
                } else if (c == "cp") {
                    int i = std::stoi(t.at(1)), j = std::stoi(t.at(2));
                    if (slot_ok(i) && slot_ok(j)) {
                        m.v[i] = m.v[j];
                        written.push_back(i);
                    } else
                        note = "SKIP";
                } else if (c == "mv") {
                    int i = std::stoi(t.at(1)), j = std::stoi(t.at(2));
                    if (slot_ok(i) && slot_ok(j)) {
                        m.v[i] = std::move(m.v[j]);
                        written.push_back(i);
                        written.push_back(j);
                    } else
                        note = "SKIP";
                } else if (c == "mc") {
                    int i = std::stoi(t.at(1)), j = std::stoi(t.at(2));
                    if (slot_ok(i) && slot_ok(j)) {
                        RCP<const Basic> tmp(std::move(m.v[j]));
                        m.v[i] = std::move(tmp);
                        written.push_back(i);
                        written.push_back(j);
                    } else
                        note = "SKIP";
                } else if (c == "rs") {
                    int i = std::stoi(t.at(1));
                    if (slot_ok(i)) {
                        m.v[i].reset();
                        written.push_back(i);
                    } else
                        note = "SKIP";
                } else if (c == "dr") {
                    int i = std::stoi(t.at(1));
                    if (slot_ok(i)) {
                        m.v[i].~RCP<const Basic>();
                        new (&m.v[i]) RCP<const Basic>();
                        written.push_back(i);
                    } else
                        note = "SKIP";
                } else if (c == "ft") {
                    int i = std::stoi(t.at(1)), j = std::stoi(t.at(2));
                    if (slot_ok(i) && slot_ok(j) && !m.v[j].is_null()) {
                        m.v[i] = const_cast<Basic *>(m.v[j].get())->rcp_from_this();
                        written.push_back(i);
                    } else
                        note = "SKIP";
                } else if (c == "km") {
                    // v[i] = <member k of *v[j]>, assigned from the const reference the getter returns (the source handle lives
                    // INSIDE *v[j]; with i == j and v[j] the only owner the assignment releases the object that holds its source)
                    int i = std::stoi(t.at(1)), j = std::stoi(t.at(2));
                    size_t k = (size_t)std::stoul(t.at(3));
                    if (slot_ok(i) && slot_ok(j) && !m.v[j].is_null() && is_a<FunctionSymbol>(*m.v[j])
                        && k < down_cast<const FunctionSymbol &>(*m.v[j]).get_vec().size()) {
                        m.v[i] = down_cast<const FunctionSymbol &>(*m.v[j]).get_vec()[k];
                        written.push_back(i);
                        dest = i;
                    } else
                        note = "SKIP";
                } else if (c == "tp") {
                    int j = std::stoi(t.at(1));
                    if (slot_ok(j)) {
                        RCP<const Basic> tmp(m.v[j]);
                        (void)tmp;
                    } else
                        note = "SKIP";
                } else if (c == "ap") {
                    int i = std::stoi(t.at(2));
                    if (!slot_ok(i))
                        note = "SKIP";
                    else {
                        m.v[i] = api_call(m, t);
                        written.push_back(i);
                        dest = i;
                    }
                } else if (c == "fdm" || c == "fdk") {
                    int i = std::stoi(t.at(1)), j = std::stoi(t.at(2));
                    // Add::from_dict wants a canonical dictionary: the key is a term (not a number, not a
                    // sum, no numeric coefficient of its own)
                    bool valid = slot_ok(i) && slot_ok(j) && !m.v[j].is_null() && i != j;
                    if (valid) {
                        const Basic &key = *m.v[j];
                        if (is_a_Number(key) || is_a<Add>(key)
                            || (is_a<Mul>(key) && !down_cast<const Mul &>(key).get_coef()->is_one()))
                            valid = false;
                    }
                    if (!valid)
                        note = "SKIP";
                    else {
                        RCP<const Number> coef = integer(integer_class(t.at(3)));
                        umap_basic_num d;
                        if (c == "fdm") {
                            d.insert(std::make_pair(std::move(m.v[j]), coef));
                            new (&m.v[j]) RCP<const Basic>(); // moved-from: already null; keep it well defined
                            written.push_back(j);
                        } else
                            d.insert(std::make_pair(m.v[j], coef));
                        coef.reset();
                        m.v[i] = Add::from_dict(zero, std::move(d));
                        written.push_back(i);
                        dest = i;
                    }
                } else
                    return out.str() + "|BADSTEP";
            } catch (const SymEngineException &) {
                note = "EXN";
                dest = -1;
            } catch (const std::exception &) {
                note = "EXN";
                dest = -1;
            }
            out << "|" << observe(m, dest, written);
            if (!note.empty())
                out << " " << note;
        }
        if (m.unknown_class)
            out << "|UNKNOWNCLASS";
        // the machine dies here: every handle is dropped
        std::string orc = m.oracle.str();
        long base = m.base_live;
        m.v.clear();
        m.idof.clear();
        long after = live_now() - base;
        if (after != 0)
            orc += " leak: " + std::to_string(after) + " objects alive after the last handle was dropped;";
        for (size_t i = 0; i < ext_objs.size(); i++)
            if (ext_objs[i]->use_count() != ext_rc0[i]) {
                orc += " use_count of a library constant did not return to its baseline;";
                break;
            }
        out << "|END L" << after;
        if (!orc.empty())
            out << "\t#ORACLE:" << orc;
    }
    return out.str();
}

// ---------------------------------------------------------------- API workloads (no model)
static std::string digest(const std::string &s)
{
    unsigned long long h = 1469598103934665603ULL;
    for (unsigned char c : s)
        h = mix(h, c);
    std::ostringstream o;
    o << s.size() << ":" << std::hex << h;
    return o.str();
}

static std::vector<std::string> split_sep(const std::string &s, const std::string &sep)
{
    std::vector<std::string> v;
    size_t st = 0;
    while (true) {
        size_t p = s.find(sep, st);
        if (p == std::string::npos) {
            v.push_back(s.substr(st));
            break;
        }
        v.push_back(s.substr(st, p - st));
        st = p + sep.size();
    }
    return v;
}

static std::string trim(const std::string &s)
{
    size_t a = s.find_first_not_of(" \t"), b = s.find_last_not_of(" \t");
    return a == std::string::npos ? "" : s.substr(a, b - a + 1);
}

// one workload operation; results are kept in `vals`
static std::string workload_op(const std::string &op, std::vector<RCP<const Basic>> &vals)
{
    std::string o = trim(op);
    size_t sp = o.find(' ');
    std::string cmd = o.substr(0, sp), rest = sp == std::string::npos ? "" : trim(o.substr(sp + 1));
    auto V = [&](const std::string &k) -> RCP<const Basic> {
        size_t i = (size_t)std::stoul(k);
        if (i >= vals.size())
            throw std::runtime_error("no such value");
        return vals[i];
    };
    std::vector<std::string> a = verif::split_ws(rest);
    try {
        if (cmd == "R") { // recipe
            vals.push_back(verif::eval_recipe(rest));
            return digest(vals.back()->__str__());
        }
        if (cmd == "str")
            return digest(V(a.at(0))->__str__());
        if (cmd == "prt") { // all printers
            RCP<const Basic> e = V(a.at(0));
            std::string s = e->__str__() + julia_str(*e) + sbml(*e) + ascii_art();
            try {
                s += ccode(*e);
            } catch (const SymEngineException &) {
            }
            try {
                s += latex(*e);
            } catch (const SymEngineException &) {
            }
            try {
                s += mathml(*e);
            } catch (const SymEngineException &) {
            }
            try {
                s += unicode(*e);
            } catch (const SymEngineException &) {
            }
            return digest(s);
        }
        if (cmd == "parse") {
            vals.push_back(parse(V(a.at(0))->__str__()));
            return digest(vals.back()->__str__());
        }
        if (cmd == "ptext") { // parse arbitrary text given in hex
            std::string txt;
            for (size_t i = 0; i + 1 < a.at(0).size(); i += 2)
                txt.push_back((char)std::stoi(a[0].substr(i, 2), nullptr, 16));
            vals.push_back(parse(txt));
            return digest(vals.back()->__str__());
        }
        if (cmd == "ser") {
            std::string d = V(a.at(0))->dumps();
            vals.push_back(Basic::loads(d));
            return std::string(eq(*vals.back(), *V(a.at(0))) ? "rt" : "RTDIFF") + digest(vals.back()->__str__());
        }
        if (cmd == "hash") {
            RCP<const Basic> e = V(a.at(0));
            std::ostringstream s;
            s << std::hex << e->hash() << ":" << e->__cmp__(*V(a.at(1))) << ":" << eq(*e, *V(a.at(1)));
            return s.str();
        }
        if (cmd == "series") {
            RCP<const Basic> e = V(a.at(0));
            auto s = series(e, symbol(a.at(1)), (unsigned)std::stoul(a.at(2)));
            vals.push_back(s->as_basic());
            return digest(vals.back()->__str__());
        }
        if (cmd == "solve") {
            RCP<const Set> s = solve(V(a.at(0)), symbol(a.at(1)));
            vals.push_back(s);
            return digest(s->__str__());
        }
        if (cmd == "upoly") {
            RCP<const Basic> x = symbol(a.at(1));
            RCP<const UIntPoly> p = from_basic<UIntPoly>(V(a.at(0)), x);
            RCP<const UIntPoly> q = mul_upoly(*p, *p);
            RCP<const UIntPoly> r = add_upoly(*q, *p);
            RCP<const UIntPoly> w = pow_upoly(*p, 3);
            vals.push_back(r->as_symbolic());
            return digest(r->__str__() + w->__str__());
        }
        if (cmd == "uratpoly") {
            RCP<const Basic> x = symbol(a.at(1));
            RCP<const URatPoly> p = from_basic<URatPoly>(V(a.at(0)), x);
            RCP<const URatPoly> q = mul_upoly(*p, *p);
            RCP<const URatPoly> out;
            bool dv = divides_upoly(*p, *q, outArg(out));
            vals.push_back(q->as_symbolic());
            return digest(q->__str__()) + (dv ? "d" : "n");
        }
        if (cmd == "mat") { // mat n k0 k1 ... (n*n values): det, inverse, product, transpose, LU
            unsigned n = (unsigned)std::stoul(a.at(0));
            vec_basic e;
            for (unsigned i = 0; i < n * n; i++)
                e.push_back(V(a.at(1 + i)));
            DenseMatrix A(n, n, e), B(n, n), C(n, n), L(n, n), U(n, n);
            std::string s = A.det()->__str__();
            A.transpose(B);
            A.mul_matrix(B, C);
            s += C.__str__();
            try {
                A.inv(B);
                s += B.__str__();
            } catch (const SymEngineException &) {
                s += "singular";
            }
            try {
                LU(A, L, U);
                s += U.__str__();
            } catch (const SymEngineException &) {
            }
            vals.push_back(C.get(0, 0));
            return digest(s);
        }
        if (cmd == "csr") { // csr n k0 ... : dense -> CSR, product, transpose
            unsigned n = (unsigned)std::stoul(a.at(0));
            vec_basic e;
            for (unsigned i = 0; i < n * n; i++)
                e.push_back(V(a.at(1 + i)));
            DenseMatrix A(n, n, e);
            CSRMatrix S(n, n), T(n, n), P(n, n);
            for (unsigned i = 0; i < n; i++)
                for (unsigned j = 0; j < n; j++)
                    if (neq(*A.get(i, j), *zero))
                        S.set(i, j, A.get(i, j));
            S.transpose(T);
            S.mul_matrix(T, P);
            vals.push_back(P.get(0, 0));
            return digest(P.__str__() + T.__str__());
        }
        if (cmd == "jac") { // jacobian of [v0, v1] wrt [x, y]
            vec_basic f{V(a.at(0)), V(a.at(1))}, xs{symbol("x"), symbol("y")};
            DenseMatrix F(2, 1, f), X(2, 1, xs), J(2, 2);
            jacobian(F, X, J);
            vals.push_back(J.get(0, 0));
            return digest(J.__str__());
        }
        if (cmd == "fsyms") {
            set_basic s = free_symbols(*V(a.at(0)));
            std::string r;
            for (auto &x : s)
                r += x->__str__() + ",";
            return digest(r);
        }
        if (cmd == "evalf") {
            RCP<const Basic> e = V(a.at(0));
            double d = eval_double(*e);
            return d == d ? "num" : "nan";
        }
        // ---- witnesses of memory-safety defects found by other properties (now fixed in /repo)
        if (cmd == "sieve") { // C33: generate_primes with a tiny segment
            Sieve::set_sieve_size((unsigned)std::stoul(a.at(0)));
            std::vector<unsigned> p;
            Sieve::generate_primes(p, (unsigned)std::stoul(a.at(1)));
            Sieve::set_sieve_size(32);
            return "primes" + std::to_string(p.size());
        }
        if (cmd == "sieveit") { // C33: iterator after clear
            Sieve::set_clear(true);
            Sieve::iterator it;
            unsigned last = 0;
            for (int i = 0; i < 12; i++)
                last = it.next_prime();
            std::vector<unsigned> p;
            Sieve::generate_primes(p, 50);
            Sieve::clear();
            for (int i = 0; i < 3; i++)
                last = it.next_prime();
            return "it" + std::to_string(last);
        }
        if (cmd == "upzero") { // C21: zero polynomial (empty dictionary)
            RCP<const Basic> x = symbol("x");
            RCP<const UIntPoly> z = UIntPoly::from_dict(x, {{}});
            RCP<const UIntPoly> q = mul_upoly(*z, *z);
            RCP<const UIntPoly> w = pow_upoly(*z, 2);
            integer_class v = z->eval(integer_class(3));
            return "z" + q->__str__() + w->__str__() + verif::zstr(v);
        }
        if (cmd == "fdiffw") { // C38: finite-difference weights on an empty grid
            vec_basic grid;
            try {
                vec_basic w = generate_fdiff_weights_vector(grid, 0, zero);
                return "w" + std::to_string(w.size());
            } catch (const SymEngineException &) {
                return "EXN:6";
            }
        }
        return "BADCMD";
    } catch (...) {
        return verif::exn_name();
    }
}

static std::string run_workload_once(const std::vector<std::string> &ops)
{
    std::vector<RCP<const Basic>> vals;
    std::string out;
    for (size_t i = 0; i < ops.size(); i++)
        out += (i ? ";" : "") + workload_op(ops[i], vals);
    return out;
}

static std::string run_workload(const std::string &line)
{
    std::vector<std::string> ops = split_sep(line.substr(1), ";;");
    // first run: also builds whatever static tables the operations need; second run must not grow
    std::string r1 = run_workload_once(ops);
    long c1 = live_now();
    std::string r2 = run_workload_once(ops);
    long c2 = live_now();
    std::string out = r2;
    std::string orc;
    if (r1 != r2)
        orc += " the same operations gave different results when repeated;";
#ifdef SYMENGINE_VERIF_LIVE_OBJECTS
    if (c2 != c1)
        orc += " leak: " + std::to_string(c2 - c1) + " more objects alive after repeating the workload;";
#endif
#ifdef HAVE_LSAN
    if (__lsan_do_recoverable_leak_check())
        orc += " LeakSanitizer reports unreachable memory;";
#endif
    if (!orc.empty())
        out += "\t#ORACLE:" + orc;
    return out;
}

static std::string run_line(const std::string &line)
{
    if (line.empty())
        return "EMPTY";
    if (line[0] == 'P')
        return run_program(line);
    if (line[0] == 'W')
        return run_workload(line);
    return "BADLINE";
}

// one forked child runs lines[pos..end); every finished case is written to the pipe at once, so a
// crash loses only the case being processed.  The sanitizer's report (stderr of the child) is
// summarised in the crash marker.
static std::string run_batch(const std::vector<std::string> &lines, size_t pos, size_t end)
{
    int fd[2];
    if (pipe(fd) != 0)
        return "PIPEFAIL";
    char errname[] = "/tmp/rcp_drv_XXXXXX";
    int efd = mkstemp(errname);
    fflush(stdout);
    pid_t pid = fork();
    if (pid == 0) {
        close(fd[0]);
        struct rlimit rl;
        rl.rlim_cur = rl.rlim_max = 0;
        setrlimit(RLIMIT_CORE, &rl);
        if (efd >= 0)
            dup2(efd, 2);
        for (size_t i = pos; i < end; i++) {
            alarm(300);
            std::string s;
            try {
                s = run_line(lines[i]);
            } catch (...) {
                s = "UNCAUGHT";
            }
            s += "\n";
            size_t off = 0;
            while (off < s.size()) {
                ssize_t w = write(fd[1], s.data() + off, s.size() - off);
                if (w <= 0)
                    break;
                off += (size_t)w;
            }
        }
        close(fd[1]);
        _exit(0);
    }
    close(fd[1]);
    std::string out;
    char buf[65536];
    ssize_t r;
    while ((r = read(fd[0], buf, sizeof buf)) > 0)
        out.append(buf, (size_t)r);
    close(fd[0]);
    int status = 0;
    waitpid(pid, &status, 0);
    std::string marker;
    if (WIFSIGNALED(status))
        marker = WTERMSIG(status) == SIGALRM ? "HANG" : "CRASH:" + std::to_string(WTERMSIG(status));
    else if (WIFEXITED(status) && WEXITSTATUS(status) != 0)
        marker = "CRASH:exit" + std::to_string(WEXITSTATUS(status));
    if (!marker.empty() && efd >= 0) {
        // first sanitizer headline, if any
        lseek(efd, 0, SEEK_SET);
        std::string err;
        while ((r = read(efd, buf, sizeof buf)) > 0 && err.size() < 200000)
            err.append(buf, (size_t)r);
        size_t p = err.find("ERROR: ");
        if (p == std::string::npos)
            p = err.find("runtime error:");
        if (p == std::string::npos) {
            // abort() chatter that tells resource exhaustion / toolchain assertions from memory errors:
            // "gmp: overflow in mpz type", "GNU MP: Cannot allocate memory", libstdc++ "...: Assertion '...' failed."
            for (const char *pat : {"gmp: overflow", "GNU MP: Cannot", "Assertion '"}) {
                size_t q = err.find(pat);
                if (q != std::string::npos) {
                    p = err.rfind('\n', q);
                    p = (p == std::string::npos) ? 0 : p + 1;
                    break;
                }
            }
        }
        if (p != std::string::npos) {
            std::string h = err.substr(p, err.find('\n', p) - p);
            for (char &c : h)
                if (c == '\t')
                    c = ' ';
            marker += " " + (h.size() > 260 ? h.substr(0, 100) + " ... " + h.substr(h.size() - 150) : h);
        }
    }
    if (efd >= 0) {
        close(efd);
        unlink(errname);
    }
    return out + marker;
}

// cases are processed in batches, one forked child per batch; after a crash the batch resumes
// behind the crashing case in a fresh child
int main()
{
    init_externals();
    std::vector<std::string> lines;
    std::string line;
    while (std::getline(std::cin, line))
        lines.push_back(line);
    if (getenv("RCP_NOFORK")) { // debugging aid: run in-process so that a sanitizer report reaches stderr
        for (const std::string &l : lines)
            std::cout << run_line(l) << std::endl;
        return 0;
    }
    const size_t BATCH = 20;
    size_t pos = 0;
    while (pos < lines.size()) {
        size_t end = std::min(lines.size(), pos + BATCH);
        std::string r = run_batch(lines, pos, end);
        // r = complete lines + optional CRASH/HANG marker
        size_t done = 0;
        size_t st = 0;
        std::vector<std::string> got;
        while (true) {
            size_t p = r.find('\n', st);
            if (p == std::string::npos)
                break;
            got.push_back(r.substr(st, p - st));
            st = p + 1;
        }
        std::string tail = r.substr(st);
        done = got.size();
        for (size_t i = 0; i < done && pos + i < end; i++)
            std::cout << got[i] << "\n";
        if (pos + done < end) {
            // the child died in case pos+done
            std::cout << (tail.empty() ? "CRASH:?" : tail) << "\n";
            pos = pos + done + 1;
        } else
            pos = end;
        std::cout.flush();
    }
    return 0;
}
