// C10 driver: differentiation (symengine/derivative.cpp).
//
// Input lines (tab separated):
//   D <x-recipe> <e-recipe>
//       evaluates x (a Symbol/Dummy) and e through the public API and prints
//         dump(x) \t dump(e) \t R:<dump_sorted(diff(e, x))> | EXN:<k>   [\t#ORACLE:<what>]...
//       The property oracle runs on the library's results alone:
//         absent   has_symbol(e, x) == false  but diff(e, x) is not the Integer 0
//         cache    diff(e, x, true) and diff(e, x, false) are not eq
//         exact    e is a rational function of its symbols: forward-mode dual numbers over Q at
//                  rational points (own implementation below) give a different derivative value
//         numeric  central finite differences of e (after replacing undefined functions by fixed
//                  concrete ones and carrying out unevaluated Derivative/Subs objects in e and in the
//                  result) disagree with the value of the result, at several points and step sizes
//   E <x-recipe> <e-recipe> <program>
//       re-evaluates x and e, evaluates the model's construction term <program> with the library's
//       own constructors and compares the result with diff(e, x):
//         EXACT | EXPAND (equal after expand(a - b)) | NUMERIC (equal at sample points) |
//         MISMATCH impl=<..> model=<..> | EXN:<k> (both threw class k) | EXNDIFF impl=<..> model=<..>
//   P <kind> <var> <wrt> <terms>        polynomial classes, see run_poly below
#include <symengine/basic.h>
#include <symengine/add.h>
#include <symengine/mul.h>
#include <symengine/pow.h>
#include <symengine/functions.h>
#include <symengine/logic.h>
#include <symengine/sets.h>
#include <symengine/complex.h>
#include <symengine/complex_double.h>
#include <symengine/real_double.h>
#include <symengine/infinity.h>
#include <symengine/nan.h>
#include <symengine/constants.h>
#include <symengine/visitor.h>
#include <symengine/derivative.h>
#include <symengine/eval_double.h>
#include <symengine/polys/uintpoly.h>
#include <symengine/polys/uratpoly.h>
#include <symengine/polys/uexprpoly.h>
#include <symengine/polys/msymenginepoly.h>
#include <symengine/symengine_exception.h>
#include <complex>
#include <cmath>
#include "common.h"
#include "dump.h"
#include "recipe.h"
using namespace SymEngine;
using verif::Sexp;

typedef std::map<std::string, RCP<const Basic>> LeafTable;

static std::vector<std::string> split_tab(const std::string &s)
{
    std::vector<std::string> v;
    size_t st = 0;
    while (true) {
        size_t p = s.find('\t', st);
        if (p == std::string::npos) {
            v.push_back(s.substr(st));
            break;
        }
        v.push_back(s.substr(st, p - st));
        st = p + 1;
    }
    return v;
}

// ---------------------------------------------------------------- leaves of model programs
// every sub-tree of b, walked the way dump() walks it
static void collect(const RCP<const Basic> &b, LeafTable &t)
{
    std::string d = verif::dump(*b);
    if (t.count(d))
        return;
    t[d] = b;
    if (is_a<Add>(*b)) {
        for (const auto &p : down_cast<const Add &>(*b).get_dict())
            collect(p.first, t);
    } else if (is_a<Mul>(*b)) {
        for (const auto &p : down_cast<const Mul &>(*b).get_dict()) {
            collect(p.first, t);
            collect(p.second, t);
        }
    } else if (is_a<Pow>(*b)) {
        collect(down_cast<const Pow &>(*b).get_base(), t);
        collect(down_cast<const Pow &>(*b).get_exp(), t);
    } else if (is_a<Subs>(*b)) {
        const Subs &s = down_cast<const Subs &>(*b);
        collect(s.get_arg(), t);
        for (const auto &p : s.get_dict()) {
            collect(p.first, t);
            collect(p.second, t);
        }
    } else if (is_a<Piecewise>(*b)) {
        for (const auto &p : down_cast<const Piecewise &>(*b).get_vec()) {
            collect(p.first, t);
            collect(p.second, t);
        }
    } else if (is_a_Number(*b) or is_a<Symbol>(*b) or is_a<Dummy>(*b) or is_a<Constant>(*b)) {
    } else {
        for (const auto &a : b->get_args())
            collect(a, t);
    }
}

static std::string sexp_str(const Sexp &e)
{
    if (e.is_atom)
        return e.atom;
    std::string s = "(";
    for (size_t i = 0; i < e.kids.size(); i++)
        s += (i ? " " : "") + sexp_str(e.kids[i]);
    return s + ")";
}

static std::string unhex(const std::string &h)
{
    std::string o;
    for (size_t i = 1; i + 1 < h.size(); i += 2)
        o += (char)std::stoi(h.substr(i, 2), nullptr, 16);
    return o;
}

static RCP<const Basic> build_leaf(const Sexp &e, const LeafTable &t)
{
    std::string d = sexp_str(e);
    auto it = t.find(d);
    if (it != t.end())
        return it->second;
    if (e.is_atom || e.kids.empty() || !e.kids[0].is_atom)
        throw std::runtime_error("leaf: bad dump " + d);
    const std::string &k = e.kids[0].atom;
    if (k == "I")
        return integer(integer_class(e.kids.at(1).atom));
    if (k == "Q")
        return Rational::from_two_ints(*integer(integer_class(e.kids.at(1).atom)),
                                       *integer(integer_class(e.kids.at(2).atom)));
    if (k == "C")
        return Complex::from_two_nums(
            *Rational::from_two_ints(*integer(integer_class(e.kids.at(1).atom)), *integer(integer_class(e.kids.at(2).atom))),
            *Rational::from_two_ints(*integer(integer_class(e.kids.at(3).atom)), *integer(integer_class(e.kids.at(4).atom))));
    if (k == "D")
        return real_double(verif::dbl_of_hex(e.kids.at(1).atom));
    if (k == "CD")
        return complex_double(std::complex<double>(verif::dbl_of_hex(e.kids.at(1).atom), verif::dbl_of_hex(e.kids.at(2).atom)));
    if (k == "Inf") {
        const std::string &d = e.kids.at(1).atom;
        return d == "1" ? (RCP<const Basic>)Inf : d == "-1" ? (RCP<const Basic>)NegInf : (RCP<const Basic>)ComplexInf;
    }
    if (k == "NaN")
        return Nan;
    if (k == "Mul") {
        // a product of existing factors: Mul::from_dict(coef, {entries}) (the entries are reused as they are)
        RCP<const Basic> c = build_leaf(e.kids.at(1), t);
        map_basic_basic d;
        for (size_t i = 2; i < e.kids.size(); i++)
            insert(d, build_leaf(e.kids[i].kids.at(0), t), build_leaf(e.kids[i].kids.at(1), t));
        return Mul::from_dict(rcp_static_cast<const Number>(c), std::move(d));
    }
    if (k == "Sym")
        return symbol(unhex(e.kids.at(1).atom));
    if (k == "Const") {
        std::string n = unhex(e.kids.at(1).atom);
        if (n == "pi") return pi;
        if (n == "E") return E;
        if (n == "EulerGamma") return EulerGamma;
        if (n == "Catalan") return Catalan;
        if (n == "GoldenRatio") return GoldenRatio;
    }
    throw std::runtime_error("leaf: not a sub-tree of the input: " + d);
}

struct ModelExn {
    std::string cls;
};

static bool is_zero_basic(const RCP<const Basic> &b)
{
    return eq(*b, *zero);
}

static RCP<const Basic> eval_cx(const Sexp &e, const LeafTable &t)
{
    if (e.is_atom || e.kids.empty() || !e.kids[0].is_atom)
        throw std::runtime_error("program: bad form");
    const std::string &op = e.kids[0].atom;
    auto arg = [&](size_t i) { return eval_cx(e.kids.at(i), t); };
    if (op == "E") return build_leaf(e.kids.at(1), t);
    if (op == "add") { auto a = arg(1); auto b = arg(2); return add(a, b); }
    if (op == "sub") { auto a = arg(1); auto b = arg(2); return sub(a, b); }
    if (op == "mul") { auto a = arg(1); auto b = arg(2); return mul(a, b); }
    if (op == "div") { auto a = arg(1); auto b = arg(2); return div(a, b); }
    if (op == "pow") { auto a = arg(1); auto b = arg(2); return pow(a, b); }
    if (op == "neg") return neg(arg(1));
    if (op == "fn") {
        const std::string &name = e.kids.at(1).atom;
        if (e.kids.size() == 3) {
            auto it = verif::f1_table().find(name);
            if (it == verif::f1_table().end())
                throw std::runtime_error("program: unknown function " + name);
            return it->second(arg(2));
        }
        auto it = verif::f2_table().find(name);
        if (it == verif::f2_table().end() || e.kids.size() != 4)
            throw std::runtime_error("program: unknown function " + name);
        auto a = arg(2);
        auto b = arg(3);
        return it->second(a, b);
    }
    if (op == "create") {
        RCP<const Basic> self = arg(1);
        vec_basic v;
        for (size_t i = 2; i < e.kids.size(); i++)
            v.push_back(arg(i));
        if (is_a_sub<OneArgFunction>(*self) && v.size() == 1)
            return down_cast<const OneArgFunction &>(*self).create(v[0]);
        if (is_a_sub<TwoArgFunction>(*self) && v.size() == 2)
            return down_cast<const TwoArgFunction &>(*self).create(v[0], v[1]);
        if (is_a_sub<MultiArgFunction>(*self))
            return down_cast<const MultiArgFunction &>(*self).create(v);
        throw std::runtime_error("program: create on a non-function");
    }
    if (op == "deriv") {
        RCP<const Basic> a = arg(1);
        multiset_basic xs;
        for (size_t i = 2; i < e.kids.size(); i++)
            xs.insert(arg(i));
        return Derivative::create(a, xs);
    }
    if (op == "subsobj") {
        RCP<const Basic> a = arg(1);
        map_basic_basic m;
        for (size_t i = 2; i < e.kids.size(); i++) {
            auto k = eval_cx(e.kids[i].kids.at(0), t);
            auto v = eval_cx(e.kids[i].kids.at(1), t);
            insert(m, k, v);
        }
        return make_rcp<const Subs>(a, m);
    }
    if (op == "subst") {
        RCP<const Basic> a = arg(1);
        map_basic_basic m;
        for (size_t i = 2; i < e.kids.size(); i++) {
            auto k = eval_cx(e.kids[i].kids.at(0), t);
            auto v = eval_cx(e.kids[i].kids.at(1), t);
            insert(m, k, v);
        }
        return a->subs(m);
    }
    if (op == "diff") {
        RCP<const Basic> a = arg(1);
        RCP<const Basic> x = arg(2);
        if (!is_a_sub<Symbol>(*x))
            throw std::runtime_error("program: diff wrt non-symbol");
        return diff(a, rcp_static_cast<const Symbol>(x));
    }
    if (op == "pw") {
        PiecewiseVec v;
        for (size_t i = 1; i < e.kids.size(); i++) {
            auto a = eval_cx(e.kids[i].kids.at(0), t);
            auto c = eval_cx(e.kids[i].kids.at(1), t);
            v.push_back({a, verif::as_bool(c)});
        }
        return piecewise(std::move(v));
    }
    if (op == "ifzero") {
        RCP<const Basic> c = arg(1);
        return is_zero_basic(c) ? arg(2) : arg(3);
    }
    if (op == "ifallzero") {
        bool all = true;
        for (const auto &k : e.kids.at(1).kids)
            if (!is_zero_basic(eval_cx(k, t)))
                all = false;
        return all ? arg(2) : arg(3);
    }
    if (op == "ifderivof") {
        RCP<const Basic> c = arg(1);
        RCP<const Basic> a = arg(2);
        bool yes = is_a<Derivative>(*c) && eq(*down_cast<const Derivative &>(*c).get_arg(), *a);
        return yes ? arg(3) : arg(4);
    }
    if (op == "err")
        throw ModelExn{e.kids.at(1).atom};
    throw std::runtime_error("program: unknown op " + op);
}

// ---------------------------------------------------------------- numeric evaluation
// undefined functions -> fixed smooth concrete functions of their arguments; unevaluated
// Derivative / Subs objects are carried out.  Throws when a node cannot be treated.
static RCP<const Basic> concretize(const RCP<const Basic> &b);

static vec_basic concretize_all(const vec_basic &v)
{
    vec_basic r;
    for (const auto &a : v)
        r.push_back(concretize(a));
    return r;
}

static int concretize_depth = 0;
struct DepthGuard {
    DepthGuard()
    {
        if (++concretize_depth > 200) {
            concretize_depth = 0;
            throw std::runtime_error("concretize: too deep");
        }
    }
    ~DepthGuard()
    {
        if (concretize_depth > 0)
            --concretize_depth;
    }
};

static RCP<const Basic> concretize(const RCP<const Basic> &b)
{
    DepthGuard guard;
    if (is_a_Number(*b) or is_a_sub<Symbol>(*b) or is_a<Constant>(*b))
        return b;
    if (is_a<Add>(*b))
        return add(concretize_all(b->get_args()));
    if (is_a<Mul>(*b))
        return mul(concretize_all(b->get_args()));
    if (is_a<Pow>(*b))
        return pow(concretize(down_cast<const Pow &>(*b).get_base()), concretize(down_cast<const Pow &>(*b).get_exp()));
    if (is_a<FunctionSymbol>(*b)) {
        const FunctionSymbol &f = down_cast<const FunctionSymbol &>(*b);
        vec_basic a = concretize_all(f.get_vec());
        unsigned h = 0;
        for (unsigned char c : f.get_name())
            h = h * 31 + c;
        // F(a1..an) = sum_i sin(a_i + c_i) * (1 + a_{i+1}/3) + a_1^2/5
        RCP<const Basic> r = div(pow(a[0], integer(2)), integer(5));
        for (size_t i = 0; i < a.size(); i++) {
            RCP<const Basic> ci = Rational::from_two_ints(*integer((long)((h + 3 * i) % 7) + 1), *integer(4));
            r = add(r, mul(sin(add(a[i], ci)), add(one, div(a[(i + 1) % a.size()], integer(3)))));
        }
        return r;
    }
    if (is_a<Derivative>(*b)) {
        const Derivative &d = down_cast<const Derivative &>(*b);
        RCP<const Basic> r = concretize(d.get_arg());
        for (const auto &s : d.get_symbols()) {
            if (!is_a_sub<Symbol>(*s))
                throw std::runtime_error("derivative wrt non-symbol");
            RCP<const Basic> r2 = r->diff(rcp_static_cast<const Symbol>(s));
            if (is_a<Derivative>(*r2))
                throw std::runtime_error("derivative stays unevaluated");
            r = concretize(r2);
        }
        return r;
    }
    if (is_a<Subs>(*b)) {
        const Subs &s = down_cast<const Subs &>(*b);
        RCP<const Basic> a = concretize(s.get_arg());
        map_basic_basic m;
        for (const auto &p : s.get_dict())
            insert(m, p.first, concretize(p.second));
        RCP<const Basic> r = a->subs(m);
        if (is_a<Subs>(*r))
            throw std::runtime_error("substitution stays unevaluated");
        return concretize(r);
    }
    if (is_a_sub<OneArgFunction>(*b))
        return down_cast<const OneArgFunction &>(*b).create(concretize(down_cast<const OneArgFunction &>(*b).get_arg()));
    if (is_a_sub<TwoArgFunction>(*b)) {
        const TwoArgFunction &f = down_cast<const TwoArgFunction &>(*b);
        return f.create(concretize(f.get_arg1()), concretize(f.get_arg2()));
    }
    if (is_a_sub<MultiArgFunction>(*b))
        return down_cast<const MultiArgFunction &>(*b).create(concretize_all(b->get_args()));
    throw std::runtime_error("concretize: unsupported node");
}

static void free_syms(const RCP<const Basic> &b, set_basic &s)
{
    for (const auto &x : free_symbols(*b))
        s.insert(x);
}

typedef std::complex<double> cplx;

static bool eval_at(const RCP<const Basic> &b, const map_basic_basic &pt, cplx &out, bool real_only = false)
{
    try {
        RCP<const Basic> v = b->subs(pt);
        if (real_only) {
            // real evaluation: NaN as soon as a sub-expression leaves its real domain
            out = cplx(eval_double(*v), 0.0);
            return std::isfinite(out.real());
        }
        try {
            out = eval_complex_double(*v);
        } catch (...) {
            out = cplx(eval_double(*v), 0.0);
        }
        return std::isfinite(out.real()) && std::isfinite(out.imag());
    } catch (...) {
        return false;
    }
}

static double rel_err(cplx a, cplx b)
{
    double sc = std::max(1.0, std::max(std::abs(a), std::abs(b)));
    return std::abs(a - b) / sc;
}

// returns "" (fine / undecided) or a description of a confirmed disagreement.
// complex_pts = false: real sample points, only points where e and the result take real values
//   (inside the real domain of every function involved) count;
// complex_pts = true: generic complex points (off every branch cut).
// agreed = number of points where both sides could be evaluated and agreed
static std::string numeric_oracle(const RCP<const Basic> &e, const RCP<const Basic> &d, const RCP<const Symbol> &x,
                                  bool complex_pts, int &agreed)
{
    agreed = 0;
    set_basic syms;
    free_syms(e, syms);
    free_syms(d, syms);
    syms.insert(x);
    static const double base[] = {0.37, 0.61, 1.27, -0.43, 0.83, 1.91, -1.13, 0.19, 2.3, 0.52};
    static const double ibase[] = {0.29, -0.47, 0.73, 0.31, -0.67, 0.41, 0.53, -0.23, 0.37, 0.59};
    int bad = 0;
    std::string first;
    for (int k = 0; k < 6; k++) {
        map_basic_basic pt;
        cplx x0 = 0;
        int j = 0;
        for (const auto &s : syms) {
            int idx = (j * 3 + k * 7 + (int)(s->hash() % 5)) % 10;
            cplx v(base[idx] * (1.0 + 0.13 * k), complex_pts ? ibase[(idx + k) % 10] : 0.0);
            if (eq(*s, *x))
                x0 = v;
            else
                pt[s] = complex_pts ? (RCP<const Basic>)complex_double(v) : (RCP<const Basic>)real_double(v.real());
            j++;
        }
        auto num = [&](cplx v) { return complex_pts ? (RCP<const Basic>)complex_double(v) : (RCP<const Basic>)real_double(v.real()); };
        cplx dv;
        map_basic_basic p0 = pt;
        p0[x] = num(x0);
        if (!eval_at(d, p0, dv, !complex_pts))
            continue;
        cplx fd[2];
        bool ok = true;
        const double hs[2] = {1e-4, 1e-6};
        for (int q = 0; q < 2 && ok; q++) {
            double h = hs[q] * std::max(1.0, std::abs(x0));
            map_basic_basic pp = pt, pm = pt;
            pp[x] = num(x0 + h);
            pm[x] = num(x0 - h);
            cplx fp, fm;
            ok = eval_at(e, pp, fp, !complex_pts) && eval_at(e, pm, fm, !complex_pts);
            if (ok && !complex_pts && (std::fabs(fp.imag()) > 1e-12 || std::fabs(fm.imag()) > 1e-12 || std::fabs(dv.imag()) > 1e-12))
                ok = false; // outside the real domain
            if (ok)
                fd[q] = (fp - fm) / (2 * h);
            // rounding error of the difference quotient must be far below the tolerance
            if (ok && 2.3e-16 * std::max(std::abs(fp), std::abs(fm)) / h > 1e-7 * std::max(1.0, std::abs(dv)))
                ok = false;
        }
        if (!ok)
            continue;
        if (rel_err(fd[0], fd[1]) > 1e-5)
            continue; // the finite differences are not trustworthy here (branch cut, pole, cancellation)
        if (rel_err(fd[1], dv) < 1e-4 && rel_err(fd[0], dv) < 1e-4) {
            agreed++;
        } else if (rel_err(fd[1], dv) > 1e-3 && rel_err(fd[0], dv) > 1e-3) {
            bad++;
            if (first.empty()) {
                std::ostringstream o;
                o.precision(12);
                o << "at " << *x << "=" << *num(x0);
                for (const auto &p : pt)
                    o << "," << *p.first << "=" << *p.second;
                o << ": diff evaluates to " << dv.real() << (dv.imag() < 0 ? "" : "+") << dv.imag()
                  << "i, central differences give " << fd[1].real() << (fd[1].imag() < 0 ? "" : "+") << fd[1].imag() << "i";
                first = o.str();
            }
        }
    }
    if (bad >= 2 && bad > agreed)
        return first;
    return "";
}

// numeric equality of two expressions at sample points (tie, tier NUMERIC)
static bool numerically_equal(const RCP<const Basic> &a0, const RCP<const Basic> &b0)
{
    RCP<const Basic> a, b;
    try {
        a = concretize(a0);
        b = concretize(b0);
    } catch (...) {
        return false;
    }
    set_basic syms;
    free_syms(a, syms);
    free_syms(b, syms);
    static const double base[] = {0.37, 0.61, 1.27, -0.43, 0.83, 1.91, -1.13, 0.19, 2.3, 0.52};
    int good = 0;
    for (int k = 0; k < 6; k++) {
        map_basic_basic pt;
        int j = 0;
        for (const auto &s : syms) {
            pt[s] = real_double(base[(j * 3 + k * 7) % 10] * (1.0 + 0.11 * k));
            j++;
        }
        cplx va, vb;
        bool oa = eval_at(a, pt, va), ob = eval_at(b, pt, vb);
        if (oa != ob)
            return false;
        if (!oa)
            continue;
        if (rel_err(va, vb) > 1e-9)
            return false;
        good++;
    }
    return good >= 3;
}

// ---------------------------------------------------------------- exact oracle: dual numbers over Q
struct Dual {
    rational_class v, d;
};
struct NotRational {
};

static Dual dual_pow_int(const Dual &b, long n)
{
    // (v, d)^n = (v^n, n v^(n-1) d)
    if (n == 0)
        return Dual{rational_class(1), rational_class(0)};
    bool negp = n < 0;
    unsigned long m = negp ? (unsigned long)(-n) : (unsigned long)n;
    rational_class vm1(1); // v^(m-1)
    for (unsigned long i = 0; i + 1 < m; i++)
        vm1 *= b.v;
    Dual r{vm1 * b.v, rational_class((long)m) * vm1 * b.d};
    if (negp) {
        if (r.v == 0)
            throw NotRational();
        // 1/(p): (1/p, -p'/p^2)
        Dual q{rational_class(1) / r.v, -r.d / (r.v * r.v)};
        return q;
    }
    return r;
}

static rational_class q_of_number(const Basic &n)
{
    if (is_a<Integer>(n))
        return rational_class(down_cast<const Integer &>(n).as_integer_class());
    if (is_a<Rational>(n))
        return down_cast<const Rational &>(n).as_rational_class();
    throw NotRational();
}

static Dual dual_eval(const Basic &b, const std::map<std::string, rational_class> &pt, const Basic &x)
{
    if (is_a<Integer>(b) or is_a<Rational>(b))
        return Dual{q_of_number(b), rational_class(0)};
    if (is_a_sub<Symbol>(b)) {
        auto it = pt.find(verif::dump(b));
        if (it == pt.end())
            throw NotRational();
        return Dual{it->second, rational_class(eq(b, x) ? 1 : 0)};
    }
    if (is_a<Add>(b)) {
        const Add &a = down_cast<const Add &>(b);
        Dual r{q_of_number(*a.get_coef()), rational_class(0)};
        for (const auto &p : a.get_dict()) {
            Dual t = dual_eval(*p.first, pt, x);
            rational_class c = q_of_number(*p.second);
            r.v += c * t.v;
            r.d += c * t.d;
        }
        return r;
    }
    if (is_a<Mul>(b)) {
        const Mul &a = down_cast<const Mul &>(b);
        Dual r{q_of_number(*a.get_coef()), rational_class(0)};
        for (const auto &p : a.get_dict()) {
            if (!is_a<Integer>(*p.second))
                throw NotRational();
            long n = mp_get_si(down_cast<const Integer &>(*p.second).as_integer_class());
            if (n > 40 || n < -40)
                throw NotRational();
            Dual t = dual_pow_int(dual_eval(*p.first, pt, x), n);
            Dual s{r.v * t.v, r.v * t.d + r.d * t.v};
            r = s;
        }
        return r;
    }
    if (is_a<Pow>(b)) {
        const Pow &p = down_cast<const Pow &>(b);
        if (!is_a<Integer>(*p.get_exp()))
            throw NotRational();
        long n = mp_get_si(down_cast<const Integer &>(*p.get_exp()).as_integer_class());
        if (n > 40 || n < -40)
            throw NotRational();
        return dual_pow_int(dual_eval(*p.get_base(), pt, x), n);
    }
    throw NotRational();
}

// "" or a description; exact_points counts the points compared
static std::string exact_oracle(const RCP<const Basic> &e, const RCP<const Basic> &d, const RCP<const Symbol> &x, int &exact_points)
{
    exact_points = 0;
    set_basic syms;
    free_syms(e, syms);
    syms.insert(x);
    static const long nums[] = {2, -3, 5, 1, 7, -5, 3, 4};
    static const long dens[] = {3, 2, 7, 5, 4, 3, 11, 9};
    for (int k = 0; k < 3; k++) {
        std::map<std::string, rational_class> pt;
        map_basic_basic m;
        int j = 0;
        for (const auto &s : syms) {
            int i = (j * 3 + k * 5) % 8;
            rational_class q(nums[i], dens[i]);
            canonicalize(q);
            pt[verif::dump(*s)] = q;
            m[s] = Rational::from_mpq(q);
            j++;
        }
        Dual r;
        try {
            r = dual_eval(*e, pt, *x);
        } catch (NotRational &) {
            return "";
        }
        RCP<const Basic> dv;
        try {
            dv = d->subs(m);
            if (!is_a<Integer>(*dv) && !is_a<Rational>(*dv))
                dv = expand(dv);
        } catch (...) {
            continue;
        }
        if (!is_a<Integer>(*dv) && !is_a<Rational>(*dv))
            continue;
        exact_points++;
        if (q_of_number(*dv) != r.d) {
            std::ostringstream o;
            o << "exact dual-number derivative at";
            for (const auto &p : m)
                o << " " << *p.first << "=" << *p.second;
            o << " is " << *Rational::from_mpq(r.d) << " but diff evaluates to " << *dv;
            return o.str();
        }
    }
    return "";
}

// ---------------------------------------------------------------- modes
// the recipe atom __X stands for the differentiation variable (needed for Dummy variables, which a
// recipe cannot mention twice)
static RCP<const Basic> eval_expr(const std::string &r, const RCP<const Symbol> &x)
{
    RCP<const Basic> e = verif::eval_recipe(r);
    if (r.find("__X") != std::string::npos) {
        map_basic_basic m;
        m[symbol("__X")] = x;
        e = e->xreplace(m);
    }
    return e;
}

static RCP<const Symbol> eval_var(const std::string &r)
{
    RCP<const Basic> x = verif::eval_recipe(r);
    if (!is_a_sub<Symbol>(*x))
        throw std::runtime_error("variable is not a symbol");
    return rcp_static_cast<const Symbol>(x);
}

// like verif::run_forked, but the child writes its output piecewise (what was written before a crash
// survives): f gets a writer
static std::string run_forked_stream(const std::function<void(const std::function<void(const std::string &)> &)> &f,
                                     unsigned timeout_s)
{
    int fd[2];
    if (pipe(fd) != 0)
        return "PIPEFAIL";
    fflush(stdout);
    pid_t pid = fork();
    if (pid == 0) {
        close(fd[0]);
        alarm(timeout_s);
        struct rlimit rl;
        rl.rlim_cur = rl.rlim_max = 0;
        setrlimit(RLIMIT_CORE, &rl);
        auto w = [&](const std::string &s) {
            size_t off = 0;
            while (off < s.size()) {
                ssize_t k = write(fd[1], s.data() + off, s.size() - off);
                if (k <= 0)
                    break;
                off += (size_t)k;
            }
        };
        try {
            f(w);
        } catch (...) {
            w("UNCAUGHT");
        }
        close(fd[1]);
        _exit(0);
    }
    close(fd[1]);
    std::string out;
    char buf[65536];
    ssize_t r;
    while ((r = read(fd[0], buf, sizeof buf)) > 0)
        out.append(buf, (size_t)r);
    close(fd[0]);
    int status = 0;
    waitpid(pid, &status, 0);
    if (WIFSIGNALED(status)) {
        int sig = WTERMSIG(status);
        if (sig == SIGALRM)
            return out + "HANG";
        return out + "CRASH:" + std::to_string(sig);
    }
    return out;
}

static std::string run_D(const RCP<const Symbol> &x, const RCP<const Basic> &e)
{
    std::ostringstream o;
    RCP<const Basic> d, d2;
    std::string ex1, ex2;
    try {
        d = diff(e, x, true);
    } catch (...) {
        ex1 = verif::exn_name();
    }
    try {
        d2 = diff(e, x, false);
    } catch (...) {
        ex2 = verif::exn_name();
    }
    if (!ex1.empty())
        o << ex1;
    else
        o << "R:" << verif::dump_sorted(*d);
    // ---- oracle
    if (ex1 != ex2 || (ex1.empty() && !eq(*d, *d2))) {
        o << "\t#ORACLE:cache: diff(e, x, cache=true) = " << (ex1.empty() ? d->__str__() : ex1)
          << " but diff(e, x, cache=false) = " << (ex2.empty() ? d2->__str__() : ex2);
    }
    if (!ex1.empty() && !has_symbol(*e, *x))
        o << "\t#INFO:occurs=0\t#ORACLE:absent: has_symbol(e, x) is false but diff(e, x) throws " << ex1 << " for e = " << *e;
    if (ex1.empty()) {
        bool occ = has_symbol(*e, *x);
        o << "\t#INFO:occurs=" << (occ ? 1 : 0);
        if (!occ && !eq(*d, *zero))
            o << "\t#ORACLE:absent: has_symbol(e, x) is false but diff(e, x) = " << *d << " for e = " << *e;
        int np = 0, na = 0;
        std::string w = exact_oracle(e, d, x, np);
        o << "\t#INFO:exact_points=" << np;
        if (!w.empty())
            o << "\t#ORACLE:exact: " << w << " (e = " << *e << ", diff = " << *d << ")";
        RCP<const Basic> ce, cd;
        bool conc = true;
        try {
            ce = concretize(e);
            cd = concretize(d);
        } catch (...) {
            conc = false;
        }
        if (conc) {
            int nc = 0;
            std::string n = numeric_oracle(ce, cd, x, false, na);
            o << "\t#INFO:numeric_points=" << na;
            if (!n.empty())
                o << "\t#ORACLE:numeric-real: " << n << " (e = " << *e << ", diff = " << *d << ")";
            std::string c = numeric_oracle(ce, cd, x, true, nc);
            o << "\t#INFO:complex_points=" << nc;
            if (!c.empty())
                o << "\t#ORACLE:numeric-complex: " << c << " (e = " << *e << ", diff = " << *d << ")";
        } else {
            o << "\t#INFO:numeric_points=0\t#INFO:complex_points=0";
        }
    }
    return o.str();
}

static std::string run_E(const std::vector<std::string> &f)
{
    RCP<const Symbol> x;
    RCP<const Basic> e;
    try {
        x = eval_var(f.at(1));
        e = eval_expr(f.at(2), x);
    } catch (...) {
        return "BADCASE";
    }
    LeafTable t;
    collect(x, t);
    collect(e, t);
    RCP<const Basic> d, m;
    std::string exd, exm;
    try {
        d = diff(e, x, true);
    } catch (...) {
        exd = verif::exn_name();
    }
    try {
        m = eval_cx(verif::parse_sexp(f.at(3)), t);
    } catch (ModelExn &me) {
        exm = "EXN:" + me.cls;
    } catch (std::runtime_error &re) {
        return std::string("PROGRAM-ERROR ") + re.what();
    } catch (...) {
        exm = verif::exn_name();
    }
    if (!exd.empty() || !exm.empty()) {
        if (exd == exm)
            return exd;
        return "EXNDIFF impl=" + (exd.empty() ? verif::dump_sorted(*d) : exd) + " model=" + (exm.empty() ? verif::dump_sorted(*m) : exm);
    }
    if (eq(*d, *m))
        return "EXACT";
    try {
        if (eq(*expand(sub(d, m)), *zero))
            return "EXPAND";
    } catch (...) {
    }
    if (numerically_equal(d, m))
        return "NUMERIC";
    return "MISMATCH impl=" + verif::dump_sorted(*d) + " model=" + verif::dump_sorted(*m);
}

// ---------------------------------------------------------------- polynomial classes
// P <kind> <vars> <wrt> <terms>
//   kind uint | urat | uexpr : vars = one name, terms = k:c,k:c  (urat c = n/d; uexpr k may be negative, c is a recipe)
//   kind mint               : vars = v1,v2,.. ; terms = k1.k2..:c;...   (exponent vectors in the order of <vars>)
// Output: the result in the same notation (terms sorted; `-` for the zero polynomial), preceded by the
// class name and the variables; #ORACLE when expand(diff(p.as_symbolic(), wrt)) differs from the
// symbolic form of the result.
static std::vector<std::string> split_on(const std::string &s, char c)
{
    std::vector<std::string> v;
    if (s.empty() || s == "-")
        return v;
    size_t st = 0;
    while (true) {
        size_t p = s.find(c, st);
        if (p == std::string::npos) {
            v.push_back(s.substr(st));
            break;
        }
        v.push_back(s.substr(st, p - st));
        st = p + 1;
    }
    return v;
}

static std::string join(const std::vector<std::string> &v, const char *sep)
{
    if (v.empty())
        return "-";
    std::string s;
    for (size_t i = 0; i < v.size(); i++)
        s += (i ? sep : "") + v[i];
    return s;
}

static std::string qstr(const rational_class &q)
{
    std::ostringstream o;
    o << get_num(q);
    if (get_den(q) != 1)
        o << "/" << get_den(q);
    return o.str();
}

static std::string run_P(const std::vector<std::string> &f)
{
    const std::string &kind = f.at(1);
    RCP<const Symbol> wrt = symbol(f.at(3));
    RCP<const Basic> p, r;
    std::ostringstream o;
    try {
        if (kind == "uint" || kind == "urat" || kind == "uexpr") {
            RCP<const Basic> var = symbol(f.at(2));
            if (kind == "uint") {
                map_uint_mpz d;
                for (auto &t : split_on(f.at(4), ',')) {
                    size_t c = t.find(':');
                    d[(unsigned)std::stoul(t.substr(0, c))] = integer_class(t.substr(c + 1));
                }
                p = UIntPoly::from_dict(var, std::move(d));
                r = p->diff(wrt);
                const UIntPoly &q = down_cast<const UIntPoly &>(*r);
                std::vector<std::string> ts;
                for (auto it = q.begin(); it != q.end(); ++it)
                    ts.push_back(std::to_string(it->first) + ":" + verif::zstr(it->second));
                o << "UIntPoly " << *q.get_var() << " " << join(ts, ",");
            } else if (kind == "urat") {
                map_uint_mpq d;
                for (auto &t : split_on(f.at(4), ',')) {
                    size_t c = t.find(':');
                    std::string cs = t.substr(c + 1);
                    size_t sl = cs.find('/');
                    rational_class q(integer_class(cs.substr(0, sl)), sl == std::string::npos ? integer_class(1) : integer_class(cs.substr(sl + 1)));
                    canonicalize(q);
                    d[(unsigned)std::stoul(t.substr(0, c))] = q;
                }
                p = URatPoly::from_dict(var, std::move(d));
                r = p->diff(wrt);
                const URatPoly &q = down_cast<const URatPoly &>(*r);
                std::vector<std::string> ts;
                for (auto it = q.begin(); it != q.end(); ++it)
                    ts.push_back(std::to_string(it->first) + ":" + qstr(it->second));
                o << "URatPoly " << *q.get_var() << " " << join(ts, ",");
            } else {
                map_int_Expr d;
                for (auto &t : split_on(f.at(4), ',')) {
                    size_t c = t.find(':');
                    d[std::stoi(t.substr(0, c))] = Expression(verif::eval_recipe(t.substr(c + 1)));
                }
                p = UExprPoly::from_dict(var, std::move(d));
                r = p->diff(wrt);
                const UExprPoly &q = down_cast<const UExprPoly &>(*r);
                std::vector<std::string> ts;
                for (auto it = q.begin(); it != q.end(); ++it)
                    ts.push_back(std::to_string(it->first) + ":" + verif::dump_sorted(*it->second.get_basic()));
                o << "UExprPoly " << *q.get_var() << " " << join(ts, ",");
            }
        } else if (kind == "mint") {
            std::vector<std::string> names = split_on(f.at(2), ',');
            vec_basic vars;
            for (auto &n : names)
                vars.push_back(symbol(n));
            umap_uvec_mpz d;
            for (auto &t : split_on(f.at(4), ';')) {
                size_t c = t.find(':');
                vec_uint v;
                for (auto &k : split_on(t.substr(0, c), '.'))
                    v.push_back((unsigned)std::stoul(k));
                d[v] = integer_class(t.substr(c + 1));
            }
            p = MIntPoly::from_dict(vars, std::move(d));
            r = p->diff(wrt);
            const MIntPoly &q = down_cast<const MIntPoly &>(*r);
            // position of each variable of the result (sorted set) in the case's variable list
            std::vector<size_t> pos;
            std::vector<std::string> rn;
            for (const auto &v : q.get_vars()) {
                std::string n = down_cast<const Symbol &>(*v).get_name();
                rn.push_back(n);
                pos.push_back(std::find(names.begin(), names.end(), n) - names.begin());
            }
            std::vector<std::string> ts;
            for (const auto &b : q.get_poly().dict_) {
                std::vector<unsigned> v(names.size(), 0);
                for (size_t i = 0; i < b.first.size(); i++)
                    v.at(pos[i]) = b.first[i];
                std::string m;
                for (size_t i = 0; i < v.size(); i++)
                    m += (i ? "." : "") + std::to_string(v[i]);
                ts.push_back(m + ":" + verif::zstr(b.second));
            }
            std::sort(ts.begin(), ts.end());
            std::sort(rn.begin(), rn.end());
            o << "MIntPoly " << join(rn, ",") << " " << join(ts, ";");
        } else {
            return "BADCASE";
        }
    } catch (...) {
        return verif::exn_name();
    }
    // oracle: the symbolic route
    try {
        RCP<const Basic> ps, rs;
        if (kind == "mint") {
            ps = down_cast<const MIntPoly &>(*p).as_symbolic();
            rs = down_cast<const MIntPoly &>(*r).as_symbolic();
        } else if (kind == "uint") {
            ps = down_cast<const UIntPoly &>(*p).as_symbolic();
            rs = down_cast<const UIntPoly &>(*r).as_symbolic();
        } else if (kind == "urat") {
            ps = down_cast<const URatPoly &>(*p).as_symbolic();
            rs = down_cast<const URatPoly &>(*r).as_symbolic();
        } else {
            ps = down_cast<const UExprPoly &>(*p).as_symbolic();
            rs = down_cast<const UExprPoly &>(*r).as_symbolic();
        }
        RCP<const Basic> want = expand(ps->diff(wrt));
        if (!eq(*want, *expand(rs)))
            o << "\t#ORACLE:poly: diff of the polynomial object gives " << *rs << " but diff of its symbolic form " << *ps
              << " gives " << *want;
    } catch (...) {
        o << "\t#INFO:poly-oracle-skipped";
    }
    return o.str();
}

int main()
{
    std::string line;
    while (std::getline(std::cin, line)) {
        std::vector<std::string> f = split_tab(line);
        std::string r;
        if (f.size() >= 3 && f[0] == "D")
        {
            // the dumps of the inputs are written first, so that they survive a crash of diff
            r = run_forked_stream([&](const std::function<void(const std::string &)> &w) {
                RCP<const Symbol> x;
                RCP<const Basic> e;
                try {
                    x = eval_var(f.at(1));
                    e = eval_expr(f.at(2), x);
                } catch (...) {
                    w("BADCASE");
                    return;
                }
                w(verif::dump(*x) + "\t" + verif::dump(*e) + "\t");
                w(run_D(x, e));
            }, 90);
        }
        else if (f.size() >= 4 && f[0] == "E")
            r = verif::run_forked([&]() { return run_E(f); }, 60);
        else if (f.size() >= 5 && f[0] == "P")
            r = verif::run_forked([&]() { return run_P(f); }, 60);
        else
            r = "BADLINE";
        std::cout << r << "\n";
    }
    return 0;
}
