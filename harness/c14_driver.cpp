// C14 driver (llvm configuration: WITH_LLVM against LLVM 14).
//
// Input line = a history on ONE LLVMDoubleVisitor, ops separated by " || ":
//   I <opt 0-3> <cse 0|1> :: <input recipes ;; ...> :: <output recipes ;; ...>
//   C <hex double> ...
// Output: the ops separated by " || ":
//   I <opt> <cse> :: <input dumps ;;> :: <output dumps ;;> :: <N | T<exn> | R sym ;; expr ;; ... @@ reduced ;; ...>
//        :: <node dump ;; rewritten dump ;; ...> => <OK|EXN:n>
//   C <hex> ... => <r> <r> ... | EXN:n
// followed by CRASH:<sig> / HANG when the process died, and by \t#ORACLE:<what> when the property itself fails on
// the library's outputs (independent of the Coq model):
//   optlevel : the same init at another optimisation level gives a value more than 16 ulp away (LLVM folds llvm.powi /
//              libm calls of constants with other algorithms than the run-time code: a few ulp)
//   cse      : symbolic CSE on/off give values that differ beyond rounding
//   loads    : dumps() + loads() into a fresh visitor does not reproduce the values bit for bit
//   reinit   : the reused visitor differs from a fresh one given the same init ("reuse-after-failed-init" when an
//              earlier init of the history threw)
//   value    : a result is not the value of the output at the inputs (LambdaRealDoubleVisitor reference, where that is not NaN; tolerance
//              64 x the spread observed when every input moves by one ulp + 1e-9 relative) -- TESTING
// <r> = 16 hex digits (bit pattern), NAN for any NaN, EXN:<n> (harness/common.h numbering).
// The "rewritten" list gives, for every node of a class RewriteTrigVisitor handles, the expression the PUBLIC
// constructors build for it (cot x -> 1/tan x ...), computed here independently of visitor.h.
#include <cmath>
#include <limits>
#include <map>
#include <set>
#include <vector>
#include <string>
#include <memory>
#include <functional>
#include <symengine/basic.h>
#include <symengine/add.h>
#include <symengine/mul.h>
#include <symengine/pow.h>
#include <symengine/functions.h>
#include <symengine/logic.h>
#include <symengine/sets.h>
#include <symengine/complex.h>
#include <symengine/complex_double.h>
#include <symengine/real_double.h>
#include <symengine/infinity.h>
#include <symengine/nan.h>
#include <symengine/constants.h>
#include <symengine/visitor.h>
#include <symengine/eval_double.h>
#include <symengine/lambda_double.h>
#include <symengine/llvm_double.h>
#include <symengine/symengine_exception.h>
#include "common.h"
#include "dump.h"
#include "recipe.h"
using namespace SymEngine;

namespace SymEngine
{
void cse(vec_pair &replacements, vec_basic &reduced_exprs, const vec_basic &exprs);
}

#ifndef HAVE_SYMENGINE_LLVM
#error "the C14 driver needs the llvm configuration"
#endif

static std::string trim(const std::string &s)
{
    size_t a = s.find_first_not_of(" \t");
    if (a == std::string::npos)
        return "";
    size_t b = s.find_last_not_of(" \t");
    return s.substr(a, b - a + 1);
}

static std::vector<std::string> split_sep(const std::string &s, const std::string &sep)
{
    std::vector<std::string> v;
    size_t st = 0;
    while (true) {
        size_t p = s.find(sep, st);
        if (p == std::string::npos) {
            v.push_back(s.substr(st));
            break;
        }
        v.push_back(s.substr(st, p - st));
        st = p + sep.size();
    }
    return v;
}

static std::string dblbits(double d)
{
    if (std::isnan(d))
        return "NAN";
    uint64_t u;
    std::memcpy(&u, &d, 8);
    char buf[32];
    snprintf(buf, sizeof buf, "%016llx", (unsigned long long)u);
    return buf;
}

static std::string rawbits(double d)
{
    uint64_t u;
    std::memcpy(&u, &d, 8);
    char buf[32];
    snprintf(buf, sizeof buf, "%016llx", (unsigned long long)u);
    return buf;
}

static RCP<const Basic> recipe(const std::string &r)
{
    std::string t = trim(r);
    if (t.compare(0, 8, "(uneval ") == 0 && t.back() == ')')
        return unevaluated_expr(verif::eval_recipe(t.substr(8, t.size() - 9)));
    return verif::eval_recipe(t);
}

// ------------------------------------------------------------------ rewritten nodes
static bool rewritten(const Basic &b, RCP<const Basic> &out)
{
    vec_basic a = b.get_args();
    switch (b.get_type_code()) {
        case SYMENGINE_COT: out = div(one, tan(a[0])); return true;
        case SYMENGINE_CSC: out = div(one, sin(a[0])); return true;
        case SYMENGINE_SEC: out = div(one, cos(a[0])); return true;
        case SYMENGINE_ACOT: out = atan(div(one, a[0])); return true;
        case SYMENGINE_ACSC: out = asin(div(one, a[0])); return true;
        case SYMENGINE_ASEC: out = acos(div(one, a[0])); return true;
        case SYMENGINE_COTH: out = div(one, tanh(a[0])); return true;
        case SYMENGINE_CSCH: out = div(one, sinh(a[0])); return true;
        case SYMENGINE_SECH: out = div(one, cosh(a[0])); return true;
        case SYMENGINE_ACOTH: out = atanh(div(one, a[0])); return true;
        case SYMENGINE_ACSCH: out = asinh(div(one, a[0])); return true;
        case SYMENGINE_ASECH: out = acosh(div(one, a[0])); return true;
        default: return false;
    }
}

static void collect_rw(const Basic &b, std::map<std::string, std::string> &m, int depth)
{
    if (depth > 40)
        return;
    RCP<const Basic> r;
    if (rewritten(b, r)) {
        std::string k = verif::dump(b);
        if (!m.count(k)) {
            m[k] = verif::dump(*r);
            collect_rw(*r, m, depth + 1);
        }
    }
    for (auto &c : b.get_args())
        collect_rw(*c, m, depth + 1);
    // Piecewise / Contains keep sub-expressions outside get_args() of some classes: covered by get_args in this version
}

// ------------------------------------------------------------------ one init
struct InitOp {
    unsigned opt;
    bool cse;
    vec_basic ins, outs;
};

static std::string llvm_init(LLVMDoubleVisitor &v, const InitOp &io, unsigned opt, bool cse)
{
    try {
        v.init(io.ins, io.outs, cse, opt);
        return "OK";
    } catch (...) {
        return verif::exn_name();
    }
}

static std::vector<double> llvm_call(const LLVMDoubleVisitor &v, const std::vector<double> &inp, size_t nout)
{
    std::vector<double> outs(nout, 0.0);
    std::vector<double> in(inp);
    if (in.empty())
        in.push_back(0.0);
    v.call(outs.data(), in.data());
    return outs;
}

static std::string show(const std::vector<double> &o)
{
    if (o.empty())
        return "-";
    std::string s;
    for (size_t i = 0; i < o.size(); i++)
        s += (i ? " " : "") + dblbits(o[i]);
    return s;
}

static double ulp_dist(double a, double b)
{
    if (std::isnan(a) && std::isnan(b))
        return 0;
    if (std::isnan(a) || std::isnan(b))
        return 1e300;
    if (a == b)
        return 0;
    if (std::isinf(a) || std::isinf(b))
        return 1e300;
    int64_t x, y;
    std::memcpy(&x, &a, 8);
    std::memcpy(&y, &b, 8);
    if (x < 0)
        x = std::numeric_limits<int64_t>::min() - x;
    if (y < 0)
        y = std::numeric_limits<int64_t>::min() - y;
    double d = (double)x - (double)y;
    return d < 0 ? -d : d;
}

struct Variant {
    unsigned opt;
    bool cse;
    std::unique_ptr<LLVMDoubleVisitor> v;
};

static void emit_fd(int fd, const std::string &s)
{
    size_t off = 0;
    while (off < s.size()) {
        ssize_t w = write(fd, s.data() + off, s.size() - off);
        if (w <= 0)
            break;
        off += (size_t)w;
    }
}

static std::string run_history(const std::string &line, int wfd)
{
    auto emit = [&](const std::string &s) { emit_fd(wfd, s); };
    std::vector<std::string> ops = split_sep(line, " || ");
    LLVMDoubleVisitor v;
    std::string oracle;
    bool have_init = false, last_ok = false, failed_before = false;
    InitOp last;
    std::vector<Variant> variants;            // the same init at the other opt levels / cse settings
    std::unique_ptr<LLVMDoubleVisitor> fresh; // same (opt, cse) on a fresh object
    std::unique_ptr<LLVMDoubleVisitor> loaded; // dumps() / loads()
    std::unique_ptr<LambdaRealDoubleVisitor> lam;
    std::unique_ptr<LambdaRealDoubleVisitor> lam_cse; // the same reference with cse = true: isolates defects of cse() itself (C37)
    std::unique_ptr<LLVMFloatVisitor> fvis;       // the float evaluator (testing only)
#ifdef SYMENGINE_HAVE_LLVM_LONG_DOUBLE
    std::unique_ptr<LLVMLongDoubleVisitor> lvis;  // the long double evaluator (testing only; needs MPFR for rationals/constants)
#endif
    bool first = true;
    for (const std::string &op0 : ops) {
        std::string op = trim(op0);
        if (!first)
            emit(" || ");
        first = false;
        if (op.compare(0, 2, "I ") == 0) {
            std::vector<std::string> parts = split_sep(op.substr(2), " :: ");
            if (parts.size() != 3)
                return "BADCASE";
            InitOp io;
            auto hd = verif::split_ws(parts[0]);
            if (hd.size() != 2)
                return "BADCASE";
            io.opt = (unsigned)std::stoul(hd[0]);
            io.cse = hd[1] == "1";
            try {
                for (auto &r : split_sep(parts[1], " ;; "))
                    if (!trim(r).empty() && trim(r) != "-")
                        io.ins.push_back(recipe(r));
                for (auto &r : split_sep(parts[2], " ;; "))
                    if (!trim(r).empty() && trim(r) != "-")
                        io.outs.push_back(recipe(r));
            } catch (...) {
                emit("RECIPE-" + verif::exn_name());
                return "";
            }
            std::string s = "I " + hd[0] + " " + hd[1] + " ::";
            for (size_t i = 0; i < io.ins.size(); i++)
                s += (i ? " ;; " : " ") + verif::dump(*io.ins[i]);
            if (io.ins.empty())
                s += " -";
            s += " ::";
            for (size_t i = 0; i < io.outs.size(); i++)
                s += (i ? " ;; " : " ") + verif::dump(*io.outs[i]);
            if (io.outs.empty())
                s += " -";
            s += " :: ";
            std::map<std::string, std::string> rw;
            vec_basic visited = io.outs;
            if (!io.cse) {
                s += "N";
            } else {
                try {
                    vec_pair reps;
                    vec_basic red;
                    SymEngine::cse(reps, red, io.outs);
                    s += "R";
                    for (size_t i = 0; i < reps.size(); i++) {
                        s += (i ? " ;; " : " ") + verif::dump(*reps[i].first) + " ;; " + verif::dump(*reps[i].second);
                        visited.push_back(reps[i].second);
                    }
                    s += " @@";
                    for (size_t i = 0; i < red.size(); i++) {
                        s += (i ? " ;; " : " ") + verif::dump(*red[i]);
                        visited.push_back(red[i]);
                    }
                } catch (...) {
                    s += "T" + verif::exn_name().substr(4);
                }
            }
            try {
                for (auto &e : visited)
                    collect_rw(*e, rw, 0);
            } catch (...) {
            }
            s += " ::";
            bool f1 = true;
            for (auto &kv : rw) {
                s += (f1 ? " " : " ;; ") + kv.first + " ;; " + kv.second;
                f1 = false;
            }
            if (rw.empty())
                s += " -";
            emit(s + " => ");
            std::string r = llvm_init(v, io, io.opt, io.cse);
            emit(r);
            have_init = true;
            last_ok = (r == "OK");
            last = io;
            variants.clear();
            fresh.reset();
            loaded.reset();
            lam.reset();
            lam_cse.reset();
            fvis.reset();
#ifdef SYMENGINE_HAVE_LLVM_LONG_DOUBLE
            lvis.reset();
#endif
            emit("~");
            {
                // a fresh object must accept / reject the same init
                fresh.reset(new LLVMDoubleVisitor());
                std::string rf = llvm_init(*fresh, io, io.opt, io.cse);
                if (rf != r)
                    oracle += std::string(failed_before ? " reuse-after-failed-init" : " reinit") + "(init gives " + r
                              + ", a fresh object " + rf + ")";
                if (rf != "OK")
                    fresh.reset();
            }
            if (last_ok) {
                for (unsigned o = 0; o < 4; o++)
                    for (int c = 0; c < 2; c++) {
                        if (o == io.opt && (c == 1) == io.cse)
                            continue;
                        Variant va;
                        va.opt = o;
                        va.cse = c == 1;
                        va.v.reset(new LLVMDoubleVisitor());
                        std::string rv = llvm_init(*va.v, io, o, va.cse);
                        if (rv != "OK") {
                            oracle += " init-differs(opt " + std::to_string(o) + " cse " + std::to_string(c) + " gives " + rv + ")";
                            continue;
                        }
                        variants.push_back(std::move(va));
                    }
                try {
                    std::string blob = v.dumps();
                    loaded.reset(new LLVMDoubleVisitor());
                    loaded->loads(blob);
                } catch (...) {
                    oracle += " loads(" + verif::exn_name() + ")";
                    loaded.reset();
                }
                try {
                    lam.reset(new LambdaRealDoubleVisitor());
                    lam->init(io.ins, io.outs, false);
                } catch (...) {
                    lam.reset();
                }
                try {
                    lam_cse.reset(new LambdaRealDoubleVisitor());
                    lam_cse->init(io.ins, io.outs, true);
                } catch (...) {
                    lam_cse.reset();
                }
                try {
                    fvis.reset(new LLVMFloatVisitor());
                    fvis->init(io.ins, io.outs, io.cse, io.opt);
                } catch (...) {
                    oracle += " float-init(" + verif::exn_name() + ")";
                    fvis.reset();
                }
#ifdef SYMENGINE_HAVE_LLVM_LONG_DOUBLE
                try {
                    lvis.reset(new LLVMLongDoubleVisitor());
                    lvis->init(io.ins, io.outs, io.cse, io.opt);
                } catch (...) {
                    lvis.reset(); // Rational / Constant leaves need MPFR in this variant: not an error of this configuration
                }
#endif
            } else {
                failed_before = true;
            }
            emit(".");
        } else if (op.compare(0, 1, "C") == 0) {
            std::vector<double> inp;
            for (auto &h : verif::split_ws(op.substr(1)))
                inp.push_back(verif::dbl_of_hex(h));
            std::string s = "C";
            for (double x : inp)
                s += " " + rawbits(x);
            emit(s + " => ");
            if (!have_init || !last_ok || inp.size() != last.ins.size()) {
                emit("SKIP");
                continue;
            }
            size_t nout = last.outs.size();
            std::vector<double> outs = llvm_call(v, inp, nout);
            emit(show(outs));
            emit("~");
            if (fresh) {
                std::vector<double> of = llvm_call(*fresh, inp, nout);
                if (show(of) != show(outs))
                    oracle += std::string(failed_before ? " reuse-after-failed-init" : " reinit") + "(call gives " + show(outs)
                              + ", a fresh object " + show(of) + ")";
            }
            if (loaded) {
                std::vector<double> ol = llvm_call(*loaded, inp, nout);
                if (show(ol) != show(outs))
                    oracle += " loads(call gives " + show(outs) + ", after dumps/loads " + show(ol) + ")";
            }
            // conditioning: the spread of the lambda reference when every input moves by one ulp
            std::vector<double> ref(nout, 0.0), spread(nout, 0.0);
            bool have_ref = false;
            if (lam) {
                try {
                    std::vector<double> in(inp);
                    if (in.empty())
                        in.push_back(0.0);
                    lam->call(ref.data(), in.data());
                    have_ref = true;
                    for (size_t k = 0; k < inp.size() && k < 6; k++)
                        for (int dir = -1; dir <= 1; dir += 2) {
                            std::vector<double> p(in);
                            p[k] = std::nextafter(p[k], dir > 0 ? INFINITY : -INFINITY);
                            std::vector<double> o(nout, 0.0);
                            lam->call(o.data(), p.data());
                            for (size_t i = 0; i < nout; i++) {
                                double d = std::fabs(o[i] - ref[i]);
                                if (std::isnan(d))
                                    d = INFINITY;
                                if (d > spread[i])
                                    spread[i] = d;
                            }
                        }
                } catch (...) {
                    have_ref = false;
                }
            }
            auto close = [&](double a, double b, size_t i) {
                if (std::isnan(a) && std::isnan(b))
                    return true;
                if (a == b)
                    return true;
                if (std::isinf(spread[i]))
                    return true; // hopelessly ill-conditioned here (or at the boundary of the domain)
                if (std::isnan(a) || std::isnan(b))
                    return false;
                double tol = 64 * spread[i] + 1e-9 * std::fabs(b) + 1e-300;
                return std::fabs(a - b) <= tol || ulp_dist(a, b) <= 8;
            };
            // is the result of cse() faithful here?  (the lambda visitor with and without cse agree)
            std::vector<bool> cse_ok(nout, true);
            if (have_ref && lam_cse) {
                try {
                    std::vector<double> in(inp), rc(nout, 0.0);
                    if (in.empty())
                        in.push_back(0.0);
                    lam_cse->call(rc.data(), in.data());
                    for (size_t i = 0; i < nout; i++)
                        if (!close(rc[i], ref[i], i))
                            cse_ok[i] = false;
                } catch (...) {
                }
            }
            if (have_ref) {
                for (size_t i = 0; i < nout; i++)
                    if (!std::isnan(ref[i]) && (!last.cse || cse_ok[i]) && !close(outs[i], ref[i], i)) // a NaN reference: the output has no value there
                        oracle += " value(output " + std::to_string(i) + ": llvm " + dblbits(outs[i]) + " lambda " + dblbits(ref[i]) + ")";
            }
            // the float / long double evaluators: loose agreement with the double one (testing); the sensitivity of the
            // outputs is measured with the lambda reference under RELATIVE input perturbations of the size of the
            // variant's rounding (intermediate roundings of that size move the result at least as much)
            if (have_ref) {
                auto sens = [&](double rel) {
                    std::vector<double> sp(nout, 0.0);
                    std::vector<double> in(inp);
                    if (in.empty())
                        in.push_back(0.0);
                    for (size_t k = 0; k < inp.size() && k < 6; k++)
                        for (int dir = -1; dir <= 1; dir += 2) {
                            std::vector<double> p(in);
                            p[k] = p[k] + dir * rel * (1.0 + std::fabs(p[k]));
                            std::vector<double> o(nout, 0.0);
                            lam->call(o.data(), p.data());
                            for (size_t i = 0; i < nout; i++) {
                                double d = std::fabs(o[i] - ref[i]);
                                if (std::isnan(d))
                                    d = INFINITY;
                                if (d > sp[i])
                                    sp[i] = d;
                            }
                        }
                    return sp;
                };
                std::vector<double> sp_f = sens(1e-6), sp_l = sens(1e-13);
                auto loose = [&](double a, double b, size_t i, double eps, const std::vector<double> &sp) {
                    if (std::isnan(a) || std::isnan(b) || std::isinf(a) || std::isinf(b) || std::isinf(sp[i]) || std::isnan(ref[i]))
                        return true;
                    if (sp[i] > 1e-3 * (std::fabs(ref[i]) + 1e-300) || !cse_ok[i])
                        return true; // near a pole / cancellation: no claim
                    double tol = 1e3 * eps * (1.0 + std::fabs(b)) + 1e3 * sp[i];
                    return std::fabs(a - b) <= tol;
                };
                if (fvis) {
                    std::vector<float> fi(inp.begin(), inp.end()), fo(nout, 0.0f);
                    if (fi.empty())
                        fi.push_back(0.0f);
                    bool exact_in = true;
                    for (size_t k = 0; k < inp.size(); k++)
                        if ((double)fi[k] != inp[k])
                            exact_in = false;
                    if (exact_in) {
                        fvis->call(fo.data(), fi.data());
                        for (size_t i = 0; i < nout; i++)
                            if (!loose((double)fo[i], outs[i], i, 1e-6, sp_f))
                                oracle += " float(output " + std::to_string(i) + ": float " + dblbits((double)fo[i]) + " double " + dblbits(outs[i]) + ")";
                    }
                }
#ifdef SYMENGINE_HAVE_LLVM_LONG_DOUBLE
                if (lvis) {
                    std::vector<long double> li(inp.begin(), inp.end()), lo(nout, 0.0L);
                    if (li.empty())
                        li.push_back(0.0L);
                    lvis->call(lo.data(), li.data());
                    for (size_t i = 0; i < nout; i++)
                        if (!loose((double)lo[i], outs[i], i, 1e-13, sp_l))
                            oracle += " longdouble(output " + std::to_string(i) + ": long double " + dblbits((double)lo[i]) + " double " + dblbits(outs[i]) + ")";
                }
#endif
            }
            for (auto &va : variants) {
                std::vector<double> ov = llvm_call(*va.v, inp, nout);
                for (size_t i = 0; i < nout; i++) {
                    if (have_ref && (std::isnan(ref[i]) || std::isinf(spread[i])))
                        continue; // the output has no value there / is at the boundary of its domain
                    if (va.cse == last.cse) {
                        if (ulp_dist(ov[i], outs[i]) > 16)
                            oracle += " optlevel(output " + std::to_string(i) + ": opt " + std::to_string(last.opt) + " gives "
                                      + dblbits(outs[i]) + ", opt " + std::to_string(va.opt) + " " + dblbits(ov[i]) + ")";
                    } else if (!cse_ok[i]) {
                        continue; // cse() itself changed the value of this output (C37's business)
                    } else if (have_ref ? !close(ov[i], outs[i], i) : ulp_dist(ov[i], outs[i]) > 64) {
                        oracle += " cse(output " + std::to_string(i) + ": cse " + std::to_string(last.cse) + " gives " + dblbits(outs[i])
                                  + ", cse " + std::to_string(va.cse) + " opt " + std::to_string(va.opt) + " " + dblbits(ov[i]) + ")";
                    }
                }
            }
            emit(".");
        } else {
            return "BADCASE";
        }
    }
    if (!oracle.empty())
        return "\t#ORACLE:" + oracle.substr(1);
    return "";
}

static void process_line(const std::string &line, int wfd)
{
    std::string s;
    try {
        s = run_history(line, wfd);
    } catch (...) {
        s = "UNCAUGHT";
    }
    emit_fd(wfd, s);
    emit_fd(wfd, "\n");
}

int main()
{
    std::vector<std::string> lines;
    std::string line;
    while (std::getline(std::cin, line))
        lines.push_back(line);
    size_t next = 0;
    while (next < lines.size()) {
        int fd[2];
        if (pipe(fd) != 0)
            return 3;
        fflush(stdout);
        pid_t pid = fork();
        if (pid == 0) {
            close(fd[0]);
            struct rlimit rl;
            rl.rlim_cur = rl.rlim_max = 0;
            setrlimit(RLIMIT_CORE, &rl);
            int devnull = open("/dev/null", O_WRONLY);
            if (devnull >= 0)
                dup2(devnull, 2);
            for (size_t i = next; i < lines.size(); i++) {
                alarm(120);
                process_line(lines[i], fd[1]);
            }
            close(fd[1]);
            _exit(0);
        }
        close(fd[1]);
        std::string cur;
        char buf[65536];
        ssize_t r;
        while ((r = read(fd[0], buf, sizeof buf)) > 0) {
            for (ssize_t k = 0; k < r; k++) {
                if (buf[k] == '\n') {
                    std::cout << cur << "\n";
                    cur.clear();
                    next++;
                } else {
                    cur += buf[k];
                }
            }
        }
        close(fd[0]);
        int status = 0;
        waitpid(pid, &status, 0);
        if (next < lines.size()) {
            if (WIFSIGNALED(status)) {
                int sig = WTERMSIG(status);
                std::cout << cur << (sig == SIGALRM ? std::string("HANG") : "CRASH:" + std::to_string(sig)) << "\n";
            } else {
                std::cout << cur << "DIED" << "\n";
            }
            next++;
        }
        std::cout.flush();
    }
    return 0;
}
