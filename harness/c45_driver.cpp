// C45 driver (mpfr configuration: WITH_MPFR, no MPC -- eval_mpc / ComplexMPC cannot be built here).
//
// Input lines (one case per line):
//   E <prec> <recipe>
//       eval_mpfr of a numeric expression at <prec> bits, MPFR_RNDN (recipes: harness/recipe.h plus
//       nested (uneval a) and (m prec mant exp) = RealMPFR literal).  Output:
//         <dump> \t P=<prec> \t V=<r> \t F=<r> \t O=<oracle entries> \t U=<ulp error|-> [\t#ORACLE:<what>]
//       V eval_mpfr, F evalf(prec, Real) (prec > 53; "-" otherwise),
//       O values of MPFR calls the Coq model cannot compute, at <prec> bits, computed here by direct MPFR calls
//         (kind,code,args=value separated by '|'): pi, euler, catalan, exp(1), sqrt(5), and for every function / Pow node
//         of the tree EVERY unary MPFR function at the (library) value v of its argument and at 1/v, pow / atan2 /
//         gamma_inc at its two argument values in both orders: the model picks the call its formula table names, so a
//         changed formula (other function, swapped operands) shows as a digit-for-digit difference,
//       U error of V in ulps of <prec> against the reference evaluator below (2*prec+64 bits).
//   A <op> <opd> <opd>       op in add sub mul div pow;  opd = I:<z> | Q:<n>/<d> | D:<16 hex> | M:<prec>:<mant>:<exp> | C | CD
//       Number::add / sub / mul / div / pow of the two operands.  Output:
//         <result> [\t#ORACLE:<what>]      result = M:<prec>:<r> | I:<z> | EXN:<n> | OTHER:<dump>
// <r> = <mant>:<exp> with an odd mantissa (0:0 for zero; the sign of zero is not reported), NAN, INF, -INF.
//
// Oracles (independent of the Coq model):
//   arithmetic: the exact rational result (GMP mpq) rounded once by mpfr_set_q at the larger operand precision must
//     be the library's result, and the result's precision must be that larger precision ("misrounded", "precision");
//     a real power must not throw the "result is complex" exception and a negative base with a non-integer exponent
//     must not give NaN silently ("spurious-complex", "nan-for-complex");
//   evaluation: reference evaluator from the mathematical definitions (asec x = acos(1/x), coth = cosh/sinh, ...) at
//     2*prec+64 bits; conditioning is estimated by re-running it with every intermediate result perturbed by a
//     relative 2^-prec; V must lie within 8 * spread + 4 ulp (cases that lose more than half of the digits to such
//     perturbations -- in the result or in any intermediate value -- are not judged; precisions below 24 bits are
//     not judged).  This part is TESTING, not proof.
#include <cmath>
#include <map>
#include <vector>
#include <string>
#include <functional>
#include <algorithm>
#include <symengine/basic.h>
#include <symengine/add.h>
#include <symengine/mul.h>
#include <symengine/pow.h>
#include <symengine/functions.h>
#include <symengine/logic.h>
#include <symengine/sets.h>
#include <symengine/complex.h>
#include <symengine/complex_double.h>
#include <symengine/real_double.h>
#include <symengine/real_mpfr.h>
#include <symengine/infinity.h>
#include <symengine/nan.h>
#include <symengine/constants.h>
#include <symengine/visitor.h>
#include <symengine/eval.h>
#include <symengine/eval_mpfr.h>
#include <symengine/symengine_exception.h>
#include "common.h"
#include "dump.h"
#include "recipe.h"
using namespace SymEngine;

#ifndef HAVE_SYMENGINE_MPFR
#error "the C45 driver needs the mpfr configuration"
#endif

// ------------------------------------------------------------------ formatting
static std::string fmt_mpfr(mpfr_srcptr x)
{
    if (mpfr_nan_p(x))
        return "NAN";
    if (mpfr_inf_p(x))
        return mpfr_sgn(x) > 0 ? "INF" : "-INF";
    if (mpfr_zero_p(x))
        return "0:0";
    mpz_t m;
    mpz_init(m);
    mpfr_exp_t e = mpfr_get_z_2exp(m, x);
    unsigned long tz = mpz_scan1(m, 0);
    mpz_tdiv_q_2exp(m, m, tz);
    char *s = mpz_get_str(nullptr, 10, m);
    std::string r = std::string(s) + ":" + std::to_string((long)e + (long)tz);
    free(s);
    mpz_clear(m);
    return r;
}

static std::vector<std::string> split_char(const std::string &s, char c)
{
    std::vector<std::string> v;
    size_t st = 0;
    while (true) {
        size_t p = s.find(c, st);
        if (p == std::string::npos) {
            v.push_back(s.substr(st));
            break;
        }
        v.push_back(s.substr(st, p - st));
        st = p + 1;
    }
    return v;
}

static RCP<const Number> make_mpfr(long prec, const std::string &mant, long ex)
{
    mpfr_class t(prec);
    mpz_t m;
    mpz_init_set_str(m, mant.c_str(), 10);
    mpfr_set_z_2exp(t.get_mpfr_t(), m, ex, MPFR_RNDN);
    mpz_clear(m);
    return real_mpfr(std::move(t));
}

// ------------------------------------------------------------------ recipes with nested uneval / RealMPFR literals
static RCP<const Basic> build(const verif::Sexp &e)
{
    if (e.is_atom || e.kids.empty() || !e.kids[0].is_atom)
        return verif::eval_recipe(e);
    const std::string &op = e.kids[0].atom;
    auto arg = [&](size_t i) { return build(e.kids.at(i)); };
    auto args = [&](size_t from) {
        vec_basic v;
        for (size_t i = from; i < e.kids.size(); i++)
            v.push_back(build(e.kids[i]));
        return v;
    };
    if (op == "uneval") return unevaluated_expr(arg(1));
    if (op == "m") return make_mpfr(std::stol(e.kids.at(1).atom), e.kids.at(2).atom, std::stol(e.kids.at(3).atom));
    if (op == "add") return add(arg(1), arg(2));
    if (op == "sub") return sub(arg(1), arg(2));
    if (op == "mul") return mul(arg(1), arg(2));
    if (op == "div") return div(arg(1), arg(2));
    if (op == "pow") return pow(arg(1), arg(2));
    if (op == "neg") return neg(arg(1));
    if (op == "addv") return add(args(1));
    if (op == "mulv") return mul(args(1));
    if (op == "exp") return exp(arg(1));
    if (op == "sqrt") return sqrt(arg(1));
    if (op == "f1") {
        auto it = verif::f1_table().find(e.kids.at(1).atom);
        if (it == verif::f1_table().end())
            throw std::runtime_error("recipe: unknown f1");
        return it->second(arg(2));
    }
    if (op == "f2") {
        auto it = verif::f2_table().find(e.kids.at(1).atom);
        if (it == verif::f2_table().end())
            throw std::runtime_error("recipe: unknown f2");
        return it->second(arg(2), arg(3));
    }
    if (op == "max") return max(args(1));
    if (op == "min") return min(args(1));
    if (op == "eq") return Eq(arg(1), arg(2));
    if (op == "ne") return Ne(arg(1), arg(2));
    if (op == "lt") return Lt(arg(1), arg(2));
    if (op == "le") return Le(arg(1), arg(2));
    return verif::eval_recipe(e);
}

// ------------------------------------------------------------------ reference evaluator
struct Ref {
    mpfr_prec_t hp;   // working precision
    mpfr_prec_t p;    // the precision under test (size of the perturbation)
    bool perturb;
    uint64_t rng;
    bool bad;
    bool ill;                          // some intermediate result moved by more than 2^-(p/2) relative under the perturbations
    std::vector<mpfr_class> *base;     // values of the nodes in the unperturbed run, in visiting order
    size_t idx;
};

static void perturb(Ref &r, mpfr_ptr x)
{
    if (!r.perturb || !mpfr_number_p(x) || mpfr_zero_p(x))
        return;
    // splitmix64; every intermediate result moves by one ulp, up or down
    r.rng += 0x9e3779b97f4a7c15ULL;
    uint64_t z = r.rng;
    z = (z ^ (z >> 30)) * 0xbf58476d1ce4e5b9ULL;
    z = (z ^ (z >> 27)) * 0x94d049bb133111ebULL;
    z = z ^ (z >> 31);
    int k = (z & 1) ? 1 : -1;
    mpfr_t d;
    mpfr_init2(d, r.hp);
    mpfr_mul_2si(d, x, -(long)r.p, MPFR_RNDN);
    if (k > 0)
        mpfr_add(x, x, d, MPFR_RNDN);
    else
        mpfr_sub(x, x, d, MPFR_RNDN);
    mpfr_clear(d);
}

static void ref_eval(Ref &r, const Basic &b, mpfr_ptr out);
static void ref_eval_inner(Ref &r, const Basic &b, mpfr_ptr out);

static void ref_un(Ref &r, const Basic &arg, mpfr_ptr out, const std::function<void(mpfr_ptr, mpfr_ptr)> &f)
{
    mpfr_t a;
    mpfr_init2(a, r.hp);
    ref_eval(r, arg, a);
    f(out, a);
    mpfr_clear(a);
}

static void ref_eval(Ref &r, const Basic &b, mpfr_ptr out)
{
    ref_eval_inner(r, b, out);
    if (r.base == nullptr)
        return;
    if (!r.perturb) {
        mpfr_class c(r.hp);
        mpfr_set(c.get_mpfr_t(), out, MPFR_RNDN);
        r.base->push_back(std::move(c));
    } else if (r.idx < r.base->size()) {
        mpfr_srcptr ref = (*r.base)[r.idx++].get_mpfr_t();
        if (mpfr_number_p(ref) && mpfr_number_p(out)) {
            mpfr_t d, lim;
            mpfr_init2(d, r.hp);
            mpfr_init2(lim, r.hp);
            mpfr_sub(d, out, ref, MPFR_RNDN);
            mpfr_abs(d, d, MPFR_RNDN);
            mpfr_abs(lim, ref, MPFR_RNDN);
            mpfr_mul_2si(lim, lim, -(long)(r.p / 2), MPFR_RNDN);
            if (mpfr_cmp(d, lim) > 0)
                r.ill = true;
            mpfr_clear(d);
            mpfr_clear(lim);
        } else if (mpfr_number_p(ref) != mpfr_number_p(out)) {
            r.ill = true;
        }
    }
}

static void ref_eval_inner(Ref &r, const Basic &b, mpfr_ptr out)
{
    const mpfr_rnd_t N = MPFR_RNDN;
    TypeID t = b.get_type_code();
    vec_basic args = b.get_args();
    auto recip = [&](mpfr_ptr o, mpfr_ptr a) { mpfr_ui_div(o, 1, a, N); };
    switch (t) {
        case SYMENGINE_INTEGER:
            mpfr_set_z(out, get_mpz_t(down_cast<const Integer &>(b).as_integer_class()), N);
            if (mpfr_min_prec(out) <= r.p)
                return; // representable with p bits: the library's conversion is exact
            break;
        case SYMENGINE_RATIONAL:
            mpfr_set_q(out, get_mpq_t(down_cast<const Rational &>(b).as_rational_class()), N);
            break;
        case SYMENGINE_REAL_DOUBLE:
            mpfr_set_d(out, down_cast<const RealDouble &>(b).i, N);
            if (!mpfr_number_p(out) || mpfr_zero_p(out) || mpfr_min_prec(out) <= r.p)
                return;
            break;
        case SYMENGINE_REAL_MPFR:
            mpfr_set(out, down_cast<const RealMPFR &>(b).i.get_mpfr_t(), N);
            break;
        case SYMENGINE_CONSTANT: {
            if (eq(b, *pi)) {
                mpfr_const_pi(out, N);
            } else if (eq(b, *E)) {
                mpfr_set_ui(out, 1, N);
                mpfr_exp(out, out, N);
            } else if (eq(b, *EulerGamma)) {
                mpfr_const_euler(out, N);
            } else if (eq(b, *Catalan)) {
                mpfr_const_catalan(out, N);
            } else if (eq(b, *GoldenRatio)) {
                mpfr_sqrt_ui(out, 5, N);
                mpfr_add_ui(out, out, 1, N);
                mpfr_div_2ui(out, out, 1, N);
            } else {
                r.bad = true;
            }
            break;
        }
        case SYMENGINE_ADD:
        case SYMENGINE_MUL: {
            mpfr_t a;
            mpfr_init2(a, r.hp);
            bool first = true;
            for (auto &c : args) {
                if (first) {
                    ref_eval(r, *c, out);
                    first = false;
                    continue;
                }
                ref_eval(r, *c, a);
                if (t == SYMENGINE_ADD)
                    mpfr_add(out, out, a, N);
                else
                    mpfr_mul(out, out, a, N);
                perturb(r, out);
            }
            mpfr_clear(a);
            return;
        }
        case SYMENGINE_POW: {
            const Pow &p = down_cast<const Pow &>(b);
            mpfr_t a;
            mpfr_init2(a, r.hp);
            ref_eval(r, *p.get_exp(), out);
            if (eq(*p.get_base(), *E)) {
                mpfr_exp(out, out, N);
            } else {
                ref_eval(r, *p.get_base(), a);
                mpfr_pow(out, a, out, N);
            }
            mpfr_clear(a);
            break;
        }
        case SYMENGINE_SIN: ref_un(r, *args[0], out, [&](mpfr_ptr o, mpfr_ptr a) { mpfr_sin(o, a, N); }); break;
        case SYMENGINE_COS: ref_un(r, *args[0], out, [&](mpfr_ptr o, mpfr_ptr a) { mpfr_cos(o, a, N); }); break;
        case SYMENGINE_TAN:
            ref_un(r, *args[0], out, [&](mpfr_ptr o, mpfr_ptr a) {
                mpfr_t c; mpfr_init2(c, r.hp); mpfr_sin_cos(o, c, a, N); mpfr_div(o, o, c, N); mpfr_clear(c); });
            break;
        case SYMENGINE_COT:
            ref_un(r, *args[0], out, [&](mpfr_ptr o, mpfr_ptr a) {
                mpfr_t c; mpfr_init2(c, r.hp); mpfr_sin_cos(o, c, a, N); mpfr_div(o, c, o, N); mpfr_clear(c); });
            break;
        case SYMENGINE_SEC: ref_un(r, *args[0], out, [&](mpfr_ptr o, mpfr_ptr a) { mpfr_cos(o, a, N); recip(o, o); }); break;
        case SYMENGINE_CSC: ref_un(r, *args[0], out, [&](mpfr_ptr o, mpfr_ptr a) { mpfr_sin(o, a, N); recip(o, o); }); break;
        case SYMENGINE_ASIN: ref_un(r, *args[0], out, [&](mpfr_ptr o, mpfr_ptr a) { mpfr_asin(o, a, N); }); break;
        case SYMENGINE_ACOS: ref_un(r, *args[0], out, [&](mpfr_ptr o, mpfr_ptr a) { mpfr_acos(o, a, N); }); break;
        case SYMENGINE_ATAN: ref_un(r, *args[0], out, [&](mpfr_ptr o, mpfr_ptr a) { mpfr_atan(o, a, N); }); break;
        case SYMENGINE_ASEC: ref_un(r, *args[0], out, [&](mpfr_ptr o, mpfr_ptr a) { recip(o, a); mpfr_acos(o, o, N); }); break;
        case SYMENGINE_ACSC: ref_un(r, *args[0], out, [&](mpfr_ptr o, mpfr_ptr a) { recip(o, a); mpfr_asin(o, o, N); }); break;
        case SYMENGINE_ACOT: ref_un(r, *args[0], out, [&](mpfr_ptr o, mpfr_ptr a) { recip(o, a); mpfr_atan(o, o, N); }); break;
        case SYMENGINE_SINH: ref_un(r, *args[0], out, [&](mpfr_ptr o, mpfr_ptr a) { mpfr_sinh(o, a, N); }); break;
        case SYMENGINE_COSH: ref_un(r, *args[0], out, [&](mpfr_ptr o, mpfr_ptr a) { mpfr_cosh(o, a, N); }); break;
        case SYMENGINE_TANH:
            ref_un(r, *args[0], out, [&](mpfr_ptr o, mpfr_ptr a) {
                mpfr_t c; mpfr_init2(c, r.hp); mpfr_sinh_cosh(o, c, a, N); mpfr_div(o, o, c, N); mpfr_clear(c); });
            break;
        case SYMENGINE_COTH:
            ref_un(r, *args[0], out, [&](mpfr_ptr o, mpfr_ptr a) {
                mpfr_t c; mpfr_init2(c, r.hp); mpfr_sinh_cosh(o, c, a, N); mpfr_div(o, c, o, N); mpfr_clear(c); });
            break;
        case SYMENGINE_SECH: ref_un(r, *args[0], out, [&](mpfr_ptr o, mpfr_ptr a) { mpfr_cosh(o, a, N); recip(o, o); }); break;
        case SYMENGINE_CSCH: ref_un(r, *args[0], out, [&](mpfr_ptr o, mpfr_ptr a) { mpfr_sinh(o, a, N); recip(o, o); }); break;
        case SYMENGINE_ASINH: ref_un(r, *args[0], out, [&](mpfr_ptr o, mpfr_ptr a) { mpfr_asinh(o, a, N); }); break;
        case SYMENGINE_ACOSH: ref_un(r, *args[0], out, [&](mpfr_ptr o, mpfr_ptr a) { mpfr_acosh(o, a, N); }); break;
        case SYMENGINE_ATANH: ref_un(r, *args[0], out, [&](mpfr_ptr o, mpfr_ptr a) { mpfr_atanh(o, a, N); }); break;
        case SYMENGINE_ASECH: ref_un(r, *args[0], out, [&](mpfr_ptr o, mpfr_ptr a) { recip(o, a); mpfr_acosh(o, o, N); }); break;
        case SYMENGINE_ACSCH: ref_un(r, *args[0], out, [&](mpfr_ptr o, mpfr_ptr a) { recip(o, a); mpfr_asinh(o, o, N); }); break;
        case SYMENGINE_ACOTH: ref_un(r, *args[0], out, [&](mpfr_ptr o, mpfr_ptr a) { recip(o, a); mpfr_atanh(o, o, N); }); break;
        case SYMENGINE_LOG: ref_un(r, *args[0], out, [&](mpfr_ptr o, mpfr_ptr a) { mpfr_log(o, a, N); }); break;
        case SYMENGINE_ABS: ref_un(r, *args[0], out, [&](mpfr_ptr o, mpfr_ptr a) { mpfr_abs(o, a, N); }); return;
        case SYMENGINE_GAMMA: ref_un(r, *args[0], out, [&](mpfr_ptr o, mpfr_ptr a) { mpfr_gamma(o, a, N); }); break;
        case SYMENGINE_LOGGAMMA:
            ref_un(r, *args[0], out, [&](mpfr_ptr o, mpfr_ptr a) { mpfr_gamma(o, a, N); mpfr_log(o, o, N); });
            break;
        case SYMENGINE_ERF: ref_un(r, *args[0], out, [&](mpfr_ptr o, mpfr_ptr a) { mpfr_erf(o, a, N); }); break;
        case SYMENGINE_ERFC: ref_un(r, *args[0], out, [&](mpfr_ptr o, mpfr_ptr a) { mpfr_erfc(o, a, N); }); break;
        case SYMENGINE_UNEVALUATED_EXPR:
            ref_eval(r, *args[0], out);
            return;
        case SYMENGINE_ATAN2:
        case SYMENGINE_UPPERGAMMA:
        case SYMENGINE_LOWERGAMMA:
        case SYMENGINE_BETA: {
            mpfr_t a, c;
            mpfr_init2(a, r.hp);
            mpfr_init2(c, r.hp);
            ref_eval(r, *args[0], a);
            ref_eval(r, *args[1], c);
            if (t == SYMENGINE_ATAN2) {
                mpfr_atan2(out, a, c, N);
            } else if (t == SYMENGINE_UPPERGAMMA) {
                mpfr_gamma_inc(out, a, c, N);
            } else if (t == SYMENGINE_LOWERGAMMA) {
                mpfr_gamma_inc(out, a, c, N);
                perturb(r, out);
                mpfr_gamma(a, a, N);
                perturb(r, a);
                mpfr_sub(out, a, out, N);
            } else {
                mpfr_add(out, a, c, N);
                perturb(r, out);
                mpfr_gamma(out, out, N);
                perturb(r, out);
                mpfr_gamma(a, a, N);
                perturb(r, a);
                mpfr_gamma(c, c, N);
                perturb(r, c);
                mpfr_mul(a, a, c, N);
                perturb(r, a);
                mpfr_div(out, a, out, N);
            }
            mpfr_clear(a);
            mpfr_clear(c);
            break;
        }
        case SYMENGINE_MAX:
        case SYMENGINE_MIN: {
            mpfr_t a;
            mpfr_init2(a, r.hp);
            bool first = true;
            for (auto &c : args) {
                ref_eval(r, *c, first ? out : a);
                if (!first) {
                    if (t == SYMENGINE_MAX)
                        mpfr_max(out, out, a, N);
                    else
                        mpfr_min(out, out, a, N);
                }
                first = false;
            }
            mpfr_clear(a);
            return;
        }
        case SYMENGINE_EQUALITY:
        case SYMENGINE_UNEQUALITY:
        case SYMENGINE_LESSTHAN:
        case SYMENGINE_STRICTLESSTHAN:
            // comparisons of rounded values are discontinuous: outside the accuracy reference
            r.bad = true;
            mpfr_set_nan(out);
            return;
        default:
            r.bad = true;
            mpfr_set_nan(out);
            return;
    }
    perturb(r, out);
}

static std::string class_name(const Basic &b)
{
    return type_code_name(b.get_type_code());
}

// ------------------------------------------------------------------ E cases
typedef int (*mpfr_un_fn)(mpfr_ptr, mpfr_srcptr, mpfr_rnd_t);
struct UnFn {
    int code; // mfun_code of coq/C45/MpfrTerm.v
    mpfr_un_fn f;
};
static const UnFn UNFNS[] = {
    {0, mpfr_exp},    {1, mpfr_log},    {2, mpfr_sin},    {3, mpfr_cos},     {4, mpfr_tan},     {5, mpfr_asin},
    {6, mpfr_acos},   {7, mpfr_atan},   {8, mpfr_sinh},   {9, mpfr_cosh},    {10, mpfr_tanh},   {11, mpfr_asinh},
    {12, mpfr_acosh}, {13, mpfr_atanh}, {15, mpfr_gamma}, {17, mpfr_erf},    {18, mpfr_erfc},   {100, mpfr_sec},
    {101, mpfr_csc},  {102, mpfr_cot},  {103, mpfr_sech}, {104, mpfr_csch},  {105, mpfr_coth},  {106, mpfr_sqrt},
    {107, mpfr_lngamma},
};

// every MPFR function the formula table could apply to the value x (or to 1/x), at precision p
static void unary_entries(mpfr_srcptr x, mpfr_prec_t p, std::vector<std::string> &out, bool special)
{
    if (!mpfr_number_p(x))
        return;
    mpfr_t a, r;
    mpfr_init2(a, p);
    mpfr_init2(r, p);
    for (int inv = 0; inv < 2; inv++) {
        if (inv) {
            if (mpfr_zero_p(x))
                break;
            mpfr_ui_div(a, 1, x, MPFR_RNDN);
        } else {
            mpfr_set(a, x, MPFR_RNDN);
        }
        std::string key = fmt_mpfr(a);
        for (const UnFn &u : UNFNS) {
            // gamma, lngamma, erf, erfc can take very long on arbitrary arguments: only for the nodes of those classes
            if (!special && (u.code == 15 || u.code == 107 || u.code == 17 || u.code == 18))
                continue;
            u.f(r, a, MPFR_RNDN);
            out.push_back("1," + std::to_string(u.code) + "," + key + "=" + fmt_mpfr(r));
        }
    }
    mpfr_clear(a);
    mpfr_clear(r);
}

static void binary_entries(mpfr_srcptr x, mpfr_srcptr y, mpfr_prec_t p, std::vector<std::string> &out, TypeID t)
{
    if (!mpfr_number_p(x) || !mpfr_number_p(y))
        return;
    mpfr_t r;
    mpfr_init2(r, p);
    std::string kx = fmt_mpfr(x), ky = fmt_mpfr(y);
    for (int sw = 0; sw < 2; sw++) {
        mpfr_srcptr a = sw ? y : x, b = sw ? x : y;
        std::string key = (sw ? ky + ";" + kx : kx + ";" + ky);
        if (t == SYMENGINE_POW || t == SYMENGINE_ATAN2) {
            mpfr_pow(r, a, b, MPFR_RNDN);
            out.push_back("2,3," + key + "=" + fmt_mpfr(r));
            mpfr_atan2(r, a, b, MPFR_RNDN);
            out.push_back("2,4," + key + "=" + fmt_mpfr(r));
        }
        if (t == SYMENGINE_UPPERGAMMA || t == SYMENGINE_LOWERGAMMA) {
            mpfr_gamma_inc(r, a, b, MPFR_RNDN);
            out.push_back("2,101," + key + "=" + fmt_mpfr(r));
        }
    }
    mpfr_clear(r);
}

// values (library, precision p) of the arguments of every function / Pow node of the tree -> candidate MPFR calls
static void walk_entries(const Basic &b, mpfr_prec_t p, std::vector<std::string> &out, int &budget)
{
    vec_basic args = b.get_args();
    for (auto &c : args)
        walk_entries(*c, p, out, budget);
    TypeID t = b.get_type_code();
    if (t == SYMENGINE_ADD || t == SYMENGINE_MUL || args.empty() || args.size() > 2 || budget <= 0)
        return;
    if (t == SYMENGINE_MAX || t == SYMENGINE_MIN || t == SYMENGINE_UNEVALUATED_EXPR || t == SYMENGINE_ABS
        || t == SYMENGINE_EQUALITY || t == SYMENGINE_UNEQUALITY || t == SYMENGINE_LESSTHAN || t == SYMENGINE_STRICTLESSTHAN)
        return;
    budget--;
    std::vector<mpfr_class> vals;
    for (auto &c : args) {
        mpfr_class v(p);
        try {
            eval_mpfr(v.get_mpfr_t(), *c, MPFR_RNDN);
        } catch (...) {
            return;
        }
        vals.push_back(std::move(v));
    }
    bool special = t == SYMENGINE_GAMMA || t == SYMENGINE_LOGGAMMA || t == SYMENGINE_ERF || t == SYMENGINE_ERFC
                   || t == SYMENGINE_UPPERGAMMA || t == SYMENGINE_LOWERGAMMA;
    for (auto &v : vals)
        unary_entries(v.get_mpfr_t(), p, out, special);
    if (vals.size() == 2)
        binary_entries(vals[0].get_mpfr_t(), vals[1].get_mpfr_t(), p, out, t);
}

static std::string oracle_entries(mpfr_prec_t p, const Basic &b)
{
    mpfr_t x, y;
    mpfr_init2(x, p);
    mpfr_init2(y, p);
    std::string s;
    mpfr_const_pi(x, MPFR_RNDN);
    s += "0,0,=" + fmt_mpfr(x);
    mpfr_const_euler(x, MPFR_RNDN);
    s += "|0,1,=" + fmt_mpfr(x);
    mpfr_const_catalan(x, MPFR_RNDN);
    s += "|0,2,=" + fmt_mpfr(x);
    mpfr_set_ui(y, 1, MPFR_RNDN);
    mpfr_exp(x, y, MPFR_RNDN);
    s += "|1,0,1:0=" + fmt_mpfr(x);
    mpfr_sqrt_ui(x, 5, MPFR_RNDN);
    s += "|1,106,5:0=" + fmt_mpfr(x);
    mpfr_clear(x);
    mpfr_clear(y);
    std::vector<std::string> more;
    int budget = 12;
    try {
        walk_entries(b, p, more, budget);
    } catch (...) {
    }
    std::sort(more.begin(), more.end());
    more.erase(std::unique(more.begin(), more.end()), more.end());
    for (auto &m : more)
        s += "|" + m;
    return s;
}

static void emit_fd(int fd, const std::string &s)
{
    size_t off = 0;
    while (off < s.size()) {
        ssize_t w = write(fd, s.data() + off, s.size() - off);
        if (w <= 0)
            break;
        off += (size_t)w;
    }
}

static void run_expr(const std::string &rest, int wfd)
{
    size_t sp = rest.find(' ');
    long prec = std::stol(rest.substr(0, sp));
    std::string rec = rest.substr(sp + 1);
    RCP<const Basic> b;
    try {
        b = build(verif::parse_sexp(rec));
    } catch (...) {
        emit_fd(wfd, "BUILD-" + verif::exn_name());
        return;
    }
    emit_fd(wfd, verif::dump(*b) + "\tP=" + std::to_string(prec));
    std::string oracle;
    // ---- eval_mpfr
    mpfr_class v(prec);
    std::string V;
    bool have = false;
    try {
        eval_mpfr(v.get_mpfr_t(), *b, MPFR_RNDN);
        V = fmt_mpfr(v.get_mpfr_t());
        have = true;
    } catch (...) {
        V = verif::exn_name();
    }
    emit_fd(wfd, "\tV=" + V);
    // ---- evalf
    std::string F = "-";
    if (prec > 53) {
        try {
            RCP<const Basic> f = evalf(*b, (unsigned long)prec, EvalfDomain::Real);
            if (is_a<RealMPFR>(*f)) {
                const RealMPFR &m = down_cast<const RealMPFR &>(*f);
                F = fmt_mpfr(m.i.get_mpfr_t());
                if (m.get_prec() != prec)
                    oracle += " evalf-precision(" + std::to_string((long)m.get_prec()) + ")";
            } else {
                F = "OTHER:" + class_name(*f);
            }
        } catch (...) {
            F = verif::exn_name();
        }
        if (F != V)
            oracle += " evalf-differs-from-eval_mpfr";
    }
    emit_fd(wfd, "\tF=" + F);
    emit_fd(wfd, "\tO=" + oracle_entries(prec, *b));
    // ---- accuracy against the reference (testing)
    std::string U = "-";
    if (have && prec >= 24 && mpfr_number_p(v.get_mpfr_t())) {
        Ref r;
        r.hp = 2 * prec + 64;
        r.p = prec;
        r.perturb = false;
        r.rng = 12345;
        r.bad = false;
        r.ill = false;
        std::vector<mpfr_class> base;
        r.base = &base;
        r.idx = 0;
        mpfr_t ref, alt, d, spread, tol;
        mpfr_init2(ref, r.hp);
        mpfr_init2(alt, r.hp);
        mpfr_init2(d, r.hp);
        mpfr_init2(spread, r.hp);
        mpfr_init2(tol, r.hp);
        ref_eval(r, *b, ref);
        if (!r.bad && mpfr_number_p(ref)) {
            mpfr_set_ui(spread, 0, MPFR_RNDN);
            bool ok = true;
            for (int k = 0; k < 6 && ok; k++) {
                Ref q = r;
                q.perturb = true;
                q.rng = 777 + 1000003 * (uint64_t)k;
                q.idx = 0;
                ref_eval(q, *b, alt);
                if (q.ill)
                    r.ill = true;
                if (q.bad || !mpfr_number_p(alt)) {
                    ok = false;
                    break;
                }
                mpfr_sub(d, alt, ref, MPFR_RNDN);
                mpfr_abs(d, d, MPFR_RNDN);
                if (mpfr_cmp(d, spread) > 0)
                    mpfr_set(spread, d, MPFR_RNDN);
            }
            if (ok) {
                // one ulp of the reference at precision prec
                mpfr_t ulp;
                mpfr_init2(ulp, r.hp);
                if (mpfr_zero_p(ref)) {
                    mpfr_set_ui(ulp, 0, MPFR_RNDN);
                } else {
                    mpfr_set_ui(ulp, 1, MPFR_RNDN);
                    mpfr_mul_2si(ulp, ulp, (long)mpfr_get_exp(ref) - prec, MPFR_RNDN);
                }
                mpfr_sub(d, v.get_mpfr_t(), ref, MPFR_RNDN);
                mpfr_abs(d, d, MPFR_RNDN);
                mpfr_mul_ui(tol, spread, 8, MPFR_RNDN);
                mpfr_t u4;
                mpfr_init2(u4, r.hp);
                mpfr_mul_ui(u4, ulp, 4, MPFR_RNDN);
                mpfr_add(tol, tol, u4, MPFR_RNDN);
                mpfr_clear(u4);
                if (!mpfr_zero_p(ulp)) {
                    mpfr_t q;
                    mpfr_init2(q, 64);
                    mpfr_div(q, d, ulp, MPFR_RNDN);
                    double uu = mpfr_get_d(q, MPFR_RNDN);
                    char buf[64];
                    snprintf(buf, sizeof buf, "%.3g", uu);
                    U = buf;
                    mpfr_clear(q);
                } else {
                    U = mpfr_zero_p(d) ? "0" : "inf";
                }
                // hopelessly ill-conditioned (more than half of the digits are lost to one-ulp perturbations of the
                // intermediate results, e.g. tan of a huge argument): no accuracy claim can be tested there
                mpfr_t lim;
                mpfr_init2(lim, r.hp);
                mpfr_abs(lim, ref, MPFR_RNDN);
                mpfr_mul_2si(lim, lim, -(long)(prec / 2), MPFR_RNDN);
                bool ill = r.ill || mpfr_cmp(spread, lim) > 0;
                mpfr_clear(lim);
                if (ill)
                    U = "-";
                else if (mpfr_cmp(d, tol) > 0)
                    oracle += " inaccurate:" + class_name(*b) + "(" + U + "ulp)";
                mpfr_clear(ulp);
            }
        }
        mpfr_clear(ref);
        mpfr_clear(alt);
        mpfr_clear(d);
        mpfr_clear(spread);
        mpfr_clear(tol);
    }
    emit_fd(wfd, "\tU=" + U);
    if (!oracle.empty())
        emit_fd(wfd, "\t#ORACLE:" + oracle.substr(1));
}

// ------------------------------------------------------------------ A cases
struct Opd {
    char kind; // I Q D M C X(complex double)
    RCP<const Number> num;
    bool exact_ok; // has an exact rational value
    mpq_t q;
    long prec; // for M
};

static bool parse_opd(const std::string &s, Opd &o)
{
    mpq_init(o.q);
    o.exact_ok = false;
    o.prec = 0;
    if (s == "C") {
        o.kind = 'C';
        o.num = Complex::from_two_nums(*integer(1), *integer(2));
        return true;
    }
    if (s == "CD") {
        o.kind = 'X';
        o.num = complex_double(std::complex<double>(1.0, 2.0));
        return true;
    }
    if (s.size() < 3 || s[1] != ':')
        return false;
    std::string body = s.substr(2);
    o.kind = s[0];
    if (o.kind == 'I') {
        o.num = integer(integer_class(body));
        mpq_set_str(o.q, body.c_str(), 10);
        o.exact_ok = true;
    } else if (o.kind == 'Q') {
        mpq_set_str(o.q, body.c_str(), 10);
        mpq_canonicalize(o.q);
        rational_class rc(o.q);
        o.num = Rational::from_mpq(rc);
        o.exact_ok = true;
    } else if (o.kind == 'D') {
        double d = verif::dbl_of_hex(body);
        o.num = real_double(d);
        if (std::isfinite(d)) {
            mpq_set_d(o.q, d);
            o.exact_ok = true;
        }
    } else if (o.kind == 'M') {
        auto f = split_char(body, ':');
        if (f.size() != 3)
            return false;
        o.prec = std::stol(f[0]);
        o.num = make_mpfr(o.prec, f[1], std::stol(f[2]));
        const RealMPFR &m = down_cast<const RealMPFR &>(*o.num);
        mpfr_get_q(o.q, m.i.get_mpfr_t());
        o.exact_ok = true;
    } else {
        return false;
    }
    return true;
}

static const char *kind_name(char k)
{
    switch (k) {
        case 'I': return "Integer";
        case 'Q': return "Rational";
        case 'D': return "RealDouble";
        case 'M': return "RealMPFR";
        case 'C': return "Complex";
        default: return "ComplexDouble";
    }
}

static std::string run_arith(const std::string &rest)
{
    auto f = verif::split_ws(rest);
    if (f.size() != 3)
        return "BADCASE";
    const std::string &op = f[0];
    Opd a, b;
    if (!parse_opd(f[1], a) || !parse_opd(f[2], b))
        return "BADCASE";
    RCP<const Number> res;
    std::string out;
    bool threw = false;
    try {
        if (op == "add") res = a.num->add(*b.num);
        else if (op == "sub") res = a.num->sub(*b.num);
        else if (op == "mul") res = a.num->mul(*b.num);
        else if (op == "div") res = a.num->div(*b.num);
        else if (op == "pow") res = a.num->pow(*b.num);
        else return "BADCASE";
    } catch (...) {
        out = verif::exn_name();
        threw = true;
    }
    std::string oracle;
    std::string tag = "(" + op + "," + kind_name(a.kind) + "," + kind_name(b.kind) + ")";
    long pmax = std::max(a.prec, b.prec);
    if (!threw) {
        if (is_a<RealMPFR>(*res)) {
            const RealMPFR &m = down_cast<const RealMPFR &>(*res);
            out = "M:" + std::to_string((long)m.get_prec()) + ":" + fmt_mpfr(m.i.get_mpfr_t());
        } else if (is_a<Integer>(*res)) {
            out = "I:" + down_cast<const Integer &>(*res).__str__();
        } else {
            out = "OTHER:" + verif::dump(*res);
        }
    }
    // ---- the property on the library's output
    bool real_operands = a.exact_ok && b.exact_ok && pmax > 0;
    if (real_operands) {
        int sa = mpq_sgn(a.q), sb = mpq_sgn(b.q);
        bool b_is_int = mpz_cmp_ui(mpq_denref(b.q), 1) == 0;
        if (op == "pow") {
            // the library answers "complex" for every negative base unless the exponent is an exact Integer
            // (a design choice: an inexact exponent is never treated as an integer); a non-negative base is real
            bool complex_result = sa < 0 && !b_is_int;
            bool may_throw = sa < 0 && b.kind != 'I';
            if (threw && out == "EXN:6" && !may_throw)
                oracle += " spurious-complex" + tag;
            if (!threw && is_a<RealMPFR>(*res) && complex_result
                && mpfr_nan_p(down_cast<const RealMPFR &>(*res).i.get_mpfr_t()))
                oracle += " nan-for-complex" + tag;
        }
        if (!threw && is_a<RealMPFR>(*res)) {
            const RealMPFR &m = down_cast<const RealMPFR &>(*res);
            if (m.get_prec() != pmax)
                oracle += " precision" + tag;
            // expected value: exact, then one rounding to pmax bits
            mpq_t ex;
            mpq_init(ex);
            bool have = true;
            if (op == "add") mpq_add(ex, a.q, b.q);
            else if (op == "sub") mpq_sub(ex, a.q, b.q);
            else if (op == "mul") mpq_mul(ex, a.q, b.q);
            else if (op == "div") {
                if (sb == 0) have = false;
                else mpq_div(ex, a.q, b.q);
            } else {
                // pow with an integer exponent of moderate size: exact
                if (b_is_int && mpz_cmpabs_ui(mpq_numref(b.q), 512) <= 0 && !(sa == 0 && sb < 0)) {
                    long k = mpz_get_si(mpq_numref(b.q));
                    unsigned long ak = (unsigned long)(k < 0 ? -k : k);
                    mpz_pow_ui(mpq_numref(ex), mpq_numref(a.q), ak);
                    mpz_pow_ui(mpq_denref(ex), mpq_denref(a.q), ak);
                    if (k < 0)
                        mpq_inv(ex, ex);
                    mpq_canonicalize(ex);
                } else {
                    have = false;
                }
            }
            if (have) {
                mpfr_t want;
                mpfr_init2(want, pmax);
                mpfr_set_q(want, ex, MPFR_RNDN);
                if (m.get_prec() == pmax && mpfr_number_p(m.i.get_mpfr_t())
                    && mpfr_cmp(want, m.i.get_mpfr_t()) != 0)
                    oracle += " misrounded" + tag + "[want=" + fmt_mpfr(want) + "]";
                mpfr_clear(want);
            } else if (op == "pow" && sa > 0 && mpfr_number_p(m.i.get_mpfr_t())) {
                // general real power: high precision reference (testing); must be within 1/2 ulp (+ 2^-20)
                mpfr_prec_t hp = 2 * pmax + 128;
                mpfr_t x, y, z, d, ulp;
                mpfr_inits2(hp, x, y, z, d, ulp, (mpfr_ptr)0);
                mpfr_set_q(x, a.q, MPFR_RNDN);
                mpfr_set_q(y, b.q, MPFR_RNDN);
                mpfr_pow(z, x, y, MPFR_RNDN);
                if (mpfr_number_p(z) && !mpfr_zero_p(z)) {
                    mpfr_set_ui(ulp, 1, MPFR_RNDN);
                    mpfr_mul_2si(ulp, ulp, (long)mpfr_get_exp(z) - pmax, MPFR_RNDN);
                    mpfr_sub(d, m.i.get_mpfr_t(), z, MPFR_RNDN);
                    mpfr_abs(d, d, MPFR_RNDN);
                    mpfr_div(d, d, ulp, MPFR_RNDN);
                    double uu = mpfr_get_d(d, MPFR_RNDN);
                    if (uu > 0.5 + 1e-6) {
                        char buf[64];
                        snprintf(buf, sizeof buf, "%.4g", uu);
                        oracle += " misrounded" + tag + "[" + buf + "ulp]";
                    }
                }
                mpfr_clears(x, y, z, d, ulp, (mpfr_ptr)0);
            }
            mpq_clear(ex);
        }
    }
    if (!oracle.empty())
        out += "\t#ORACLE:" + oracle.substr(1);
    return out;
}

static void process_line(const std::string &line, int wfd)
{
    if (line.compare(0, 2, "E ") == 0) {
        try {
            run_expr(line.substr(2), wfd);
        } catch (...) {
            emit_fd(wfd, "UNCAUGHT");
        }
    } else if (line.compare(0, 2, "A ") == 0) {
        std::string s;
        try {
            s = run_arith(line.substr(2));
        } catch (...) {
            s = "UNCAUGHT";
        }
        emit_fd(wfd, s);
    } else {
        emit_fd(wfd, "BADCASE");
    }
    emit_fd(wfd, "\n");
}

// One worker process handles consecutive cases and streams its output; when it dies (signal, timeout) the text
// written so far + CRASH:<sig>/HANG is the result of the case it was working on and a new worker continues.
int main()
{
    std::vector<std::string> lines;
    std::string line;
    while (std::getline(std::cin, line))
        lines.push_back(line);
    size_t next = 0;
    while (next < lines.size()) {
        int fd[2];
        if (pipe(fd) != 0)
            return 3;
        fflush(stdout);
        pid_t pid = fork();
        if (pid == 0) {
            close(fd[0]);
            struct rlimit rl;
            rl.rlim_cur = rl.rlim_max = 0;
            setrlimit(RLIMIT_CORE, &rl);
            int devnull = open("/dev/null", O_WRONLY);
            if (devnull >= 0)
                dup2(devnull, 2);
            for (size_t i = next; i < lines.size(); i++) {
                alarm(60);
                process_line(lines[i], fd[1]);
            }
            close(fd[1]);
            _exit(0);
        }
        close(fd[1]);
        std::string cur;
        char buf[65536];
        ssize_t r;
        while ((r = read(fd[0], buf, sizeof buf)) > 0) {
            for (ssize_t k = 0; k < r; k++) {
                if (buf[k] == '\n') {
                    std::cout << cur << "\n";
                    cur.clear();
                    next++;
                } else {
                    cur += buf[k];
                }
            }
        }
        close(fd[0]);
        int status = 0;
        waitpid(pid, &status, 0);
        if (next < lines.size()) {
            if (WIFSIGNALED(status)) {
                int sig = WTERMSIG(status);
                std::cout << cur << (sig == SIGALRM ? std::string("HANG") : "CRASH:" + std::to_string(sig)) << "\n";
            } else {
                std::cout << cur << "DIED" << "\n";
            }
            next++;
        }
        std::cout.flush();
    }
    return 0;
}
