// C03 / C04 / C07 driver (arithmetic constructors add.cpp, mul.cpp, pow.cpp, rational.cpp).
// Input lines:
//   T <recipe>
//       evaluates the recipe (harness/recipe.h syntax) and prints, for every arithmetic API call
//       of the recipe tree (add sub mul div pow neg sqrt cbrt addv mulv), one record
//           op ;; dump(arg1) ;; ... ;; dump(argn) ;; => ;; dump(result) ;; hash(result) ;; libcanon
//       records separated by TAB, in evaluation order; the last record of the line is the whole
//       recipe.  A call that throws gives "=> ;; EXN:k"; the recipe then stops.  The recipe runs
//       in a forked child that streams its records: a crash gives "=> ;; CRASH:sig" for the call
//       that was running.  libcanon = 1 when the library's own is_canonical predicates accept
//       every Add / Mul / Pow / Rational / Complex node of the result (and of the listed function
//       classes), else 0:<class of the first offending node>.
//   P <op> ;; <recipe 1> ;; ... ;; <recipe n>          op in add mul max min and or
//       the operands are evaluated once; the results of ALL permutations and ALL binary
//       bracketings (pairwise calls) and of the n-ary call on every permutation are compared with
//       eq and by dump.  Output:
//           n=<combinations> classes=<distinct results by eq> TAB [<pairwise>,<n-ary>] <form 1> => <dump 1> TAB ...
//       ([p,q] = number of pairwise / n-ary constructions that gave this result)
//       (one representative form per class; forms are recipes over $0..$n-1), followed by
//       "TAB ops TAB <dump of operand 0> TAB ...", the
//       distinct pairwise call records (as in T) after "TAB calls TAB", and
//       "\t#ORACLE:nonunique" when there is more than one class.
//   V <recipe> ;; <sym>=<number recipe> ;; ...
//       evaluates the recipe, substitutes the numbers and prints
//           dump(result) ;; dump(subs(result)) ;; <re bits> <im bits>
//       (the last field is eval_complex_double of the substituted result, or "-").
#include <sstream>
#include <string>
#include <vector>
#include <map>
#include <set>
#include <unordered_map>
#include <unordered_set>
#include <complex>
#include <iostream>
#include <functional>
#include <algorithm>
#include <memory>
#include <atomic>
#include <list>
#include <cmath>
#include <typeinfo>
#include <gmp.h>
#define private public
#define protected public
#include <symengine/basic.h>
#include <symengine/add.h>
#include <symengine/mul.h>
#include <symengine/pow.h>
#include <symengine/functions.h>
#include <symengine/logic.h>
#include <symengine/sets.h>
#include <symengine/complex.h>
#include <symengine/complex_double.h>
#include <symengine/real_double.h>
#include <symengine/infinity.h>
#include <symengine/nan.h>
#include <symengine/constants.h>
#include <symengine/visitor.h>
#include <symengine/eval_double.h>
#include <symengine/symengine_exception.h>
#undef private
#undef protected
#include <set>
#include <algorithm>
#include "common.h"
#include "dump.h"
#include "recipe.h"
using namespace SymEngine;

static std::vector<std::string> split_sep(const std::string &s, const std::string &sep)
{
    std::vector<std::string> v;
    size_t st = 0;
    while (true) {
        size_t p = s.find(sep, st);
        if (p == std::string::npos) {
            v.push_back(s.substr(st));
            break;
        }
        v.push_back(s.substr(st, p - st));
        st = p + sep.size();
    }
    return v;
}

static std::string trim(const std::string &s)
{
    size_t a = s.find_first_not_of(" \t");
    if (a == std::string::npos)
        return "";
    size_t b = s.find_last_not_of(" \t");
    return s.substr(a, b - a + 1);
}

// ------------------------------------------------------------------ the library's own predicates

static std::string lib_canon(const Basic &b);
static std::string lib_canon_args(const vec_basic &v)
{
    for (const auto &a : v) {
        std::string r = lib_canon(*a);
        if (!r.empty())
            return r;
    }
    return "";
}

#define ONEARG_CANON(CLS)                                                                          \
    if (is_a<CLS>(b)) {                                                                            \
        const CLS &f = down_cast<const CLS &>(b);                                                  \
        if (!f.is_canonical(f.get_arg()))                                                          \
            return #CLS;                                                                           \
        return lib_canon(*f.get_arg());                                                            \
    }

// "" when every node satisfies its class's is_canonical, else the class name of an offending node
static std::string lib_canon(const Basic &b)
{
    if (is_a<Rational>(b)) {
        const Rational &r = down_cast<const Rational &>(b);
        if (!r.is_canonical(r.as_rational_class()))
            return "Rational";
        return "";
    }
    if (is_a<Complex>(b)) {
        const Complex &c = down_cast<const Complex &>(b);
        if (!c.is_canonical(c.real_, c.imaginary_))
            return "Complex";
        return "";
    }
    if (is_a<Add>(b)) {
        const Add &a = down_cast<const Add &>(b);
        if (!a.is_canonical(a.get_coef(), a.get_dict()))
            return "Add";
        for (const auto &p : a.get_dict()) {
            std::string r = lib_canon(*p.first);
            if (!r.empty())
                return r;
            r = lib_canon(*p.second);
            if (!r.empty())
                return r;
        }
        return lib_canon(*a.get_coef());
    }
    if (is_a<Mul>(b)) {
        const Mul &a = down_cast<const Mul &>(b);
        if (!a.is_canonical(a.get_coef(), a.get_dict()))
            return "Mul";
        for (const auto &p : a.get_dict()) {
            std::string r = lib_canon(*p.first);
            if (!r.empty())
                return r;
            r = lib_canon(*p.second);
            if (!r.empty())
                return r;
        }
        return lib_canon(*a.get_coef());
    }
    if (is_a<Pow>(b)) {
        const Pow &p = down_cast<const Pow &>(b);
        if (!p.is_canonical(*p.get_base(), *p.get_exp()))
            return "Pow";
        std::string r = lib_canon(*p.get_base());
        if (!r.empty())
            return r;
        return lib_canon(*p.get_exp());
    }
    ONEARG_CANON(Sin) ONEARG_CANON(Cos) ONEARG_CANON(Tan) ONEARG_CANON(Cot) ONEARG_CANON(Sec)
    ONEARG_CANON(Csc) ONEARG_CANON(ASin) ONEARG_CANON(ACos) ONEARG_CANON(ATan) ONEARG_CANON(ACot)
    ONEARG_CANON(ASec) ONEARG_CANON(ACsc) ONEARG_CANON(Sinh) ONEARG_CANON(Cosh) ONEARG_CANON(Tanh)
    ONEARG_CANON(Coth) ONEARG_CANON(Sech) ONEARG_CANON(Csch) ONEARG_CANON(ASinh) ONEARG_CANON(ACosh)
    ONEARG_CANON(ATanh) ONEARG_CANON(ACoth) ONEARG_CANON(ASech) ONEARG_CANON(ACsch)
    ONEARG_CANON(Log) ONEARG_CANON(Abs) ONEARG_CANON(Sign) ONEARG_CANON(Floor) ONEARG_CANON(Ceiling)
    ONEARG_CANON(Truncate) ONEARG_CANON(Conjugate) ONEARG_CANON(Gamma) ONEARG_CANON(LogGamma)
    ONEARG_CANON(Erf) ONEARG_CANON(Erfc) ONEARG_CANON(LambertW) ONEARG_CANON(Dirichlet_eta)
    if (is_a_Number(b) or is_a<Symbol>(b) or is_a<Constant>(b) or is_a<Dummy>(b))
        return "";
    return lib_canon_args(b.get_args());
}

// ------------------------------------------------------------------ instrumented evaluation

struct Stop {
};

static int g_fd = -1; // the pipe of the streaming child
static void emit(const std::string &s)
{
    size_t off = 0;
    while (off < s.size()) {
        ssize_t w = write(g_fd, s.data() + off, s.size() - off);
        if (w <= 0)
            _exit(3);
        off += (size_t)w;
    }
}

static std::string result_fields(const RCP<const Basic> &r)
{
    std::ostringstream o;
    std::string lc = lib_canon(*r);
    o << verif::dump(*r) << " ;; " << r->hash() << " ;; " << (lc.empty() ? "1" : "0:" + lc);
    return o.str();
}

static bool is_arith_op(const std::string &op)
{
    return op == "add" || op == "sub" || op == "mul" || op == "div" || op == "pow" || op == "neg"
           || op == "sqrt" || op == "cbrt" || op == "addv" || op == "mulv";
}

static RCP<const Basic> apply_op(const std::string &op, const vec_basic &a)
{
    if (op == "add") return add(a.at(0), a.at(1));
    if (op == "sub") return sub(a.at(0), a.at(1));
    if (op == "mul") return mul(a.at(0), a.at(1));
    if (op == "div") return div(a.at(0), a.at(1));
    if (op == "pow") return pow(a.at(0), a.at(1));
    if (op == "neg") return neg(a.at(0));
    if (op == "sqrt") return sqrt(a.at(0));
    if (op == "cbrt") return cbrt(a.at(0));
    if (op == "addv") return add(a);
    if (op == "mulv") return mul(a);
    throw std::runtime_error("apply_op");
}

// one recorded API call
static RCP<const Basic> traced_call(const std::string &op, const vec_basic &args)
{
    std::string head = op;
    for (const auto &a : args)
        head += " ;; " + verif::dump(*a);
    head += " ;; => ;; ";
    emit(head);
    RCP<const Basic> r;
    try {
        r = apply_op(op, args);
    } catch (...) {
        emit(verif::exn_name() + "\t");
        throw Stop();
    }
    emit(result_fields(r) + "\t");
    return r;
}

static RCP<const Basic> teval(const verif::Sexp &e)
{
    if (e.is_atom || e.kids.empty() || !e.kids[0].is_atom)
        return verif::eval_recipe(e);
    const std::string &op = e.kids[0].atom;
    if (is_arith_op(op)) {
        vec_basic args;
        for (size_t i = 1; i < e.kids.size(); i++)
            args.push_back(teval(e.kids[i]));
        return traced_call(op, args);
    }
    if (op == "f1" && e.kids.size() == 3) {
        auto it = verif::f1_table().find(e.kids[1].atom);
        if (it == verif::f1_table().end())
            throw std::runtime_error("recipe: unknown f1");
        return it->second(teval(e.kids[2]));
    }
    if (op == "f2" && e.kids.size() == 4) {
        auto it = verif::f2_table().find(e.kids[1].atom);
        if (it == verif::f2_table().end())
            throw std::runtime_error("recipe: unknown f2");
        return it->second(teval(e.kids[2]), teval(e.kids[3]));
    }
    if (op == "fs") {
        vec_basic args;
        for (size_t i = 2; i < e.kids.size(); i++)
            args.push_back(teval(e.kids[i]));
        return function_symbol(e.kids[1].atom, args);
    }
    if (op == "max" || op == "min") {
        vec_basic args;
        for (size_t i = 1; i < e.kids.size(); i++)
            args.push_back(teval(e.kids[i]));
        return op == "max" ? max(args) : min(args);
    }
    return verif::eval_recipe(e);
}

static void mode_trace(const std::string &recipe)
{
    verif::Sexp s = verif::parse_sexp(recipe);
    RCP<const Basic> r = teval(s);
    // a recipe without arithmetic at the top still reports its value
    if (s.is_atom || !is_arith_op(s.kids[0].atom))
        emit("id ;; => ;; " + result_fields(r) + "\t");
}

// ------------------------------------------------------------------ permutations and bracketings

struct Form {
    std::string text;       // recipe over $i
    RCP<const Basic> value; // null when the construction threw
    std::string err;
};

static std::set<std::string> g_calls;
static std::string g_calls_out;

static RCP<const Basic> pair_op(const std::string &op, const RCP<const Basic> &a, const RCP<const Basic> &b)
{
    if (op == "add") return add(a, b);
    if (op == "mul") return mul(a, b);
    if (op == "max") return max({a, b});
    if (op == "min") return min({a, b});
    if (op == "and" || op == "or") {
        set_boolean s;
        s.insert(verif::as_bool(a));
        s.insert(verif::as_bool(b));
        return op == "and" ? logical_and(s) : logical_or(s);
    }
    throw std::runtime_error("pair_op");
}
static RCP<const Basic> nary_op(const std::string &op, const vec_basic &v)
{
    if (op == "add") return add(v);
    if (op == "mul") return mul(v);
    if (op == "max") return max(v);
    if (op == "min") return min(v);
    set_boolean s;
    for (auto &x : v)
        s.insert(verif::as_bool(x));
    return op == "and" ? logical_and(s) : logical_or(s);
}

static Form combine(const std::string &op, const Form &l, const Form &r)
{
    Form f;
    f.text = "(" + op + " " + l.text + " " + r.text + ")";
    if (l.value.is_null() || r.value.is_null()) {
        f.err = l.value.is_null() ? l.err : r.err;
        return f;
    }
    try {
        f.value = pair_op(op, l.value, r.value);
        if (op == "add" || op == "mul") {
            std::string rec = op + " ;; " + verif::dump(*l.value) + " ;; " + verif::dump(*r.value) + " ;; => ;; "
                              + result_fields(f.value);
            if (g_calls.insert(rec).second)
                g_calls_out += rec + "\t";
        }
    } catch (...) {
        f.err = verif::exn_name();
    }
    return f;
}

// all binary bracketings of the sequence items[lo, hi)
static std::vector<Form> bracketings(const std::string &op, const std::vector<Form> &items, size_t lo, size_t hi)
{
    std::vector<Form> out;
    if (hi - lo == 1) {
        out.push_back(items[lo]);
        return out;
    }
    for (size_t mid = lo + 1; mid < hi; mid++) {
        std::vector<Form> ls = bracketings(op, items, lo, mid), rs = bracketings(op, items, mid, hi);
        for (auto &l : ls)
            for (auto &r : rs)
                out.push_back(combine(op, l, r));
    }
    return out;
}

static std::string mode_perm(const std::string &body)
{
    std::vector<std::string> parts = split_sep(body, " ;; ");
    std::string op = trim(parts.at(0));
    std::vector<Form> ops;
    for (size_t i = 1; i < parts.size(); i++) {
        Form f;
        f.text = "$" + std::to_string(i - 1);
        f.value = verif::eval_recipe(trim(parts[i]));
        ops.push_back(f);
    }
    std::vector<size_t> idx(ops.size());
    for (size_t i = 0; i < idx.size(); i++)
        idx[i] = i;
    std::vector<Form> classes; // one representative per eq-class
    std::vector<std::string> class_dumps;
    std::vector<size_t> nbin, nnary; // how many pairwise / n-ary constructions fall in the class
    size_t ncomb = 0;
    bool dump_split = false; // eq but different canonical dump
    auto account = [&](const Form &f, bool nary) {
        ncomb++;
        std::string d = f.value.is_null() ? f.err : verif::dump_sorted(*f.value);
        for (size_t k = 0; k < classes.size(); k++) {
            bool same;
            if (f.value.is_null() || classes[k].value.is_null())
                same = f.value.is_null() && classes[k].value.is_null() && class_dumps[k] == d;
            else
                same = eq(*f.value, *classes[k].value);
            if (same) {
                if (class_dumps[k] != d)
                    dump_split = true;
                (nary ? nnary[k] : nbin[k])++;
                return;
            }
        }
        classes.push_back(f);
        class_dumps.push_back(d);
        nbin.push_back(nary ? 0 : 1);
        nnary.push_back(nary ? 1 : 0);
    };
    do {
        std::vector<Form> items;
        for (size_t i : idx)
            items.push_back(ops[i]);
        if (items.size() >= 2) {
            for (auto &f : bracketings(op, items, 0, items.size()))
                account(f, false);
        }
        Form nf;
        nf.text = "(" + op + "v";
        vec_basic v;
        for (auto &it : items) {
            nf.text += " " + it.text;
            v.push_back(it.value);
        }
        nf.text += ")";
        try {
            nf.value = nary_op(op, v);
            if (op == "add" || op == "mul") {
                std::string rec = op + "v";
                for (auto &x : v)
                    rec += " ;; " + verif::dump(*x);
                rec += " ;; => ;; " + result_fields(nf.value);
                if (g_calls.insert(rec).second)
                    g_calls_out += rec + "\t";
            }
        } catch (...) {
            nf.err = verif::exn_name();
        }
        account(nf, true);
    } while (std::next_permutation(idx.begin(), idx.end()));
    std::ostringstream o;
    o << "n=" << ncomb << " classes=" << classes.size();
    for (size_t k = 0; k < classes.size(); k++) {
        o << "\t[" << nbin[k] << "," << nnary[k] << "] " << classes[k].text << " => ";
        if (classes[k].value.is_null())
            o << classes[k].err;
        else
            o << result_fields(classes[k].value);
    }
    o << "\tops";
    for (auto &f : ops)
        o << "\t" << (f.value.is_null() ? std::string("-") : verif::dump(*f.value));
    o << "\tcalls\t" << g_calls_out;
    if (classes.size() > 1)
        o << "\t#ORACLE:nonunique";
    else if (dump_split)
        o << "\t#ORACLE:eq-but-different-dump";
    return o.str();
}

// ------------------------------------------------------------------ values

static std::string mode_value(const std::string &body)
{
    std::vector<std::string> parts = split_sep(body, " ;; ");
    RCP<const Basic> e;
    try {
        e = verif::eval_recipe(trim(parts.at(0)));
    } catch (...) {
        return verif::exn_name();
    }
    map_basic_basic m;
    for (size_t i = 1; i < parts.size(); i++) {
        std::string p = trim(parts[i]);
        size_t eqp = p.find('=');
        if (eqp == std::string::npos)
            continue;
        m[symbol(p.substr(0, eqp))] = verif::eval_recipe(p.substr(eqp + 1));
    }
    std::ostringstream o;
    o << verif::dump(*e) << " ;; ";
    RCP<const Basic> v;
    try {
        v = e->subs(m);
    } catch (...) {
        o << verif::exn_name() << " ;; -";
        return o.str();
    }
    o << verif::dump(*v) << " ;; ";
    try {
        std::complex<double> c = eval_complex_double(*v);
        o << verif::dblbits(c.real()) << " " << verif::dblbits(c.imag());
    } catch (...) {
        o << "-";
    }
    return o.str();
}

static void process_line(const std::string &line)
{
    if (line.size() < 2) {
        emit("BADLINE");
        return;
    }
    std::string body = line.substr(2);
    try {
        if (line[0] == 'T')
            mode_trace(body);
        else if (line[0] == 'P') {
            g_calls.clear();
            g_calls_out.clear();
            emit(mode_perm(body));
        } else if (line[0] == 'V')
            emit(mode_value(body));
        else
            emit("BADLINE");
    } catch (const Stop &) {
    } catch (...) {
        emit("UNCAUGHT");
    }
}

// All input lines are processed in ONE forked child that streams one output line per input line
// (fork is expensive here); when the child dies on a line, that line ends with CRASH:<sig> / HANG
// and a fresh child resumes at the next line.
int main()
{
    std::vector<std::string> lines;
    std::string line;
    while (std::getline(std::cin, line))
        lines.push_back(line);
    size_t start = 0;
    while (start < lines.size()) {
        int fd[2];
        if (pipe(fd) != 0)
            return 2;
        fflush(stdout);
        pid_t pid = fork();
        if (pid == 0) {
            close(fd[0]);
            struct rlimit rl;
            rl.rlim_cur = rl.rlim_max = 0;
            setrlimit(RLIMIT_CORE, &rl);
            g_fd = fd[1];
            for (size_t i = start; i < lines.size(); i++) {
                alarm(lines[i].size() > 0 && lines[i][0] == 'P' ? 120 : 20);
                process_line(lines[i]);
                emit("\n");
            }
            close(fd[1]);
            _exit(0);
        }
        close(fd[1]);
        std::string out;
        char buf[65536];
        ssize_t r;
        size_t done = 0;
        while ((r = read(fd[0], buf, sizeof buf)) > 0) {
            out.append(buf, (size_t)r);
            size_t pos;
            while ((pos = out.find('\n')) != std::string::npos) {
                std::cout << out.substr(0, pos) << "\n";
                out.erase(0, pos + 1);
                done++;
            }
        }
        close(fd[0]);
        int status = 0;
        waitpid(pid, &status, 0);
        if (start + done >= lines.size())
            break;
        // the child died while processing line start+done
        std::string how = "CRASH:?";
        if (WIFSIGNALED(status)) {
            int sig = WTERMSIG(status);
            how = sig == SIGALRM ? "HANG" : "CRASH:" + std::to_string(sig);
        } else if (WIFEXITED(status)) {
            how = "EXIT:" + std::to_string(WEXITSTATUS(status));
        }
        std::cout << out << how << "\n";
        start = start + done + 1;
    }
    std::cout.flush();
    return 0;
}
