// Correspondence driver for C16 / C17 / C18 (printer, parser, parser object).
//
// Input: one case per line, fields separated by TAB.
//   P <conv> <hexbytes> \t <model outcome> \t <oracle recipe | ->
//        parse(bytes, convert_xor = conv) on the library; the model's outcome (a recipe of library
//        calls, `EXN:4`, ...) and the oracle recipe (the expression built directly from the abstract
//        syntax tree the string was generated from) are evaluated with the library's constructors.
//        out:  I=<result> \t M=<result> \t O=<result|-> [\t#ORACLE:...]
//   S <recipe (harness/recipe.h)> [\t <recipe2>]
//        e = recipe; out: D=<dump e> \t STR=<hex str(e)> \t RT=<result of parse(str(e))> \t EQ=<0|1>
//        with recipe2: \t D2=.. \t STR2=.. \t EQ12=<0|1>
//        oracle: parse(str(e)) must be eq to e; eq(e, e2) implies str(e) == str(e2)
//   H <conv> <hex>,<hex>,... [\t <model outcomes ;-separated> \t <model res ;-separated>]
//        one Parser object parses the inputs in order; after each call the result, the public field
//        `res`, and the result of a fresh parser on the same input are printed:
//        out: R=<r1>;<r2>.. \t RES=<..>;.. \t F=<..>;.. [\t M=<..>;.. \t MRES=<..>;..] [\t#ORACLE:...]
//        oracle: R_i == F_i for every i
//   B <hex>,<hex>,...   the same for SbmlParser / parse_sbml (no model): R=.. \t F=.. [\t#ORACLE]
//   E <model outcome>   evaluates one model outcome: out: <result>
// <result> ::= OK:<dump_sorted> | EXN:<n> | UB | NULL | CRASH:<sig> | HANG | BADRECIPE:<msg>
#include <symengine/basic.h>
#include <symengine/add.h>
#include <symengine/mul.h>
#include <symengine/pow.h>
#include <symengine/integer.h>
#include <symengine/rational.h>
#include <symengine/complex.h>
#include <symengine/real_double.h>
#include <symengine/complex_double.h>
#include <symengine/constants.h>
#include <symengine/infinity.h>
#include <symengine/nan.h>
#include <symengine/functions.h>
#include <symengine/logic.h>
#include <symengine/sets.h>
#include <symengine/ntheory_funcs.h>
#include <symengine/visitor.h>
#include <symengine/printers.h>
#include <symengine/symengine_exception.h>
#include <symengine/parser.h>
#include <symengine/parser/parser.h>
#include <symengine/parser/sbml/sbml_parser.h>
#include <cerrno>
#include "common.h"
#include "dump.h"
#include "recipe.h"

using namespace SymEngine;
using verif::Sexp;

struct ModelUB {
};

// Cases are first run many-per-child (main); a case during which that child dies is run again with
// every library call in its own forked child (g_forked), which names the call that crashed or hung.
static bool g_forked = false;
static std::string guard(const std::function<std::string()> &f, unsigned timeout_s = 10)
{
    return g_forked ? verif::run_forked(f, timeout_s) : f();
}

static std::string unhex(const std::string &h)
{
    std::string s;
    if (h == "-") // the empty string inside a comma-separated list
        return s;
    for (size_t i = 0; i + 1 < h.size(); i += 2)
        s += (char)std::stoi(h.substr(i, 2), nullptr, 16);
    return s;
}
static std::string tohex(const std::string &s)
{
    static const char *d = "0123456789abcdef";
    std::string o;
    for (unsigned char c : s) {
        o += d[c >> 4];
        o += d[c & 15];
    }
    return o;
}

typedef RCP<const Basic> (*fn1)(const RCP<const Basic> &);
typedef RCP<const Basic> (*fn2)(const RCP<const Basic> &, const RCP<const Basic> &);

static RCP<const Basic> eq1(const RCP<const Basic> &a)
{
    return Eq(a);
}
template <RCP<const Boolean> (*F)(const RCP<const Basic> &, const RCP<const Basic> &)>
static RCP<const Basic> rel2(const RCP<const Basic> &a, const RCP<const Basic> &b)
{
    return F(a, b);
}
static RCP<const Basic> eq2(const RCP<const Basic> &a, const RCP<const Basic> &b)
{
    return Eq(a, b);
}

// library functions by their C++ identifiers, as they appear in parser.cpp / parser.yy
static const std::map<std::string, fn1> &tab1()
{
    static const std::map<std::string, fn1> t = {
        {"sin", sin},         {"cos", cos},         {"tan", tan},
        {"cot", cot},         {"csc", csc},         {"sec", sec},
        {"asin", asin},       {"acos", acos},       {"atan", atan},
        {"asec", asec},       {"acsc", acsc},       {"acot", acot},
        {"sinh", sinh},       {"cosh", cosh},       {"tanh", tanh},
        {"coth", coth},       {"sech", sech},       {"csch", csch},
        {"asinh", asinh},     {"acosh", acosh},     {"atanh", atanh},
        {"asech", asech},     {"acoth", acoth},     {"acsch", acsch},
        {"gamma", gamma},     {"sqrt", sqrt},       {"abs", abs},
        {"sign", sign},       {"exp", exp},         {"erf", erf},
        {"erfc", erfc},       {"loggamma", loggamma}, {"lambertw", lambertw},
        {"dirichlet_eta", dirichlet_eta}, {"floor", floor}, {"ceiling", ceiling},
        {"log", log},         {"zeta", zeta},       {"primepi", primepi},
        {"primorial", primorial}, {"neg", neg},     {"Eq", eq1},
    };
    return t;
}
static const std::map<std::string, fn2> &tab2()
{
    static const std::map<std::string, fn2> t = {
        {"pow", pow},   {"beta", beta}, {"log", log}, {"zeta", zeta},
        {"lowergamma", lowergamma}, {"uppergamma", uppergamma}, {"polygamma", polygamma},
        {"kronecker_delta", kronecker_delta}, {"atan2", atan2},
        {"add", add},   {"sub", sub},   {"mul", mul}, {"div", div},
        {"Eq", eq2},    {"Ne", rel2<Ne>}, {"Ge", rel2<Ge>}, {"Gt", rel2<Gt>},
        {"Le", rel2<Le>}, {"Lt", rel2<Lt>},
    };
    return t;
}

static RCP<const Basic> konst(const std::string &c)
{
    if (c == "E") return E;
    if (c == "EulerGamma") return EulerGamma;
    if (c == "Catalan") return Catalan;
    if (c == "GoldenRatio") return GoldenRatio;
    if (c == "pi") return pi;
    if (c == "I") return I;
    if (c == "Inf") return Inf;
    if (c == "NegInf") return NegInf;
    if (c == "ComplexInf") return ComplexInf;
    if (c == "Nan") return Nan;
    if (c == "boolTrue") return boolTrue;
    if (c == "boolFalse") return boolFalse;
    throw std::runtime_error("recipe: unknown constant " + c);
}

// mode: 0 = plain, 1 = Boolean arguments checked (ParseError), 2 = unchecked cast (UB unless Boolean)
static RCP<const Boolean> boolarg(const RCP<const Basic> &x, int mode)
{
    if (!is_a_Boolean(*x)) {
        if (mode == 2)
            throw ModelUB();
        throw ParseError("Boolean function received non-boolean arguments");
    }
    return rcp_static_cast<const Boolean>(x);
}

static RCP<const Basic> ev(const Sexp &e);

static RCP<const Basic> apply_fn(const std::string &f, vec_basic &a, int mode)
{
    if (mode != 0) {
        if (f == "logical_not" && a.size() == 1)
            return logical_not(boolarg(a[0], mode));
        if (f == "logical_xor" || f == "logical_xnor") {
            vec_boolean v;
            for (auto &x : a)
                v.push_back(boolarg(x, mode));
            return f == "logical_xor" ? logical_xor(v) : logical_xnor(v);
        }
        if (f == "logical_and" || f == "logical_or" || f == "logical_nand" || f == "logical_nor") {
            set_boolean s;
            for (auto &x : a)
                s.insert(boolarg(x, mode));
            if (f == "logical_and") return logical_and(s);
            if (f == "logical_or") return logical_or(s);
            if (f == "logical_nand") return logical_nand(s);
            return logical_nor(s);
        }
        throw std::runtime_error("recipe: unknown boolean function " + f);
    }
    if (f == "max") return max(a);
    if (f == "min") return min(a);
    if (f == "levi_civita") return levi_civita(a);
    if (a.size() == 1) {
        auto it = tab1().find(f);
        if (it != tab1().end())
            return it->second(a[0]);
    }
    if (a.size() == 2) {
        auto it = tab2().find(f);
        if (it != tab2().end())
            return it->second(a[0], a[1]);
    }
    throw std::runtime_error("recipe: unknown function " + f + "/" + std::to_string(a.size()));
}

static RCP<const Basic> ev(const Sexp &e)
{
    if (e.is_atom) {
        if (e.atom == "one")
            return one;
        throw std::runtime_error("recipe: bad atom " + e.atom);
    }
    if (e.kids.empty() || !e.kids[0].is_atom)
        throw std::runtime_error("recipe: bad form");
    const std::string &op = e.kids[0].atom;
    auto atom = [&](size_t i) -> const std::string & { return e.kids.at(i).atom; };
    if (op == "i") return integer(integer_class(atom(1)));
    if (op == "fl") {
        // the double nearest to the decimal literal (glibc strtod is correctly rounded)
        std::string lit = unhex(atom(1));
        char *end = nullptr;
        double d = std::strtod(lit.c_str(), &end);
        if (end != lit.c_str() + lit.size())
            throw std::runtime_error("recipe: bad float literal " + lit);
        return real_double(d);
    }
    if (op == "badnum") throw std::runtime_error("recipe: badnum");
    if (op == "sx") return symbol(unhex(atom(1)));
    if (op == "k") return konst(atom(1));
    if (op == "ap" || op == "apb" || op == "apu") {
        vec_basic a;
        for (size_t i = 2; i < e.kids.size(); i++)
            a.push_back(ev(e.kids[i]));
        return apply_fn(atom(1), a, op == "ap" ? 0 : (op == "apb" ? 1 : 2));
    }
    if (op == "fsx") {
        vec_basic a;
        for (size_t i = 2; i < e.kids.size(); i++)
            a.push_back(ev(e.kids[i]));
        return function_symbol(unhex(atom(1)), a);
    }
    if (op == "pwx") {
        PiecewiseVec v;
        for (size_t i = 1; i + 1 < e.kids.size(); i += 2) {
            RCP<const Basic> x = ev(e.kids[i]);
            RCP<const Basic> c = ev(e.kids[i + 1]);
            if (!is_a_Boolean(*c))
                throw ParseError("Not of Boolean type in Piecewise arguments");
            v.push_back({x, rcp_static_cast<const Boolean>(c)});
        }
        return piecewise(std::move(v));
    }
    throw std::runtime_error("recipe: unknown op " + op);
}

// result of a computation returning an expression
template <typename F>
static std::string result_of(F f)
{
    try {
        RCP<const Basic> r = f();
        if (r.is_null())
            return "NULL";
        return "OK:" + verif::dump_sorted(*r);
    } catch (const ModelUB &) {
        return "UB";
    } catch (const std::runtime_error &x) {
        if (std::string(x.what()).compare(0, 7, "recipe:") == 0 || std::string(x.what()).compare(0, 5, "sexp:") == 0)
            return std::string("BADRECIPE:") + x.what();
        return verif::exn_name();
    } catch (...) {
        return verif::exn_name();
    }
}

// a model outcome: "OK <recipe>", "EXN:4", "NONE", "FUEL"
static std::string eval_outcome(const std::string &m)
{
    if (m.compare(0, 3, "OK ") == 0) {
        std::string r = m.substr(3);
        return result_of([&]() { return ev(verif::parse_sexp(r)); });
    }
    if (m == "NONE")
        return "NULL";
    return m;
}

static std::vector<std::string> split(const std::string &s, char sep)
{
    std::vector<std::string> v;
    size_t st = 0;
    while (true) {
        size_t p = s.find(sep, st);
        if (p == std::string::npos) {
            v.push_back(s.substr(st));
            break;
        }
        v.push_back(s.substr(st, p - st));
        st = p + 1;
    }
    return v;
}

// like verif::run_forked, but the child streams its output (a crash keeps what was written)
static std::string run_forked_stream(const std::function<void(const std::function<void(const std::string &)> &)> &f,
                                     unsigned timeout_s = 20)
{
    int fd[2];
    if (pipe(fd) != 0)
        return "PIPEFAIL";
    fflush(stdout);
    pid_t pid = fork();
    if (pid == 0) {
        close(fd[0]);
        alarm(timeout_s);
        struct rlimit rl;
        rl.rlim_cur = rl.rlim_max = 0;
        setrlimit(RLIMIT_CORE, &rl);
        auto emit = [&](const std::string &s) {
            size_t off = 0;
            while (off < s.size()) {
                ssize_t w = write(fd[1], s.data() + off, s.size() - off);
                if (w <= 0)
                    break;
                off += (size_t)w;
            }
        };
        try {
            f(emit);
        } catch (...) {
            emit("UNCAUGHT");
        }
        close(fd[1]);
        _exit(0);
    }
    close(fd[1]);
    std::string out;
    char buf[65536];
    ssize_t r;
    while ((r = read(fd[0], buf, sizeof buf)) > 0)
        out.append(buf, (size_t)r);
    close(fd[0]);
    int status = 0;
    waitpid(pid, &status, 0);
    if (WIFSIGNALED(status)) {
        int sig = WTERMSIG(status);
        if (sig == SIGALRM)
            return out + "HANG";
        return out + "CRASH:" + std::to_string(sig);
    }
    return out;
}

static std::string case_P(const std::vector<std::string> &fld)
{
    std::vector<std::string> h = verif::split_ws(fld[0]);
    if (h.size() < 2)
        return "BADCASE";
    bool conv = h[1] == "1";
    std::string s = h.size() >= 3 ? unhex(h[2]) : "";
    std::string impl = guard([&]() { return result_of([&]() { return parse(s, conv); }); });
    std::string out = "I=" + impl;
    std::string mres = "-", ores = "-";
    if (fld.size() >= 2)
        mres = guard([&]() { return eval_outcome(fld[1]); });
    if (fld.size() >= 3 && fld[2] != "-")
        ores = guard([&]() { return eval_outcome("OK " + fld[2]); });
    out += "\tM=" + mres + "\tO=" + ores;
    if (ores != "-" && ores != impl)
        out += "\t#ORACLE:parse result differs from the expression denoted by the abstract syntax tree";
    return out;
}

// The expression rebuilt bottom-up from its own tree with the public constructors (the calls the
// printed string denotes).  An expression that is not eq to its own reconstruction is not in canonical
// form (a C03/C04 matter): no printer/parser pair can round-trip it.
static RCP<const Basic> rebuild(const RCP<const Basic> &b)
{
    if (is_a_Number(*b) or is_a<Symbol>(*b) or is_a<Constant>(*b) or is_a<BooleanAtom>(*b))
        return b;
    if (is_a<Add>(*b)) {
        const Add &a = down_cast<const Add &>(*b);
        RCP<const Basic> r = a.get_coef();
        for (const auto &p : a.get_dict())
            r = add(r, mul(p.second, rebuild(p.first)));
        return r;
    }
    if (is_a<Mul>(*b)) {
        const Mul &a = down_cast<const Mul &>(*b);
        RCP<const Basic> r = a.get_coef();
        for (const auto &p : a.get_dict())
            r = mul(r, pow(rebuild(p.first), rebuild(p.second)));
        return r;
    }
    if (is_a<Pow>(*b)) {
        const Pow &p = down_cast<const Pow &>(*b);
        return pow(rebuild(p.get_base()), rebuild(p.get_exp()));
    }
    vec_basic args;
    for (const auto &x : b->get_args())
        args.push_back(rebuild(x));
    if (is_a<FunctionSymbol>(*b))
        return function_symbol(down_cast<const FunctionSymbol &>(*b).get_name(), args);
    if (dynamic_cast<const OneArgFunction *>(b.get()) != nullptr)
        return down_cast<const OneArgFunction &>(*b).create(args);
    if (dynamic_cast<const TwoArgFunction *>(b.get()) != nullptr)
        return down_cast<const TwoArgFunction &>(*b).create(args);
    if (dynamic_cast<const MultiArgFunction *>(b.get()) != nullptr)
        return down_cast<const MultiArgFunction &>(*b).create(args);
    if (is_a<Equality>(*b)) return Eq(args[0], args[1]);
    if (is_a<Unequality>(*b)) return Ne(args[0], args[1]);
    if (is_a<LessThan>(*b)) return Le(args[0], args[1]);
    if (is_a<StrictLessThan>(*b)) return Lt(args[0], args[1]);
    if (is_a<Not>(*b) and args.size() == 1 and is_a_Boolean(*args[0]))
        return logical_not(rcp_static_cast<const Boolean>(args[0]));
    if (is_a<And>(*b) or is_a<Or>(*b)) {
        set_boolean s;
        for (auto &x : args) {
            if (!is_a_Boolean(*x))
                return b;
            s.insert(rcp_static_cast<const Boolean>(x));
        }
        return is_a<And>(*b) ? logical_and(s) : logical_or(s);
    }
    if (is_a<Piecewise>(*b)) {
        PiecewiseVec v;
        for (const auto &q : down_cast<const Piecewise &>(*b).get_vec()) {
            RCP<const Basic> c = rebuild(q.second);
            if (!is_a_Boolean(*c))
                return b;
            v.push_back({rebuild(q.first), rcp_static_cast<const Boolean>(c)});
        }
        return piecewise(std::move(v));
    }
    return b;
}

static std::string case_S(const std::vector<std::string> &fld)
{
    if (g_forked) {
        // does building the expression(s) alone already kill the process?  (not printer/parser business)
        std::string b = verif::run_forked(
            [&]() -> std::string {
                try {
                    verif::eval_recipe(fld[0].substr(2));
                    if (fld.size() >= 2)
                        verif::eval_recipe(fld[1]);
                } catch (...) {
                }
                return "BUILT";
            },
            10);
        if (b != "BUILT")
            return "SKIP:constructor-" + b;
    }
    return guard(
        [&]() -> std::string {
            std::string r1 = fld[0].substr(2);
            RCP<const Basic> e;
            try {
                e = verif::eval_recipe(r1);
            } catch (...) {
                return "SKIP:" + verif::exn_name();
            }
            std::string s = str(*e);
            std::string out = "D=" + verif::dump(*e) + "\tSTR=" + tohex(s);
            std::string oracle;
            RCP<const Basic> back;
            std::string rt = result_of([&]() {
                back = parse(s);
                return back;
            });
            out += "\tRT=" + rt;
            bool same = !back.is_null() && eq(*back, *e);
            // EQ=2: not eq, but it prints the same 15 significant digits (doubles)
            // (signed zeros are eq: "-0.0" and "0.0" count as the same printed digits)
            auto unsign_zero = [](const std::string &t) {
                std::string o;
                for (size_t i = 0; i < t.size(); i++) {
                    if (t[i] == '-' && t.compare(i + 1, 3, "0.0") == 0
                        && (i + 4 >= t.size() || !isdigit((unsigned char)t[i + 4]))
                        && (i == 0 || !isdigit((unsigned char)t[i - 1])))
                        continue;
                    o += t[i];
                }
                return o;
            };
            bool same_printed = !same && !back.is_null() && unsign_zero(str(*back)) == unsign_zero(s);
            out += std::string("\tEQ=") + (same ? "1" : (same_printed ? "2" : "0"));
            if (!same && !same_printed) {
                // is e a fixpoint of its own constructors at all?
                bool stable = false;
                try {
                    stable = eq(*rebuild(e), *e);
                } catch (...) {
                }
                out += std::string("\tSTABLE=") + (stable ? "1" : "0");
                if (stable)
                    oracle += " parse(str(e)) is not eq to e;";
            }
            if (fld.size() >= 2) {
                RCP<const Basic> e2;
                try {
                    e2 = verif::eval_recipe(fld[1]);
                } catch (...) {
                    return out + "\tSKIP2:" + verif::exn_name();
                }
                std::string s2 = str(*e2);
                bool e12 = eq(*e, *e2);
                out += "\tD2=" + verif::dump(*e2) + "\tSTR2=" + tohex(s2) + "\tEQ12=" + (e12 ? "1" : "0");
                if (e12 && s != s2)
                    oracle += " eq expressions print differently;";
            }
            if (!oracle.empty())
                out += "\t#ORACLE:" + oracle;
            return out;
        });
}

static std::string join(const std::vector<std::string> &v, char sep)
{
    std::string o;
    for (size_t i = 0; i < v.size(); i++) {
        if (i)
            o += sep;
        o += v[i];
    }
    return o;
}

static std::string case_H(const std::vector<std::string> &fld)
{
    std::vector<std::string> h = verif::split_ws(fld[0]);
    if (h.size() < 2)
        return "BADCASE";
    bool conv = h[1] == "1";
    std::vector<std::string> ins;
    if (h.size() >= 3)
        for (auto &x : split(h[2], ','))
            ins.push_back(unhex(x));
    size_t n = ins.size();
    // reused parser, streaming "r|res;" per input
    auto history = [&](const std::function<void(const std::string &)> &emit) {
        Parser p;
        for (size_t i = 0; i < n; i++) {
            std::string r = result_of([&]() { return p.parse(ins[i], conv); });
            std::string rs = p.res.is_null() ? std::string("NULL") : "OK:" + verif::dump_sorted(*p.res);
            emit(r + "|" + rs + ";");
        }
    };
    std::string reused;
    if (g_forked)
        reused = run_forked_stream(history, 20);
    else
        history([&](const std::string &x) { reused += x; });
    std::vector<std::string> R, RES;
    {
        std::vector<std::string> items = split(reused, ';');
        std::string tail = items.back(); // "" or CRASH/HANG
        items.pop_back();
        for (auto &it : items) {
            size_t p = it.find('|');
            R.push_back(it.substr(0, p));
            RES.push_back(it.substr(p + 1));
        }
        if (!tail.empty()) {
            R.push_back(tail);
            RES.push_back(tail);
        }
    }
    std::vector<std::string> F;
    for (size_t i = 0; i < n; i++)
        F.push_back(guard([&]() { return result_of([&]() { return parse(ins[i], conv); }); }));
    std::string out = "R=" + join(R, ';') + "\tRES=" + join(RES, ';') + "\tF=" + join(F, ';');
    if (fld.size() >= 3) {
        std::vector<std::string> M, MR;
        for (auto &m : split(fld[1], ';'))
            M.push_back(guard([&]() { return eval_outcome(m); }));
        for (auto &m : split(fld[2], ';'))
            MR.push_back(guard([&]() { return eval_outcome(m); }));
        out += "\tM=" + join(M, ';') + "\tMRES=" + join(MR, ';');
    }
    bool bad = R.size() != F.size();
    for (size_t i = 0; !bad && i < n; i++)
        if (R[i] != F[i])
            bad = true;
    if (bad)
        out += "\t#ORACLE:a reused Parser object and a fresh parser disagree";
    return out;
}

static std::string case_B(const std::vector<std::string> &fld)
{
    std::vector<std::string> h = verif::split_ws(fld[0]);
    std::vector<std::string> ins;
    if (h.size() >= 2)
        for (auto &x : split(h[1], ','))
            ins.push_back(unhex(x));
    size_t n = ins.size();
    auto history = [&](const std::function<void(const std::string &)> &emit) {
        SbmlParser p;
        for (size_t i = 0; i < n; i++)
            emit(result_of([&]() { return p.parse(ins[i]); }) + ";");
    };
    std::string reused;
    if (g_forked)
        reused = run_forked_stream(history, 20);
    else
        history([&](const std::string &x) { reused += x; });
    std::vector<std::string> R = split(reused, ';');
    if (!R.empty() && R.back().empty())
        R.pop_back();
    std::vector<std::string> F;
    for (size_t i = 0; i < n; i++)
        F.push_back(guard([&]() { return result_of([&]() { return parse_sbml(ins[i]); }); }));
    std::string out = "R=" + join(R, ';') + "\tF=" + join(F, ';');
    if (R != F)
        out += "\t#ORACLE:a reused SbmlParser object and a fresh parser disagree";
    return out;
}

static std::string process(const std::string &line)
{
    std::vector<std::string> fld = split(line, '\t');
    try {
        if (line.empty())
            return "BADCASE";
        if (line[0] == 'P')
            return case_P(fld);
        if (line[0] == 'S')
            return case_S(fld);
        if (line[0] == 'H')
            return case_H(fld);
        if (line[0] == 'B')
            return case_B(fld);
        if (line[0] == 'E')
            return guard([&]() { return eval_outcome(line.substr(2)); });
        return "BADCASE";
    } catch (...) {
        return "UNCAUGHT";
    }
}

int main()
{
    std::vector<std::string> lines;
    std::string line;
    while (std::getline(std::cin, line))
        lines.push_back(line);
    size_t n = lines.size(), i = 0;
    while (i < n) {
        // one child for as many cases as it survives
        int fd[2];
        if (pipe(fd) != 0)
            return 3;
        fflush(stdout);
        pid_t pid = fork();
        if (pid == 0) {
            close(fd[0]);
            struct rlimit rl;
            rl.rlim_cur = rl.rlim_max = 0;
            setrlimit(RLIMIT_CORE, &rl);
            for (size_t j = i; j < n; j++) {
                alarm(30);
                std::string o = process(lines[j]) + "\n";
                size_t off = 0;
                while (off < o.size()) {
                    ssize_t w = write(fd[1], o.data() + off, o.size() - off);
                    if (w <= 0)
                        _exit(1);
                    off += (size_t)w;
                }
            }
            close(fd[1]);
            _exit(0);
        }
        close(fd[1]);
        std::string got;
        char buf[65536];
        ssize_t r;
        while ((r = read(fd[0], buf, sizeof buf)) > 0)
            got.append(buf, (size_t)r);
        close(fd[0]);
        int status = 0;
        waitpid(pid, &status, 0);
        size_t st = 0;
        while (true) {
            size_t p = got.find('\n', st);
            if (p == std::string::npos)
                break;
            std::cout << got.substr(st, p - st) << "\n";
            st = p + 1;
            i++;
        }
        if (i < n) {
            // the child died during case i: run it again, one forked child per library call
            g_forked = true;
            std::cout << process(lines[i]) << "\n";
            g_forked = false;
            i++;
        }
    }
    std::cout.flush();
    return 0;
}
