// C26 driver: matrix expressions (symengine/matrices/*.cpp).
// One case per input line:   <env> ; <stack program>
//   env tokens      n<id>=<k>  (value of a dimension symbol)    S<id>=<r>x<c>  (size of a matrix symbol)
//   program tokens  I d | Z d d | S id | D cnt e.. | M m n e.. | k e | add n | mul n | had n | tr | conj
//                   d = integer or n<id>;  e = p | p/q | re:im
// Output (same format as ocaml/c26_main.ml):
//   <dump> | <rows>,<cols> | z=. r=. q=. d=. s=. l=. u=. | tr=<trace> | tp=.
// or EXN:<code> when the construction throws.  A crash ends the line with CRASH:<signal>.
// The property oracle (independent of the Coq model) evaluates the program naively over dense
// matrices of exact numbers (matrix symbols bound to fixed matrices of the sizes in <env>), evaluates
// the library's result tree the same way, and compares values, predicates, sizes and the trace;
// a failure is appended as "\t#ORACLE:<class>: <detail>".
#include <symengine/matrix_expressions.h>
#include <symengine/complex.h>
#include <symengine/rational.h>
#include <symengine/symbol.h>
#include <symengine/add.h>
#include <symengine/mul.h>
#include <symengine/symengine_exception.h>
#include "common.h"
#include <map>
using namespace SymEngine;

typedef RCP<const Number> Num;

// ------------------------------------------------------------------ numbers
static Num parse_rat(const std::string &s)
{
    size_t p = s.find('/');
    if (p == std::string::npos)
        return integer(integer_class(s));
    return Rational::from_two_ints(*integer(integer_class(s.substr(0, p))),
                                   *integer(integer_class(s.substr(p + 1))));
}
static Num parse_ent(const std::string &s)
{
    size_t p = s.find(':');
    if (p == std::string::npos)
        return parse_rat(s);
    return Complex::from_two_nums(*parse_rat(s.substr(0, p)), *parse_rat(s.substr(p + 1)));
}
static std::string dump_num(const RCP<const Basic> &b)
{
    if (is_a<Integer>(*b) || is_a<Rational>(*b))
        return b->__str__();
    if (is_a<Complex>(*b)) {
        const Complex &c = down_cast<const Complex &>(*b);
        return c.real_part()->__str__() + ":" + c.imaginary_part()->__str__();
    }
    return "?";
}
static std::string dump_dim(const RCP<const Basic> &b)
{
    if (b.is_null())
        return "-";
    if (is_a<Integer>(*b) || is_a<Symbol>(*b))
        return b->__str__();
    return "?";
}
static std::string dump_vec_num(const vec_basic &v)
{
    std::string s = "[";
    for (size_t i = 0; i < v.size(); i++)
        s += (i ? "," : "") + dump_num(v[i]);
    return s + "]";
}
static std::string dump_m(const RCP<const Basic> &b);
static std::string dump_vec_m(const vec_basic &v)
{
    std::string s = "{";
    for (size_t i = 0; i < v.size(); i++)
        s += (i ? "," : "") + dump_m(v[i]);
    return s + "}";
}
static std::string dump_m(const RCP<const Basic> &b)
{
    if (is_a<IdentityMatrix>(*b))
        return "I(" + dump_dim(down_cast<const IdentityMatrix &>(*b).size()) + ")";
    if (is_a<ZeroMatrix>(*b)) {
        const ZeroMatrix &z = down_cast<const ZeroMatrix &>(*b);
        return "Z(" + dump_dim(z.nrows()) + "," + dump_dim(z.ncols()) + ")";
    }
    if (is_a<MatrixSymbol>(*b))
        return "S(" + down_cast<const MatrixSymbol &>(*b).get_name().substr(1) + ")";
    if (is_a<DiagonalMatrix>(*b))
        return "D" + dump_vec_num(down_cast<const DiagonalMatrix &>(*b).get_container());
    if (is_a<ImmutableDenseMatrix>(*b)) {
        const ImmutableDenseMatrix &d = down_cast<const ImmutableDenseMatrix &>(*b);
        return "M(" + std::to_string(d.nrows()) + "," + std::to_string(d.ncols()) + ")"
               + dump_vec_num(d.get_values());
    }
    if (is_a<MatrixAdd>(*b))
        return "A" + dump_vec_m(down_cast<const MatrixAdd &>(*b).get_terms());
    if (is_a<MatrixMul>(*b)) {
        const MatrixMul &m = down_cast<const MatrixMul &>(*b);
        return "P(" + dump_num(m.get_scalar()) + ")" + dump_vec_m(m.get_factors());
    }
    if (is_a<HadamardProduct>(*b))
        return "H" + dump_vec_m(down_cast<const HadamardProduct &>(*b).get_factors());
    if (is_a<Transpose>(*b))
        return "T(" + dump_m(down_cast<const Transpose &>(*b).get_arg()) + ")";
    if (is_a<ConjugateMatrix>(*b))
        return "C(" + dump_m(down_cast<const ConjugateMatrix &>(*b).get_arg()) + ")";
    return "?";
}

// ------------------------------------------------------------------ dense reference matrices
struct DM {
    bool ok;
    long r, c;
    std::vector<Num> v;
    DM() : ok(false), r(0), c(0) {}
    DM(long r_, long c_) : ok(true), r(r_), c(c_), v((size_t)(r_ * c_), Num(integer(0))) {}
    Num &at(long i, long j)
    {
        return v[(size_t)(i * c + j)];
    }
    const Num &at(long i, long j) const
    {
        return v[(size_t)(i * c + j)];
    }
};
static bool num_is_zero(const Num &a)
{
    return a->is_zero();
}
static bool num_eq(const Num &a, const Num &b)
{
    return eq(*a, *b);
}
static Num num_conj(const Num &a)
{
    if (is_a<Complex>(*a)) {
        const Complex &c = down_cast<const Complex &>(*a);
        return Complex::from_two_nums(*c.real_part(), *c.imaginary_part()->mul(*integer(-1)));
    }
    return a;
}
static DM dm_ident(long n)
{
    DM m(n, n);
    for (long i = 0; i < n; i++)
        m.at(i, i) = integer(1);
    return m;
}
static DM dm_add(const DM &a, const DM &b)
{
    if (!a.ok || !b.ok || a.r != b.r || a.c != b.c)
        return DM();
    DM m(a.r, a.c);
    for (size_t i = 0; i < m.v.size(); i++)
        m.v[i] = a.v[i]->add(*b.v[i]);
    return m;
}
static DM dm_had(const DM &a, const DM &b)
{
    if (!a.ok || !b.ok || a.r != b.r || a.c != b.c)
        return DM();
    DM m(a.r, a.c);
    for (size_t i = 0; i < m.v.size(); i++)
        m.v[i] = a.v[i]->mul(*b.v[i]);
    return m;
}
static DM dm_mul(const DM &a, const DM &b)
{
    if (!a.ok || !b.ok || a.c != b.r)
        return DM();
    DM m(a.r, b.c);
    for (long i = 0; i < a.r; i++)
        for (long j = 0; j < b.c; j++) {
            Num s = integer(0);
            for (long k = 0; k < a.c; k++)
                s = s->add(*a.at(i, k)->mul(*b.at(k, j)));
            m.at(i, j) = s;
        }
    return m;
}
static DM dm_scale(const Num &k, const DM &a)
{
    if (!a.ok)
        return DM();
    DM m(a.r, a.c);
    for (size_t i = 0; i < m.v.size(); i++)
        m.v[i] = k->mul(*a.v[i]);
    return m;
}
static DM dm_trans(const DM &a)
{
    if (!a.ok)
        return DM();
    DM m(a.c, a.r);
    for (long i = 0; i < a.r; i++)
        for (long j = 0; j < a.c; j++)
            m.at(j, i) = a.at(i, j);
    return m;
}
static DM dm_conj(const DM &a)
{
    if (!a.ok)
        return DM();
    DM m(a.r, a.c);
    for (size_t i = 0; i < m.v.size(); i++)
        m.v[i] = num_conj(a.v[i]);
    return m;
}
static bool dm_eq(const DM &a, const DM &b)
{
    if (!a.ok || !b.ok || a.r != b.r || a.c != b.c)
        return false;
    for (size_t i = 0; i < a.v.size(); i++)
        if (!num_eq(a.v[i], b.v[i]))
            return false;
    return true;
}
static std::string dm_str(const DM &a)
{
    if (!a.ok)
        return "undef";
    std::string s = std::to_string(a.r) + "x" + std::to_string(a.c) + "[";
    for (size_t i = 0; i < a.v.size(); i++)
        s += (i ? "," : "") + dump_num(a.v[i]);
    return s + "]";
}

struct Env {
    std::map<std::string, long> dims;                    // n<id>
    std::map<std::string, std::pair<long, long>> syms;   // S<id>
};
// the fixed matrix a matrix symbol stands for
static DM sym_value(const std::string &name, const Env &env)
{
    auto it = env.syms.find(name);
    if (it == env.syms.end())
        return DM();
    long id = std::stol(name.substr(1));
    DM m(it->second.first, it->second.second);
    for (long i = 0; i < m.r; i++)
        for (long j = 0; j < m.c; j++) {
            long re = ((id * 7 + i * 3 + j * 5 + i * j * 2) % 7) - 3;
            long im = ((id + i + 2 * j) % 4 == 0) ? ((id + i) % 3) - 1 : 0;
            Num q = integer(re);
            if ((id + i * j) % 5 == 0)
                q = Rational::from_two_ints(*integer(re), *integer(2));
            m.at(i, j) = im == 0 ? q : Complex::from_two_nums(*q, *integer(im));
        }
    return m;
}
static bool dim_value(const RCP<const Basic> &d, const Env &env, long &out)
{
    if (d.is_null())
        return false;
    if (is_a<Integer>(*d)) {
        out = (long)down_cast<const Integer &>(*d).as_int();
        return true;
    }
    if (is_a<Symbol>(*d)) {
        auto it = env.dims.find(down_cast<const Symbol &>(*d).get_name());
        if (it == env.dims.end())
            return false;
        out = it->second;
        return true;
    }
    return false;
}
// dense value of a library tree (by class structure; uses none of the merge rules)
static DM lib_eval(const RCP<const Basic> &b, const Env &env)
{
    if (is_a<IdentityMatrix>(*b)) {
        long n;
        if (!dim_value(down_cast<const IdentityMatrix &>(*b).size(), env, n))
            return DM();
        return dm_ident(n);
    }
    if (is_a<ZeroMatrix>(*b)) {
        const ZeroMatrix &z = down_cast<const ZeroMatrix &>(*b);
        long r, c;
        if (!dim_value(z.nrows(), env, r) || !dim_value(z.ncols(), env, c))
            return DM();
        return DM(r, c);
    }
    if (is_a<MatrixSymbol>(*b))
        return sym_value(down_cast<const MatrixSymbol &>(*b).get_name(), env);
    if (is_a<DiagonalMatrix>(*b)) {
        const vec_basic &d = down_cast<const DiagonalMatrix &>(*b).get_container();
        DM m((long)d.size(), (long)d.size());
        for (size_t i = 0; i < d.size(); i++) {
            if (!is_a_Number(*d[i]))
                return DM();
            m.at((long)i, (long)i) = rcp_static_cast<const Number>(d[i]);
        }
        return m;
    }
    if (is_a<ImmutableDenseMatrix>(*b)) {
        const ImmutableDenseMatrix &d = down_cast<const ImmutableDenseMatrix &>(*b);
        const vec_basic &v = d.get_values();
        if (v.size() != d.nrows() * d.ncols())
            return DM();
        DM m((long)d.nrows(), (long)d.ncols());
        for (size_t i = 0; i < v.size(); i++) {
            if (!is_a_Number(*v[i]))
                return DM();
            m.v[i] = rcp_static_cast<const Number>(v[i]);
        }
        return m;
    }
    if (is_a<MatrixAdd>(*b)) {
        const vec_basic &t = down_cast<const MatrixAdd &>(*b).get_terms();
        if (t.empty())
            return DM();
        DM m = lib_eval(t[0], env);
        for (size_t i = 1; i < t.size(); i++)
            m = dm_add(m, lib_eval(t[i], env));
        return m;
    }
    if (is_a<HadamardProduct>(*b)) {
        const vec_basic &t = down_cast<const HadamardProduct &>(*b).get_factors();
        if (t.empty())
            return DM();
        DM m = lib_eval(t[0], env);
        for (size_t i = 1; i < t.size(); i++)
            m = dm_had(m, lib_eval(t[i], env));
        return m;
    }
    if (is_a<MatrixMul>(*b)) {
        const MatrixMul &mm = down_cast<const MatrixMul &>(*b);
        const vec_basic &t = mm.get_factors();
        if (t.empty() || !is_a_Number(*mm.get_scalar()))
            return DM();
        DM m = lib_eval(t[0], env);
        for (size_t i = 1; i < t.size(); i++)
            m = dm_mul(m, lib_eval(t[i], env));
        return dm_scale(rcp_static_cast<const Number>(mm.get_scalar()), m);
    }
    if (is_a<Transpose>(*b))
        return dm_trans(lib_eval(down_cast<const Transpose &>(*b).get_arg(), env));
    if (is_a<ConjugateMatrix>(*b))
        return dm_conj(lib_eval(down_cast<const ConjugateMatrix &>(*b).get_arg(), env));
    return DM();
}

// ------------------------------------------------------------------ properties of a dense matrix
static bool p_zero(const DM &m)
{
    for (auto &e : m.v)
        if (!num_is_zero(e))
            return false;
    return true;
}
static bool p_real(const DM &m)
{
    for (auto &e : m.v)
        if (is_a<Complex>(*e))
            return false;
    return true;
}
static bool p_square(const DM &m)
{
    return m.r == m.c;
}
static bool p_diagonal(const DM &m)
{
    if (m.r != m.c)
        return false;
    for (long i = 0; i < m.r; i++)
        for (long j = 0; j < m.c; j++)
            if (i != j && !num_is_zero(m.at(i, j)))
                return false;
    return true;
}
static bool p_symmetric(const DM &m)
{
    if (m.r != m.c)
        return false;
    for (long i = 0; i < m.r; i++)
        for (long j = 0; j < i; j++)
            if (!num_eq(m.at(i, j), m.at(j, i)))
                return false;
    return true;
}
static bool p_lower(const DM &m)
{
    if (m.r != m.c)
        return false;
    for (long i = 0; i < m.r; i++)
        for (long j = i + 1; j < m.c; j++)
            if (!num_is_zero(m.at(i, j)))
                return false;
    return true;
}
static bool p_upper(const DM &m)
{
    if (m.r != m.c)
        return false;
    for (long i = 0; i < m.r; i++)
        for (long j = 0; j < i; j++)
            if (!num_is_zero(m.at(i, j)))
                return false;
    return true;
}
static bool p_toeplitz(const DM &m)
{
    for (long i = 0; i + 1 < m.r; i++)
        for (long j = 0; j + 1 < m.c; j++)
            if (!num_eq(m.at(i, j), m.at(i + 1, j + 1)))
                return false;
    return true;
}
static Num p_trace(const DM &m)
{
    Num s = integer(0);
    for (long i = 0; i < m.r; i++)
        s = s->add(*m.at(i, i));
    return s;
}

// ------------------------------------------------------------------ class invariants (is_canonical)
static bool canon_ok(const RCP<const Basic> &b)
{
    auto all_ok = [](const vec_basic &v) {
        for (auto &e : v)
            if (!canon_ok(e))
                return false;
        return true;
    };
    if (is_a<IdentityMatrix>(*b)) {
        const IdentityMatrix &x = down_cast<const IdentityMatrix &>(*b);
        return x.is_canonical(x.size());
    }
    if (is_a<ZeroMatrix>(*b)) {
        const ZeroMatrix &x = down_cast<const ZeroMatrix &>(*b);
        return x.is_canonical(x.nrows(), x.ncols());
    }
    if (is_a<DiagonalMatrix>(*b)) {
        const DiagonalMatrix &x = down_cast<const DiagonalMatrix &>(*b);
        return x.is_canonical(x.get_container());
    }
    if (is_a<ImmutableDenseMatrix>(*b)) {
        const ImmutableDenseMatrix &x = down_cast<const ImmutableDenseMatrix &>(*b);
        return x.is_canonical(x.nrows(), x.ncols(), x.get_values());
    }
    if (is_a<MatrixAdd>(*b)) {
        const MatrixAdd &x = down_cast<const MatrixAdd &>(*b);
        return x.is_canonical(x.get_terms()) && all_ok(x.get_terms());
    }
    if (is_a<MatrixMul>(*b)) {
        const MatrixMul &x = down_cast<const MatrixMul &>(*b);
        return x.is_canonical(x.get_scalar(), x.get_factors()) && all_ok(x.get_factors());
    }
    if (is_a<HadamardProduct>(*b)) {
        const HadamardProduct &x = down_cast<const HadamardProduct &>(*b);
        return x.is_canonical(x.get_factors()) && all_ok(x.get_factors());
    }
    if (is_a<Transpose>(*b)) {
        const Transpose &x = down_cast<const Transpose &>(*b);
        return x.is_canonical(x.get_arg()) && canon_ok(x.get_arg());
    }
    if (is_a<ConjugateMatrix>(*b)) {
        const ConjugateMatrix &x = down_cast<const ConjugateMatrix &>(*b);
        return x.is_canonical(x.get_arg()) && canon_ok(x.get_arg());
    }
    return true;
}

// ------------------------------------------------------------------ the stack machine
struct Item {
    bool scalar;
    RCP<const Basic> lib;
    DM naive; // reference value of the recipe (undefined when sizes do not fit / not known)
    Num sc;
};

static int g_fd = 1;
static void emit(const std::string &s)
{
    size_t off = 0;
    while (off < s.size()) {
        ssize_t w = write(g_fd, s.data() + off, s.size() - off);
        if (w <= 0)
            break;
        off += (size_t)w;
    }
}
static const char *tb(tribool t)
{
    return is_true(t) ? "T" : is_false(t) ? "F" : "I";
}

// canonical text of the scalar returned by trace(): num+term*count+...
static std::string term_str(const RCP<const Basic> &t)
{
    if (is_a<Symbol>(*t))
        return down_cast<const Symbol &>(*t).get_name();
    if (is_a<Trace>(*t))
        return "Tr(" + dump_m(t->get_args()[0]) + ")";
    return "?";
}
static std::string dump_trace(const RCP<const Basic> &r)
{
    std::string num = "0";
    std::vector<std::string> terms;
    auto one_term = [&](const RCP<const Basic> &t, const RCP<const Basic> &c) {
        terms.push_back(term_str(t) + "*" + dump_num(c));
    };
    auto mul_term = [&](const RCP<const Basic> &t) {
        if (is_a<Mul>(*t)) {
            const Mul &m = down_cast<const Mul &>(*t);
            if (m.get_dict().size() == 1 && eq(*m.get_dict().begin()->second, *one))
                one_term(m.get_dict().begin()->first, m.get_coef());
            else
                terms.push_back("?");
        } else {
            one_term(t, one);
        }
    };
    if (is_a_Number(*r)) {
        num = dump_num(r);
    } else if (is_a<Add>(*r)) {
        const Add &a = down_cast<const Add &>(*r);
        num = dump_num(a.get_coef());
        for (auto &p : a.get_dict())
            one_term(p.first, p.second);
    } else {
        mul_term(r);
    }
    std::sort(terms.begin(), terms.end());
    std::string s = num;
    for (auto &t : terms)
        s += "+" + t;
    return s;
}
// numeric value of a trace result under env
static bool trace_value(const RCP<const Basic> &r, const Env &env, Num &out)
{
    auto term_val = [&](const RCP<const Basic> &t, Num &v) -> bool {
        if (is_a<Symbol>(*t)) {
            long k;
            if (!dim_value(t, env, k))
                return false;
            v = integer(k);
            return true;
        }
        if (is_a<Trace>(*t)) {
            DM m = lib_eval(t->get_args()[0], env);
            if (!m.ok || m.r != m.c)
                return false;
            v = p_trace(m);
            return true;
        }
        return false;
    };
    if (is_a_Number(*r)) {
        out = rcp_static_cast<const Number>(r);
        return true;
    }
    Num v;
    if (is_a<Add>(*r)) {
        const Add &a = down_cast<const Add &>(*r);
        Num s = a.get_coef();
        for (auto &p : a.get_dict()) {
            if (!term_val(p.first, v))
                return false;
            s = s->add(*p.second->mul(*v));
        }
        out = s;
        return true;
    }
    if (is_a<Mul>(*r)) {
        const Mul &m = down_cast<const Mul &>(*r);
        if (m.get_dict().size() != 1 || !eq(*m.get_dict().begin()->second, *one))
            return false;
        if (!term_val(m.get_dict().begin()->first, v))
            return false;
        out = m.get_coef()->mul(*v);
        return true;
    }
    if (!term_val(r, v))
        return false;
    out = v;
    return true;
}

static void run_case(const std::string &line)
{
    std::vector<std::string> t = verif::split_ws(line);
    Env env;
    size_t i = 0;
    for (; i < t.size() && t[i] != ";"; i++) {
        size_t p = t[i].find('=');
        if (p == std::string::npos)
            continue;
        std::string name = t[i].substr(0, p), val = t[i].substr(p + 1);
        if (name[0] == 'n') {
            env.dims[name] = std::stol(val);
        } else {
            size_t x = val.find('x');
            env.syms[name] = std::make_pair(std::stol(val.substr(0, x)), std::stol(val.substr(x + 1)));
        }
    }
    i++;
    std::vector<Item> st;
    std::string oracle;
    auto get_dim = [&](const std::string &s) -> RCP<const Basic> {
        if (s[0] == 'n')
            return symbol(s);
        return integer(integer_class(s));
    };
    auto push_mat = [&](const RCP<const Basic> &m, const DM &naive) {
        Item it;
        it.scalar = false;
        it.lib = m;
        it.naive = naive;
        st.push_back(it);
    };
    std::string lastop;
    // after every operation: the result tree must denote the value of the recipe; a wrong
    // intermediate result is reported once and then taken as the new reference
    bool noncanon_seen = false;
    auto check_value = [&](const std::string &op, const RCP<const Basic> &r, DM &acc) {
        // class invariant: the first result that violates its own is_canonical is reported
        if (!noncanon_seen && !canon_ok(r)) {
            noncanon_seen = true;
            oracle += " noncanonical(" + op + "): " + dump_m(r) + " violates is_canonical;";
        }
        if (!acc.ok)
            return;
        DM lv = lib_eval(r, env);
        if (!dm_eq(acc, lv)) {
            oracle += " value(" + op + "): recipe value " + dm_str(acc) + " but the result " + dump_m(r)
                      + " denotes " + dm_str(lv) + ";";
            acc = lv;
        }
    };
    try {
        while (i < t.size()) {
            const std::string &c = t[i];
            lastop = c;
            if (c == "I") {
                auto d = get_dim(t[i + 1]);
                i += 2;
                long n;
                push_mat(identity_matrix(d), dim_value(d, env, n) ? dm_ident(n) : DM());
            } else if (c == "Z") {
                auto a = get_dim(t[i + 1]), b = get_dim(t[i + 2]);
                i += 3;
                long r, cc;
                push_mat(zero_matrix(a, b),
                         (dim_value(a, env, r) && dim_value(b, env, cc)) ? DM(r, cc) : DM());
            } else if (c == "S") {
                std::string name = "S" + t[i + 1];
                i += 2;
                push_mat(matrix_symbol(name), sym_value(name, env));
            } else if (c == "D") {
                long n = std::stol(t[i + 1]);
                vec_basic v;
                DM m(n, n);
                for (long k = 0; k < n; k++) {
                    Num e = parse_ent(t[i + 2 + (size_t)k]);
                    v.push_back(e);
                    m.at(k, k) = e;
                }
                i += 2 + (size_t)n;
                push_mat(diagonal_matrix(v), m);
            } else if (c == "M") {
                long r = std::stol(t[i + 1]), cc = std::stol(t[i + 2]);
                vec_basic v;
                DM m(r, cc);
                for (long k = 0; k < r * cc; k++) {
                    Num e = parse_ent(t[i + 3 + (size_t)k]);
                    v.push_back(e);
                    m.v[(size_t)k] = e;
                }
                i += 3 + (size_t)(r * cc);
                push_mat(immutable_dense_matrix((size_t)r, (size_t)cc, v), m);
            } else if (c == "k") {
                Item it;
                it.scalar = true;
                it.sc = parse_ent(t[i + 1]);
                it.lib = it.sc;
                st.push_back(it);
                i += 2;
            } else if (c == "add" || c == "had" || c == "mul") {
                size_t n = (size_t)std::stol(t[i + 1]);
                i += 2;
                if (n > st.size()) {
                    emit("PRECOND");
                    return;
                }
                std::vector<Item> args(st.end() - (long)n, st.end());
                st.resize(st.size() - n);
                vec_basic v;
                DM acc;
                bool first = true;
                Num sc = integer(1);
                for (auto &a : args) {
                    v.push_back(a.lib);
                    if (a.scalar) {
                        if (c != "mul") {
                            emit("PRECOND");
                            return;
                        }
                        sc = sc->mul(*a.sc);
                        continue;
                    }
                    if (first) {
                        acc = a.naive;
                        first = false;
                    } else if (c == "add") {
                        acc = dm_add(acc, a.naive);
                    } else if (c == "had") {
                        acc = dm_had(acc, a.naive);
                    } else {
                        acc = dm_mul(acc, a.naive);
                    }
                }
                if (c == "mul")
                    acc = dm_scale(sc, acc);
                RCP<const Basic> r;
                try {
                    if (c == "add")
                        r = matrix_add(v);
                    else if (c == "had")
                        r = hadamard_product(v);
                    else
                        r = matrix_mul(v);
                } catch (const DomainError &) {
                    if (acc.ok)
                        oracle += " spurious-error(" + c + "): DomainError although the operands fit, value " + dm_str(acc) + ";";
                    throw;
                }
                check_value(c, r, acc);
                push_mat(r, acc);
            } else if (c == "tr" || c == "conj") {
                i += 1;
                if (st.empty() || st.back().scalar) {
                    emit("PRECOND");
                    return;
                }
                Item a = st.back();
                st.pop_back();
                auto m = rcp_static_cast<const MatrixExpr>(a.lib);
                RCP<const Basic> r = (c == "tr") ? transpose(m) : conjugate_matrix(m);
                DM acc = (c == "tr") ? dm_trans(a.naive) : dm_conj(a.naive);
                check_value(c, r, acc);
                push_mat(r, acc);
            } else {
                emit("BADTOKEN");
                return;
            }
        }
    } catch (...) {
        emit(verif::exn_name());
        if (!oracle.empty())
            emit("\t#ORACLE:" + oracle);
        return;
    }
    if (st.size() != 1 || st[0].scalar) {
        emit("PRECOND");
        return;
    }
    RCP<const Basic> res = st[0].lib;
    const MatrixExpr &me = down_cast<const MatrixExpr &>(*res);
    DM naive = st[0].naive;
    emit(dump_m(res));
    DM libv = lib_eval(res, env);
    if (naive.ok && !dm_eq(naive, libv))
        oracle += " value(leaf): recipe value " + dm_str(naive) + " but the result denotes " + dm_str(libv) + ";";
    DM truth = naive.ok ? naive : libv;
    // size
    auto sz = size(me);
    emit(" | " + dump_dim(sz.first) + "," + dump_dim(sz.second));
    if (truth.ok) {
        long k;
        if (dim_value(sz.first, env, k) && k != truth.r)
            oracle += " size: rows " + dump_dim(sz.first) + " but the value is " + dm_str(truth) + ";";
        if (dim_value(sz.second, env, k) && k != truth.c)
            oracle += " size: cols " + dump_dim(sz.second) + " but the value is " + dm_str(truth) + ";";
    }
    auto pred = [&](const char *tag, const char *name, tribool tv, bool (*p)(const DM &)) {
        emit(std::string(tag) + tb(tv));
        if (truth.ok && !is_indeterminate(tv) && is_true(tv) != p(truth))
            oracle += std::string(" pred(") + name + "): answered " + tb(tv) + " but the value is " + dm_str(truth) + ";";
    };
    {
        // an empty matrix is vacuously zero while is_zero(IdentityMatrix(0)) answers false:
        // matrices without entries are outside the statement (coq/C26: empty_ident guard)
        DM keep = truth;
        if (truth.ok && (truth.r == 0 || truth.c == 0))
            truth.ok = false;
        pred(" | z=", "is_zero", is_zero(me), p_zero);
        truth = keep;
    }
    pred(" r=", "is_real", is_real(me), p_real);
    pred(" q=", "is_square", is_square(me), p_square);
    pred(" d=", "is_diagonal", is_diagonal(me), p_diagonal);
    pred(" s=", "is_symmetric", is_symmetric(me), p_symmetric);
    pred(" l=", "is_lower", is_lower(me), p_lower);
    pred(" u=", "is_upper", is_upper(me), p_upper);
    // trace
    emit(" | tr=");
    try {
        RCP<const Basic> tr = trace(rcp_static_cast<const MatrixExpr>(res));
        emit(dump_trace(tr));
        if (truth.ok) {
            Num tv;
            if (truth.r != truth.c)
                ; // the trace of a non-square value has no meaning: nothing to compare
            else if (trace_value(tr, env, tv) && !num_eq(tv, p_trace(truth)))
                oracle += " trace: " + dump_num(tv) + " but the value is " + dm_str(truth) + ";";
        }
    } catch (const DomainError &) {
        emit("EXN:2");
        if (truth.ok && truth.r == truth.c)
            oracle += " trace: DomainError for the square value " + dm_str(truth) + ";";
    } catch (...) {
        emit(verif::exn_name());
    }
    pred(" | tp=", "is_toeplitz", is_toeplitz(me), p_toeplitz);
    if (!oracle.empty())
        emit("\t#ORACLE:" + oracle);
}

// run the cases lines[from..] in one forked child, streaming the output; returns the number of
// completed lines and appends their outputs; a crashed case gets "CRASH:<sig>" / "HANG".
int main()
{
    std::vector<std::string> lines;
    std::string line;
    while (std::getline(std::cin, line))
        lines.push_back(line);
    size_t start = 0;
    std::vector<std::string> outs;
    while (start < lines.size()) {
        int fd[2];
        if (pipe(fd) != 0)
            return 2;
        fflush(stdout);
        pid_t pid = fork();
        if (pid == 0) {
            close(fd[0]);
            g_fd = fd[1];
            struct rlimit rl;
            rl.rlim_cur = rl.rlim_max = 0;
            setrlimit(RLIMIT_CORE, &rl);
            int devnull = open("/dev/null", O_WRONLY);
            if (devnull >= 0)
                dup2(devnull, 2);
            for (size_t k = start; k < lines.size(); k++) {
                alarm(60);
                try {
                    run_case(lines[k]);
                } catch (...) {
                    emit("UNCAUGHT");
                }
                emit("\n");
            }
            _exit(0);
        }
        close(fd[1]);
        std::string out;
        char buf[65536];
        ssize_t r;
        while ((r = read(fd[0], buf, sizeof buf)) > 0)
            out.append(buf, (size_t)r);
        close(fd[0]);
        int status = 0;
        waitpid(pid, &status, 0);
        size_t pos = 0, done = 0;
        while (true) {
            size_t nl = out.find('\n', pos);
            if (nl == std::string::npos)
                break;
            outs.push_back(out.substr(pos, nl - pos));
            pos = nl + 1;
            done++;
        }
        if (start + done >= lines.size())
            break;
        // the child died while working on line start+done
        std::string partial = out.substr(pos);
        if (WIFSIGNALED(status)) {
            int sig = WTERMSIG(status);
            partial += (sig == SIGALRM) ? "HANG" : "CRASH:" + std::to_string(sig);
        } else {
            partial += "DIED";
        }
        outs.push_back(partial);
        start = start + done + 1;
    }
    for (auto &o : outs)
        std::cout << o << "\n";
    return 0;
}
