// C19 / C20 driver: Basic::dumps / Basic::loads, DenseMatrix::dumps / loads.
// One case per input line, one result line per case (tab separated fields):
//   version                 -> <major> <minor> <TypeID_Count>
//   classes                 -> per type code of the serialisation switch: tc:Name:N:I:B:S:kind ...
//                              (is_base_of<Number|Integer|Boolean|Set, Class>, and the load_basic
//                              overload class computed from the same traits the overloads use)
//   rt <recipe>             -> hex(dumps(e)) \t dump(e) \t dump(loads) \t hex(dumps(loads)) \t flags
//   rtx <name>              -> the same for a few objects recipes cannot build
//   load <hex>              -> OK <dump> | EXN:<n>, then the post-load operations, staged:
//                              str= hash= cmp= ev= args= redump=   (a stage that kills the child
//                              shows CRASH:<sig> / HANG)
//   mrt <r> <c> <recipe> ;; ...  -> DenseMatrix round trip
//   mload <hex>             -> DenseMatrix::loads + str + element access, staged
//   deep <n>                -> loads of n nested Sin nodes, then hash / dumps / str, staged
// "#ORACLE:<what>" is appended when the property itself fails on the case.
#include <symengine/basic.h>
#include <symengine/add.h>
#include <symengine/mul.h>
#include <symengine/pow.h>
#include <symengine/functions.h>
#include <symengine/logic.h>
#include <symengine/sets.h>
#include <symengine/complex.h>
#include <symengine/complex_double.h>
#include <symengine/real_double.h>
#include <symengine/infinity.h>
#include <symengine/nan.h>
#include <symengine/constants.h>
#include <symengine/visitor.h>
#include <symengine/matrix.h>
#include <symengine/eval_double.h>
#include <symengine/polys/uintpoly.h>
#include <symengine/polys/uratpoly.h>
#include <symengine/polys/uexprpoly.h>
#include <symengine/polys/msymenginepoly.h>
#include <symengine/series_generic.h>
#include <symengine/matrices/matrix_expr.h>
#include <symengine/matrix_expressions.h>
#include <symengine/ntheory_funcs.h>
#include <symengine/tuple.h>
#include <symengine/fields.h>
#include <symengine/symengine_exception.h>
#include <sys/resource.h>
#include "common.h"
#include "dump.h"
#include "recipe.h"
using namespace SymEngine;
typedef std::string S;

static S hex(const S &s)
{
    static const char *d = "0123456789abcdef";
    S o;
    o.reserve(2 * s.size());
    for (unsigned char c : s) {
        o += d[c >> 4];
        o += d[c & 15];
    }
    return o;
}
static int hv(char c)
{
    if (c >= '0' && c <= '9')
        return c - '0';
    if (c >= 'a' && c <= 'f')
        return c - 'a' + 10;
    if (c >= 'A' && c <= 'F')
        return c - 'A' + 10;
    return 0;
}
static S unhex(const S &h)
{
    S o;
    for (size_t i = 0; i + 1 < h.size(); i += 2)
        o += (char)(16 * hv(h[i]) + hv(h[i + 1]));
    return o;
}

typedef std::function<void(const S &)> Emit;

// ---------------------------------------------------------------- classes
static S kind_name(bool f1, bool f2, bool fn, bool rel, bool cb, const S &cls)
{
    // the classes with a load_basic overload of their own
    static const char *own[] = {"RealDouble", "Infty", "NaN", "Symbol", "Dummy", "Mul", "Add", "Pow",
                                "Integer", "Constant", "Rational", "Complex", "ComplexDouble", "Interval", "BooleanAtom",
                                "And", "Or", "Xor", "Not", "Piecewise", "Contains", "Reals", "Rationals",
                                "EmptySet", "Integers", "UniversalSet", "Union", "Complement", "ImageSet",
                                "FiniteSet", "ConditionSet", "Derivative", "Subs", "FunctionSymbol",
                                "FunctionWrapper"};
    for (const char *o : own)
        if (cls == o)
            return "own";
    if (cb)
        return "cb";
    if (f1)
        return "f1";
    if (f2 or rel)
        return "f2";
    if (fn)
        return "fn";
    return "none";
}
static S classes()
{
    std::ostringstream o;
#define SYMENGINE_ENUM(type, Class)                                                                \
    o << (int)type << ":" << #Class << ":" << std::is_base_of<Number, Class>::value << ":"        \
      << std::is_base_of<Integer, Class>::value << ":" << std::is_base_of<Boolean, Class>::value  \
      << ":" << std::is_base_of<Set, Class>::value << ":"                                         \
      << kind_name(std::is_base_of<OneArgFunction, Class>::value,                                 \
                   std::is_base_of<TwoArgFunction, Class>::value,                                 \
                   std::is_base_of<MultiArgFunction, Class>::value,                               \
                   std::is_base_of<Relational, Class>::value,                                     \
                   std::is_base_of<ComplexBase, Class>::value, #Class)                            \
      << " ";
#include "symengine/type_codes.inc"
#undef SYMENGINE_ENUM
    return o.str();
}

// ---------------------------------------------------------------- round trips
static S flags_of(const RCP<const Basic> &e, const RCP<const Basic> &l)
{
    S f;
    bool same = eq(*e, *l);
    f += S("eq=") + (same ? "1" : "0");
    f += S(" hash=") + (e->hash() == l->hash() ? "1" : "0");
    f += S(" cmp=") + std::to_string(e->__cmp__(*l));
    return f;
}

static S roundtrip(const RCP<const Basic> &e)
{
    S b;
    try {
        b = e->dumps();
    } catch (...) {
        return "NOSAVE " + verif::exn_name() + "\t" + verif::dump(*e);
    }
    S out = hex(b) + "\t" + verif::dump(*e) + "\t";
    RCP<const Basic> l;
    try {
        l = Basic::loads(b);
    } catch (...) {
        return out + "LOADFAIL " + verif::exn_name() + "\t#ORACLE:loads-rejects-dumps-output";
    }
    out += verif::dump(*l) + "\t";
    S b2 = l->dumps();
    out += hex(b2) + "\t";
    S fl = flags_of(e, l);
    out += fl;
    if (fl.find("eq=1 hash=1 cmp=0") == S::npos)
        out += "\t#ORACLE:loads(dumps(e))-not-eq-e";
    return out;
}

static RCP<const Basic> special(const S &name)
{
    RCP<const Symbol> x = symbol("x");
    if (name == "uratpoly")
        return URatPoly::from_vec(x, {rational_class(1, 2), rational_class(3)});
    if (name == "uintpoly")
        return UIntPoly::from_vec(x, {integer_class(1), integer_class(3)});
    if (name == "uexprpoly")
        return UExprPoly::from_vec(x, {Expression(1), Expression(symbol("a"))});
    if (name == "imageset")
        return imageset(x, mul(x, x), interval(integer(0), integer(1), false, false));
    if (name == "conditionset")
        return conditionset(x, logical_and({Gt(x, integer(1)), Lt(x, symbol("y"))}));
    if (name == "naturals")
        return naturals();
    if (name == "naturals0")
        return naturals0();
    if (name == "complexes")
        return complexes();
    if (name == "intersection")
        return set_intersection({interval(integer(0), integer(1), false, false),
                                 conditionset(x, Gt(mul(x, x), integer(2)))});
    if (name == "unevaluated")
        return unevaluated_expr(add(x, integer(1)));
    if (name == "primepi")
        return primepi(x);
    if (name == "primorial")
        return primorial(x);
    if (name == "tuple")
        return tuple({x, integer(1)});
    if (name == "dummy0")
        return dummy("d", 0);
    if (name == "dummybig")
        return dummy("d", (size_t)-1);
    if (name == "emptysym")
        return symbol("");
    if (name == "sym8bit")
        return symbol(S("\xc3\xa9\x00z", 4));
    if (name == "zeromatrix")
        return zero_matrix(integer(2), integer(2));
    throw std::runtime_error("unknown special");
}

// ---------------------------------------------------------------- loads + post-load operations
static void load_case(const S &bytes, const Emit &emit)
{
    RCP<const Basic> l;
    try {
        l = Basic::loads(bytes);
    } catch (...) {
        emit(verif::exn_name());
        return;
    }
    emit("OK ");
    emit(verif::dump(*l));
    emit("\tstr=");
    try {
        S s = l->__str__();
        emit("ok");
    } catch (...) {
        emit(verif::exn_name());
    }
    emit(" hash=");
    try {
        l->hash();
        emit("ok");
    } catch (...) {
        emit(verif::exn_name());
    }
    emit(" cmp=");
    try {
        RCP<const Basic> l2 = Basic::loads(bytes);
        bool a = eq(*l, *l2);
        int c = l->__cmp__(*l2);
        bool h = l->hash() == l2->hash();
        emit(S(a ? "e" : "n") + (c == 0 ? "0" : "x") + (h ? "h" : "d"));
    } catch (...) {
        emit(verif::exn_name());
    }
    emit(" ev=");
    try {
        double d = eval_double(*l);
        (void)d;
        emit("ok");
    } catch (...) {
        emit(verif::exn_name());
    }
    emit(" args=");
    try {
        vec_basic a = l->get_args();
        emit(std::to_string(a.size()));
    } catch (...) {
        emit(verif::exn_name());
    }
    emit(" redump=");
    try {
        S b2 = l->dumps();
        RCP<const Basic> l3 = Basic::loads(b2);
        emit(eq(*l, *l3) ? "eq" : "ne");
    } catch (...) {
        emit(verif::exn_name());
    }
    emit(" end");
}

static std::vector<S> split_sep(const S &s, const S &sep)
{
    std::vector<S> v;
    size_t st = 0;
    while (true) {
        size_t p = s.find(sep, st);
        if (p == S::npos) {
            v.push_back(s.substr(st));
            break;
        }
        v.push_back(s.substr(st, p - st));
        st = p + sep.size();
    }
    return v;
}

static S matrix_roundtrip(const S &rest, const Emit &emit)
{
    std::istringstream is(rest);
    unsigned r, c;
    is >> r >> c;
    S tail;
    std::getline(is, tail);
    vec_basic v;
    for (auto &rs : split_sep(tail, " ;; "))
        if (rs.find_first_not_of(" \t") != S::npos)
            v.push_back(verif::eval_recipe(rs));
    if (v.size() != (size_t)r * c)
        throw std::runtime_error("mrt: wrong number of elements");
    for (auto &x : v)
        verif::dump(*x);
    emit("@");
    DenseMatrix A(r, c, v);
    S b = A.dumps();
    S out = hex(b) + "\t";
    for (size_t i = 0; i < v.size(); i++)
        out += (i ? " ;; " : "") + verif::dump(*v[i]);
    out += "\t";
    try {
        DenseMatrix B = DenseMatrix::loads(b);
        bool same = (A == B) and A.nrows() == B.nrows() and A.ncols() == B.ncols();
        out += std::to_string(B.nrows()) + " " + std::to_string(B.ncols()) + "\t";
        for (unsigned i = 0; i < B.nrows(); i++)
            for (unsigned j = 0; j < B.ncols(); j++)
                out += ((i or j) ? S(" ;; ") : S("")) + verif::dump(*B.get(i, j));
        if (not same)
            out += "\t#ORACLE:matrix-loads(dumps(A))-differs";
    } catch (...) {
        out += "LOADFAIL " + verif::exn_name() + "\t#ORACLE:loads-rejects-dumps-output";
    }
    return out;
}

static void matrix_load(const S &bytes, const Emit &emit)
{
    try {
        DenseMatrix B = DenseMatrix::loads(bytes);
        emit("OK " + std::to_string(B.nrows()) + " " + std::to_string(B.ncols()) + "\t");
        emit("size=");
        emit(std::to_string(B.as_vec_basic().size()));
        emit(" str=");
        S s = B.__str__();
        emit("ok get=");
        unsigned n = 0;
        for (unsigned i = 0; i < B.nrows() and n < 10000; i++)
            for (unsigned j = 0; j < B.ncols() and n < 10000; j++, n++)
                B.get(i, j)->hash();
        emit("ok end");
    } catch (...) {
        emit(verif::exn_name());
    }
}

// one case; everything emitted before a crash is kept by the parent.  "@" marks the end of the
// recipe evaluation (a crash before it belongs to the recipe, not to the codec).
static void process(const S &line, const Emit &emit)
{
    size_t sp = line.find(' ');
    S cmd = line.substr(0, sp);
    S rest = sp == S::npos ? "" : line.substr(sp + 1);
    if (cmd == "version") {
        emit(std::to_string(SYMENGINE_MAJOR_VERSION) + " " + std::to_string(SYMENGINE_MINOR_VERSION) + " "
             + std::to_string((int)TypeID_Count));
    } else if (cmd == "classes") {
        emit(classes());
    } else if (cmd == "rt" or cmd == "rtx") {
        RCP<const Basic> e;
        try {
            e = cmd == "rt" ? verif::eval_recipe(rest) : special(rest);
            verif::dump(*e);
        } catch (...) {
            emit("@NORECIPE");
            return;
        }
        emit("@");
        emit(roundtrip(e));
    } else if (cmd == "load") {
        load_case(unhex(rest), emit);
    } else if (cmd == "mrt") {
        try {
            emit(matrix_roundtrip(rest, emit));
        } catch (...) {
            emit("@NORECIPE");
        }
    } else if (cmd == "mload") {
        matrix_load(unhex(rest), emit);
    } else if (cmd == "deep") {
        // a stream of <n> nested Sin nodes around a Symbol: loads, then the recursive operations
        unsigned n = (unsigned)std::stoul(rest);
        std::ostringstream hs;
        unsigned short ma = SYMENGINE_MAJOR_VERSION, mi = SYMENGINE_MINOR_VERSION;
        S b = S("\x01", 1) + S((char *)&ma, 2) + S((char *)&mi, 2);
        for (unsigned i = 0; i < n; i++) {
            uint64_t id = 100000 + i;
            b += S((char *)&id, 8) + S("\x01", 1) + S(1, (char)SYMENGINE_SIN);
        }
        uint64_t id = 7, one = 1;
        b += S((char *)&id, 8) + S("\x01", 1) + S(1, (char)SYMENGINE_SYMBOL) + S((char *)&one, 8) + "x";
        RCP<const Basic> l;
        try {
            l = Basic::loads(b);
        } catch (...) {
            emit(verif::exn_name());
            return;
        }
        emit("OK depth=" + std::to_string(n) + "\thash=");
        l->hash();
        emit("ok redump=");
        S b2 = l->dumps();
        emit(b2 == b ? "same" : "ok");
        emit(" str=");
        S s = l->__str__();
        emit("ok end");
    } else {
        emit("BADCASE");
    }
}

int main()
{
    // allocations of 2^32 bytes and more fail (the model's ALLOC_LIMIT)
    struct rlimit rl;
    rl.rlim_cur = rl.rlim_max = 3ull << 30;
    setrlimit(RLIMIT_AS, &rl);
    // seconds per case (CODEC_ALARM: the check re-runs a case that timed out with a longer limit to
    // tell a slow allocation from a loop)
    unsigned alarm_s = 15;
    if (const char *a = getenv("CODEC_ALARM"))
        alarm_s = (unsigned)atoi(a);
    std::vector<S> lines;
    S line;
    while (std::getline(std::cin, line))
        lines.push_back(line);
    // all cases run in one forked child; when it dies on case k the parent records what the
    // child had emitted for k plus CRASH:<sig> / HANG and starts a new child at k + 1
    size_t i = 0;
    while (i < lines.size()) {
        int fd[2];
        if (pipe(fd) != 0)
            return 3;
        fflush(stdout);
        pid_t pid = fork();
        if (pid == 0) {
            close(fd[0]);
            struct rlimit rc;
            rc.rlim_cur = rc.rlim_max = 0;
            setrlimit(RLIMIT_CORE, &rc);
            int devnull = open("/dev/null", O_WRONLY);
            if (devnull >= 0)
                dup2(devnull, 2);
            Emit emit = [&](const S &s0) {
                S s = s0;
                for (auto &ch : s)
                    if (ch == '\n')
                        ch = ' ';
                size_t off = 0;
                while (off < s.size()) {
                    ssize_t w = write(fd[1], s.data() + off, s.size() - off);
                    if (w <= 0)
                        _exit(4);
                    off += (size_t)w;
                }
            };
            for (size_t j = i; j < lines.size(); j++) {
                alarm(alarm_s);
                try {
                    process(lines[j], emit);
                } catch (...) {
                    emit("UNCAUGHT");
                }
                ssize_t w = write(fd[1], "\n", 1);
                (void)w;
            }
            close(fd[1]);
            _exit(0);
        }
        close(fd[1]);
        S buf;
        char tmp[65536];
        ssize_t r;
        while ((r = read(fd[0], tmp, sizeof tmp)) > 0)
            buf.append(tmp, (size_t)r);
        close(fd[0]);
        int status = 0;
        waitpid(pid, &status, 0);
        size_t st = 0;
        while (true) {
            size_t nl = buf.find('\n', st);
            if (nl == S::npos)
                break;
            std::cout << buf.substr(st, nl - st) << "\n";
            st = nl + 1;
            i++;
        }
        if (i < lines.size()) {
            // the child died while working on case i
            S partial = buf.substr(st);
            if (WIFSIGNALED(status)) {
                int sig = WTERMSIG(status);
                partial += sig == SIGALRM ? S("HANG") : "CRASH:" + std::to_string(sig);
            } else {
                partial += "CRASH:exit" + std::to_string(WEXITSTATUS(status));
            }
            std::cout << partial << "\n";
            i++;
        }
        std::cout.flush();
    }
    return 0;
}
