// C43 driver: one big-integer operation per input line, evaluated through the mp_* wrapper layer
// (symengine/mp_class.h, mp_wrapper.h, mp_boost.cpp) and the ntheory / Integer / Rational API.
// The SAME source is compiled against the GMP build (cfg rel) and the Boost.Multiprecision build
// (cfg boost); both print the same canonical line as the extracted model (ocaml/c43_main.ml).
// After a tab, "#ORACLE:<class>: <what>" is appended when the result violates the documented
// meaning of the GMP function the wrapper stands for (checked with plain + - * < only, so the
// oracle does not depend on the function under test or on the backend).
#include <symengine/basic.h>
#include <symengine/add.h>
#include <symengine/mul.h>
#include <symengine/pow.h>
#include <symengine/functions.h>
#include <symengine/logic.h>
#include <symengine/sets.h>
#include <symengine/complex.h>
#include <symengine/complex_double.h>
#include <symengine/real_double.h>
#include <symengine/infinity.h>
#include <symengine/nan.h>
#include <symengine/constants.h>
#include <symengine/visitor.h>
#include <symengine/ntheory.h>
#include <symengine/rational.h>
#include <symengine/integer.h>
#include <symengine/symengine_exception.h>
#include "common.h"
#include "dump.h"
#include "recipe.h"
#include <climits>
#include <algorithm>
using namespace SymEngine;
typedef integer_class Z;

static std::string zs(const Z &z)
{
    std::ostringstream o;
    o << z;
    return o.str();
}
static Z zabs(const Z &a)
{
    return a < 0 ? Z(-a) : a;
}
static int zsgn(const Z &a)
{
    return a < 0 ? -1 : (a > 0 ? 1 : 0);
}
// reference helpers: only + - * / % (truncating, on non-negative operands) and comparisons
static Z ref_gcd(Z a, Z b)
{
    a = zabs(a);
    b = zabs(b);
    while (b != 0) {
        Z t = a % b;
        a = b;
        b = t;
    }
    return a;
}
static Z ref_pow(const Z &a, unsigned long n)
{
    Z r = 1, y = a;
    while (n > 0) {
        if (n & 1)
            r = r * y;
        n >>= 1;
        if (n)
            y = y * y;
    }
    return r;
}
static Z ref_mod(const Z &a, const Z &m) // least non-negative residue modulo |m|
{
    Z mm = zabs(m);
    Z r = a % mm;
    if (r < 0)
        r = r + mm;
    return r;
}
static Z ref_powm(const Z &a, const Z &e, const Z &m) // e >= 0, m != 0
{
    Z r = ref_mod(1, m), y = ref_mod(a, m), k = e;
    while (k > 0) {
        if (k % 2 != 0)
            r = ref_mod(r * y, m);
        y = ref_mod(y * y, m);
        k = k / 2;
    }
    return r;
}
static unsigned long bitlen(const Z &a)
{
    Z x = zabs(a);
    unsigned long n = 0;
    while (x > 0) {
        x = x / 2;
        n++;
    }
    return n;
}
// floor of the n-th root of a >= 0 by bisection
static Z ref_root(const Z &a, unsigned long n)
{
    if (a < 2 || n == 1)
        return a;
    unsigned long bl = bitlen(a);
    Z lo = 1, hi = ref_pow(Z(2), bl / n + 1);
    while (hi - lo > 1) {
        Z mid = (lo + hi) / 2;
        if (ref_pow(mid, n) <= a)
            lo = mid;
        else
            hi = mid;
    }
    return lo;
}
static bool ref_small_prime(unsigned long n)
{
    if (n < 2)
        return false;
    for (unsigned long d = 2; d * d <= n; d++)
        if (n % d == 0)
            return false;
    return true;
}
// Jacobi symbol (a/n), n odd positive, by the definition: factor n, Legendre symbols by listing squares
static int ref_legendre_small(long a, long p)
{
    a %= p;
    if (a < 0)
        a += p;
    if (a == 0)
        return 0;
    for (long x = 1; x < p; x++)
        if ((x * x) % p == a)
            return 1;
    return -1;
}
static int ref_jacobi_small(long a, long n)
{
    int r = 1;
    for (long p = 3; n > 1; p += 2) {
        while (n % p == 0) {
            r *= ref_legendre_small(a, p);
            n /= p;
        }
    }
    return r;
}
static int ref_kronecker_small(long a, long n) // n != 0
{
    int r = 1;
    if (n < 0) {
        n = -n;
        if (a < 0)
            r = -r;
    }
    while (n % 2 == 0) {
        n /= 2;
        long a8 = ((a % 8) + 8) % 8;
        int k2 = (a % 2 == 0) ? 0 : ((a8 == 1 || a8 == 7) ? 1 : -1);
        r *= k2;
    }
    return r * ref_jacobi_small(a, n);
}
static unsigned long to_ul(const std::string &s)
{
    return std::stoul(s);
}

struct Out {
    std::ostringstream o, oracle;
    void bad(const std::string &cls, const std::string &what)
    {
        if (oracle.str().empty())
            oracle << cls << ": " << what;
    }
};

static std::string run_case(const std::string &line)
{
    std::vector<std::string> t = verif::split_ws(line);
    if (t.empty())
        return "EMPTY";
    const std::string &op = t[0];
    Out R;
    auto A = [&](size_t i) { return Z(t.at(i)); };
    try {
        if (op == "fdiv") {
            Z a = A(1), b = A(2), q, r, q2, r2;
            mp_fdiv_qr(q, r, a, b);
            mp_fdiv_q(q2, a, b);
            mp_fdiv_r(r2, a, b);
            R.o << zs(q) << " " << zs(r);
            if (q2 != q || r2 != r)
                R.bad("fdiv-variants", "mp_fdiv_q/mp_fdiv_r disagree with mp_fdiv_qr");
            Z aa = a, bb = b; // aliased call, as used by mp_invert
            mp_fdiv_qr(aa, bb, aa, bb);
            if (aa != q || bb != r)
                R.bad("fdiv-alias", "mp_fdiv_qr(a,b,a,b) differs from the unaliased call");
            if (q * b + r != a || !(r == 0 || zsgn(r) == zsgn(b)) || !(zabs(r) < zabs(b)))
                R.bad("fdiv-not-floor", "q=" + zs(q) + " r=" + zs(r) + " is not floor division of " + zs(a) + " by " + zs(b));
        } else if (op == "cdiv") {
            Z a = A(1), b = A(2), q, r, q2;
#if SYMENGINE_INTEGER_CLASS == SYMENGINE_BOOSTMP
            mp_cdiv_qr(q, r, a, b);
#else
            mpz_cdiv_qr(get_mpz_t(q), get_mpz_t(r), get_mpz_t(a), get_mpz_t(b));
#endif
            mp_cdiv_q(q2, a, b);
            R.o << zs(q) << " " << zs(r);
            if (q2 != q)
                R.bad("cdiv-variants", "mp_cdiv_q disagrees with mp_cdiv_qr");
            if (q * b + r != a || !(r == 0 || zsgn(r) == -zsgn(b)) || !(zabs(r) < zabs(b)))
                R.bad("cdiv-not-ceiling", "q=" + zs(q) + " r=" + zs(r) + " is not ceiling division of " + zs(a) + " by " + zs(b));
        } else if (op == "tdiv") {
            Z a = A(1), b = A(2), q, r, q2;
            mp_tdiv_qr(q, r, a, b);
            mp_tdiv_q(q2, a, b);
            R.o << zs(q) << " " << zs(r);
            if (q2 != q || Z(a / b) != q || Z(a % b) != r)
                R.bad("tdiv-variants", "mp_tdiv_q, operator/ or operator% disagree with mp_tdiv_qr");
            if (q * b + r != a || !(r == 0 || zsgn(r) == zsgn(a)) || !(zabs(r) < zabs(b)))
                R.bad("tdiv-not-truncating", "q=" + zs(q) + " r=" + zs(r));
        } else if (op == "gcdext") {
            Z a = A(1), b = A(2), g, s, u;
            mp_gcdext(g, s, u, a, b);
            R.o << zs(g) << " " << zs(s) << " " << zs(u);
            Z rg = ref_gcd(a, b);
            if (g != rg || s * a + u * b != g)
                R.bad("gcdext-bezout", "g=" + zs(g) + " s=" + zs(s) + " t=" + zs(u) + " for a=" + zs(a) + " b=" + zs(b));
            else {
                // the normalisation documented for mpz_gcdext
                bool ok;
                Z aa = zabs(a), ab = zabs(b);
                if (aa == ab)
                    ok = (s == 0 && u == zsgn(b));
                else {
                    bool oks = (b == 0 || ab == 2 * g) ? (s == zsgn(a)) : (2 * g * zabs(s) < ab);
                    bool okt = (a == 0 || aa == 2 * g) ? (u == zsgn(b)) : (2 * g * zabs(u) < aa);
                    ok = oks && okt;
                }
                if (!ok)
                    R.bad("gcdext-cofactor-normalisation", "s=" + zs(s) + " t=" + zs(u) + " for a=" + zs(a) + " b=" + zs(b) + " are not the cofactors documented for mpz_gcdext");
            }
        } else if (op == "gcd" || op == "lcm") {
            Z a = A(1), b = A(2), g;
            if (op == "gcd")
                mp_gcd(g, a, b);
            else
                mp_lcm(g, a, b);
            R.o << zs(g);
            Z rg = ref_gcd(a, b);
            Z want = (op == "gcd") ? rg : (rg == 0 ? Z(0) : Z(zabs(a) / rg * zabs(b)));
            if (g != want)
                R.bad(op + "-value", op + "(" + zs(a) + "," + zs(b) + ") = " + zs(g) + ", expected " + zs(want));
        } else if (op == "invert") {
            Z a = A(1), m = A(2), r;
            bool ok = mp_invert(r, a, m);
            if (ok)
                R.o << "1 " << zs(r);
            else
                R.o << "0";
            bool exists = ref_gcd(a, m) == 1;
            if (m == 0)
                ; // undefined for mpz_invert
            else if (ok != exists)
                R.bad("invert-existence", "mp_invert(" + zs(a) + "," + zs(m) + ") returned " + (ok ? "true" : "false"));
            else if (ok && !(r >= 0 && (r < zabs(m)) && ref_mod(a * r - 1, m) == 0))
                R.bad("invert-value", "mp_invert(" + zs(a) + "," + zs(m) + ") = " + zs(r));
        } else if (op == "powm") {
            Z a = A(1), e = A(2), m = A(3), r;
            mp_powm(r, a, e, m);
            R.o << zs(r);
            if (m != 0) {
                bool ok = r >= 0 && r < zabs(m);
                if (e >= 0)
                    ok = ok && r == ref_powm(a, e, m);
                else
                    ok = ok && ref_mod(r * ref_powm(a, -e, m) - 1, m) == 0;
                if (!ok)
                    R.bad(m < 0 ? "powm-negative-modulus" : "powm-value", "mp_powm(" + zs(a) + "," + zs(e) + "," + zs(m) + ") = " + zs(r));
            }
        } else if (op == "powui") {
            Z a = A(1), r;
            unsigned long n = to_ul(t.at(2));
            mp_pow_ui(r, a, n);
            R.o << zs(r);
            if (r != ref_pow(a, n))
                R.bad("powui-value", "mp_pow_ui");
        } else if (op == "qpowui") {
            Z p = A(1), q = A(2);
            unsigned long n = to_ul(t.at(3));
            rational_class x(p, q), r;
            canonicalize(x);
            mp_pow_ui(r, x, n);
            R.o << zs(get_num(r)) << " " << zs(get_den(r));
            if (get_num(r) != ref_pow(get_num(x), n) || get_den(r) != ref_pow(get_den(x), n))
                R.bad("qpowui-value", "mp_pow_ui(rational)");
        } else if (op == "root" || op == "rootrem") {
            Z i = A(1), r, rem;
            unsigned long n = to_ul(t.at(2));
            bool exact = false;
            if (op == "root") {
                exact = mp_root(r, i, n);
                R.o << (exact ? "1 " : "0 ") << zs(r);
            } else {
                mp_rootrem(r, rem, i, n);
                R.o << zs(r) << " " << zs(rem);
            }
            if (n >= 1 && (i >= 0 || n % 2 == 1) && bitlen(i) <= 4096) {
                Z w = ref_root(zabs(i), n);
                bool wex = ref_pow(w, n) == zabs(i);
                if (i < 0)
                    w = -w;
                if (r != w || (op == "root" && exact != wex) || (op == "rootrem" && rem != i - ref_pow(w, n)))
                    R.bad(i < 0 ? "root-negative" : "root-value", op + "(" + zs(i) + "," + t.at(2) + ") gave " + R.o.str() + ", truncated root is " + zs(w));
            }
        } else if (op == "sqrt" || op == "sqrtrem") {
            Z i = A(1), r, rem;
            if (op == "sqrt") {
                r = mp_sqrt(i);
                R.o << zs(r);
            } else {
                mp_sqrtrem(r, rem, i);
                R.o << zs(r) << " " << zs(rem);
            }
            if (i >= 0) {
                Z w = ref_root(i, 2);
                if (r != w || (op == "sqrtrem" && rem != i - w * w))
                    R.bad("sqrt-value", op + "(" + zs(i) + ") gave " + R.o.str());
            }
        } else if (op == "scan1") {
            Z i = A(1);
            unsigned long k = mp_scan1(i);
            R.o << k;
            if (i != 0) {
                Z p = ref_pow(Z(2), k < 100000 ? k : 0);
                if (k >= 100000 || i % p != 0 || (i / p) % 2 == 0)
                    R.bad("scan1-value", "mp_scan1(" + zs(i) + ") = " + std::to_string(k));
            } else if (k != ULONG_MAX)
                R.bad("scan1-value", "mp_scan1(0)");
        } else if (op == "fib" || op == "luc" || op == "fib2" || op == "luc2") {
            unsigned long n = to_ul(t.at(1));
            Z a, b;
            if (op == "fib")
                mp_fib_ui(a, n);
            else if (op == "luc")
                mp_lucnum_ui(a, n);
            else if (op == "fib2")
                mp_fib2_ui(a, b, n);
            else
                mp_lucnum2_ui(a, b, n);
            R.o << zs(a);
            if (op == "fib2" || op == "luc2")
                R.o << " " << zs(b);
            // reference: x(-1), x(0) then the recurrence
            bool F = (op[0] == 'f');
            Z pm1 = F ? Z(1) : Z(-1), p0 = F ? Z(0) : Z(2);
            for (unsigned long k = 0; k < n && n <= 20000; k++) {
                Z nx = p0 + pm1;
                pm1 = p0;
                p0 = nx;
            }
            if (n <= 20000 && (a != p0 || ((op == "fib2" || op == "luc2") && b != pm1)))
                R.bad(op + "-value", op + "(" + t.at(1) + ") gave " + R.o.str());
        } else if (op == "fac") {
            unsigned long n = to_ul(t.at(1));
            Z a, w = 1;
            mp_fac_ui(a, n);
            R.o << zs(a);
            for (unsigned long k = 2; k <= n; k++)
                w = w * Z(k);
            if (a != w)
                R.bad("fac-value", "mp_fac_ui(" + t.at(1) + ")");
        } else if (op == "bin") {
            Z n = A(1), a;
            unsigned long k = to_ul(t.at(2));
            mp_bin_ui(a, n, k);
            R.o << zs(a);
            // a * k! = n (n-1) ... (n-k+1)
            Z num = 1, den = 1;
            for (unsigned long j = 0; j < k; j++) {
                num = num * (n - Z(j));
                den = den * Z(j + 1);
            }
            if (a * den != num)
                R.bad("bin-value", "mp_bin_ui(" + zs(n) + "," + t.at(2) + ") = " + zs(a));
        } else if (op == "ppow" || op == "psq") {
            Z i = A(1);
            bool r = (op == "ppow") ? mp_perfect_power_p(i) : mp_perfect_square_p(i);
            R.o << (r ? 1 : 0);
            bool w = false;
            if (op == "psq") {
                w = i >= 0 && ref_pow(ref_root(i, 2), 2) == i;
            } else if (zabs(i) <= 1) {
                w = true;
            } else {
                unsigned long bl = bitlen(i);
                for (unsigned long k = 2; k <= bl && !w; k++) {
                    if (i < 0 && k % 2 == 0)
                        continue;
                    if (ref_pow(ref_root(zabs(i), k), k) == zabs(i))
                        w = true;
                }
            }
            if (r != w)
                R.bad(op + "-value", op + "(" + zs(i) + ") = " + (r ? "1" : "0"));
        } else if (op == "legendre" || op == "jacobi" || op == "kronecker") {
            Z a = A(1), n = A(2);
            int r = (op == "legendre") ? mp_legendre(a, n) : (op == "jacobi") ? mp_jacobi(a, n) : mp_kronecker(a, n);
            R.o << r;
            if (zabs(n) < 100000 && zabs(a) < 1000000000L && n != 0) {
                long la = std::stol(zs(a)), ln = std::stol(zs(n));
                bool defined = (op == "kronecker") || (op == "jacobi" && ln > 0 && ln % 2 == 1)
                               || (op == "legendre" && ln > 2 && ref_small_prime((unsigned long)ln));
                if (defined && r != ref_kronecker_small(la, ln))
                    R.bad(op + "-value", op + "(" + zs(a) + "," + zs(n) + ") = " + std::to_string(r) + ", by definition " + std::to_string(ref_kronecker_small(la, ln)));
            }
        } else if (op == "nextprime") {
            Z i = A(1), r;
            mp_nextprime(r, i);
            R.o << zs(r);
            if (r < 4000000000UL) {
                unsigned long p = std::stoul(zs(r));
                bool ok = r > i && ref_small_prime(p);
                for (unsigned long c = (i < 1 ? 1UL : std::stoul(zs(i))) + 1; ok && c < p; c++)
                    if (ref_small_prime(c))
                        ok = false;
                if (!ok)
                    R.bad("nextprime-value", "mp_nextprime(" + zs(i) + ") = " + zs(r));
            }
        } else if (op == "isprime") {
            Z i = A(1);
            int r = mp_probab_prime_p(i, 25);
            R.o << (r != 0 ? 1 : 0);
            if (zabs(i) < 1000000000000UL) {
                bool w = ref_small_prime(std::stoul(zs(zabs(i))));
                if ((r != 0) != w)
                    R.bad(i < 0 ? "isprime-negative" : "isprime-value", "mp_probab_prime_p(" + zs(i) + ") = " + std::to_string(r));
            }
        } else if (op == "primorial") {
            unsigned long n = to_ul(t.at(1));
            Z r = mp_primorial(n), w = 1;
            R.o << zs(r);
            for (unsigned long p = 2; p <= n; p++)
                if (ref_small_prime(p))
                    w = w * Z(p);
            if (r != w)
                R.bad("primorial-value", "mp_primorial(" + t.at(1) + ")");
        } else if (op == "divisible") {
            Z a = A(1), b = A(2);
            bool r = mp_divisible_p(a, b);
            R.o << (r ? 1 : 0);
            bool w = (b == 0) ? (a == 0) : (a % b == 0);
            if (r != w)
                R.bad("divisible-value", "mp_divisible_p");
        } else if (op == "cmpabs") {
            Z a = A(1), b = A(2);
            int r = mp_cmpabs(a, b);
            R.o << (r < 0 ? -1 : r > 0 ? 1 : 0);
        } else if (op == "and") {
            Z a = A(1), b = A(2), r;
            mp_and(r, a, b);
            R.o << zs(r);
        } else if (op == "shr" || op == "shl") {
            Z a = A(1);
            unsigned long k = to_ul(t.at(2));
            Z r = (op == "shr") ? Z(a >> k) : Z(a << k);
            R.o << zs(r);
        } else if (op == "getui") {
            R.o << mp_get_ui(A(1));
        } else if (op == "getsi") {
            R.o << mp_get_si(A(1));
        } else if (op == "fits") {
            Z a = A(1);
            R.o << (mp_fits_ulong_p(a) ? 1 : 0) << " " << (mp_fits_slong_p(a) ? 1 : 0);
        } else if (op == "hex") {
            R.o << mp_get_hex_str(A(1));
        } else if (op == "hash") {
            R.o << integer(A(1))->hash();
        } else if (op == "getd") {
            R.o << verif::dblbits(mp_get_d(A(1)));
        } else if (op == "setd") {
            Z r;
            mp_set_d(r, verif::dbl_of_hex(t.at(1)));
            R.o << zs(r);
        } else if (op == "nt") {
            // ntheory / Integer / Rational API level: nt <fn> args...
            const std::string &f = t.at(1);
            RCP<const Integer> x, y, z;
            auto I = [&](size_t i) { return integer(Z(t.at(i))); };
            if (f == "gcd_ext") {
                gcd_ext(outArg(x), outArg(y), outArg(z), *I(2), *I(3));
                R.o << x->__str__() << " " << y->__str__() << " " << z->__str__();
            } else if (f == "mod_inverse") {
                int r = mod_inverse(outArg(x), *I(2), *I(3));
                R.o << (r != 0 ? "1 " + x->__str__() : std::string("0"));
            } else if (f == "mod") {
                R.o << mod(*I(2), *I(3))->__str__();
            } else if (f == "quotient") {
                R.o << quotient(*I(2), *I(3))->__str__();
            } else if (f == "mod_f") {
                R.o << mod_f(*I(2), *I(3))->__str__();
            } else if (f == "quotient_f") {
                R.o << quotient_f(*I(2), *I(3))->__str__();
            } else if (f == "lucas2") {
                lucas2(outArg(x), outArg(y), to_ul(t.at(2)));
                R.o << x->__str__() << " " << y->__str__();
            } else if (f == "fibonacci2") {
                fibonacci2(outArg(x), outArg(y), to_ul(t.at(2)));
                R.o << x->__str__() << " " << y->__str__();
            } else if (f == "binomial") {
                R.o << binomial(*I(2), to_ul(t.at(3)))->__str__();
            } else if (f == "probab_prime_p") {
                R.o << (probab_prime_p(*I(2), 25) != 0 ? 1 : 0); // GMP: 2 = certainly prime, 1 = probably; Boost: 1
            } else if (f == "nextprime") {
                R.o << nextprime(*I(2))->__str__();
            } else if (f == "i_nth_root") {
                int r = i_nth_root(outArg(x), *I(2), to_ul(t.at(3)));
                R.o << (r != 0 ? "1 " : "0 ") << x->__str__();
            } else if (f == "isqrt") {
                R.o << isqrt(*I(2))->__str__();
            } else if (f == "perfect_power") {
                R.o << (perfect_power(*I(2)) ? 1 : 0);
            } else if (f == "perfect_square") {
                R.o << (perfect_square(*I(2)) ? 1 : 0);
            } else if (f == "legendre") {
                R.o << legendre(*I(2), *I(3));
            } else if (f == "jacobi") {
                R.o << jacobi(*I(2), *I(3));
            } else if (f == "kronecker") {
                R.o << kronecker(*I(2), *I(3));
            } else if (f == "powermod") {
                bool r = powermod(outArg(x), I(2), Rational::from_two_ints(*I(3), *I(4)), I(5));
                R.o << (r ? "1 " + x->__str__() : std::string("0"));
            } else if (f == "factor") {
                int r = factor(outArg(x), *I(2));
                R.o << r << (r ? " " + x->__str__() : std::string(""));
                if (r && (Z(I(2)->as_integer_class() % x->as_integer_class()) != 0 || x->as_integer_class() <= 1 || zabs(x->as_integer_class()) >= zabs(I(2)->as_integer_class())))
                    R.bad("factor-value", "factor");
                R.o.str(std::to_string(r != 0));
            } else if (f == "prime_factors") {
                std::vector<RCP<const Integer>> v;
                prime_factors(v, *I(2));
                for (auto &p : v)
                    R.o << p->__str__() << ",";
            } else if (f == "totient") {
                R.o << totient(I(2))->__str__();
            } else if (f == "carmichael") {
                R.o << carmichael(I(2))->__str__();
            } else if (f == "primitive_root") {
                bool r = primitive_root(outArg(x), *I(2));
                R.o << (r ? "1 " + x->__str__() : std::string("0"));
            } else if (f == "multiplicative_order") {
                bool r = multiplicative_order(outArg(x), I(2), I(3));
                R.o << (r ? "1 " + x->__str__() : std::string("0"));
            } else if (f == "nthroot_mod") {
                bool r = nthroot_mod(outArg(x), I(2), I(3), I(4));
                R.o << (r ? "1 " + x->__str__() : std::string("0"));
            } else if (f == "nthroot_mod_list") {
                std::vector<RCP<const Integer>> v;
                nthroot_mod_list(v, I(2), I(3), I(4));
                for (auto &p : v)
                    R.o << p->__str__() << ",";
            } else if (f == "is_quad_residue") {
                R.o << (is_quad_residue(*I(2), *I(3)) ? 1 : 0);
            } else if (f == "is_nth_residue") {
                R.o << (is_nth_residue(*I(2), *I(3), *I(4)) ? 1 : 0);
            } else if (f == "mobius") {
                R.o << mobius(*I(2));
            } else if (f == "bernoulli") {
                R.o << bernoulli(to_ul(t.at(2)))->__str__();
            } else if (f == "harmonic") {
                R.o << harmonic(to_ul(t.at(2)), std::stol(t.at(3)))->__str__();
            } else if (f == "crt") {
                // crt r1 m1 r2 m2 ...
                std::vector<RCP<const Integer>> rem, mo;
                for (size_t k = 2; k + 1 < t.size(); k += 2) {
                    rem.push_back(I(k));
                    mo.push_back(I(k + 1));
                }
                bool r = crt(outArg(x), rem, mo);
                R.o << (r ? "1 " + x->__str__() : std::string("0"));
            } else if (f == "ppdecomp") {
                auto pr = mp_perfect_power_decomposition(Z(t.at(2)), t.at(3) == "1");
                R.o << zs(pr.first) << " " << zs(pr.second);
            } else if (f == "rat_nth_root") {
                RCP<const Number> q = Rational::from_two_ints(*I(2), *I(3)), out;
                if (is_a<Rational>(*q)) {
                    bool r = down_cast<const Rational &>(*q).nth_root(outArg(out), to_ul(t.at(4)));
                    R.o << (r ? "1 " + out->__str__() : std::string("0"));
                } else
                    R.o << "int";
            } else if (f == "rat_is_perfect_power") {
                RCP<const Number> q = Rational::from_two_ints(*I(2), *I(3));
                if (is_a<Rational>(*q))
                    R.o << (down_cast<const Rational &>(*q).is_perfect_power(t.at(4) == "1") ? 1 : 0);
                else
                    R.o << "int";
            } else
                return "BADOP";
        } else if (op == "W") {
            // workload: a recipe of public API calls; printed, not modelled
            std::string rec = line.substr(line.find('W') + 1);
            RCP<const Basic> e = verif::eval_recipe(rec);
            R.o << e->__str__() << " ## " << verif::dump_sorted(*e);
        } else
            return "BADOP";
    } catch (const SymEngineException &) {
        R.o.str("");
        R.o << "EXN:6";
    } catch (const std::exception &) {
        R.o.str("");
        R.o << "EXN:7";
    } catch (...) {
        R.o.str("");
        R.o << "EXN:8";
    }
    std::string s = R.o.str();
    if (!R.oracle.str().empty())
        s += "\t#ORACLE:" + R.oracle.str();
    return s;
}

// Cases run in forked children, a batch per child (forking once per case is too slow on a loaded
// machine): the child writes one result line per case to a pipe; when it dies (signal) or hangs
// (SIGALRM, re-armed per case) the case in progress gets CRASH:<sig> / HANG and a fresh child
// continues with the next case.
static void run_batch(const std::vector<std::string> &lines, size_t from, size_t to, unsigned timeout_s)
{
    size_t next = from;
    while (next < to) {
        int fd[2];
        if (pipe(fd) != 0) {
            std::cout << "PIPEFAIL\n";
            next++;
            continue;
        }
        fflush(stdout);
        std::cout.flush();
        pid_t pid = fork();
        if (pid == 0) {
            close(fd[0]);
            struct rlimit rl;
            rl.rlim_cur = rl.rlim_max = 0;
            setrlimit(RLIMIT_CORE, &rl);
            for (size_t k = next; k < to; k++) {
                alarm(timeout_s);
                std::string r;
                try {
                    r = run_case(lines[k]);
                } catch (...) {
                    r = "UNCAUGHT";
                }
                for (auto &c : r)
                    if (c == '\n')
                        c = ' ';
                r += "\n";
                size_t off = 0;
                while (off < r.size()) {
                    ssize_t w = write(fd[1], r.data() + off, r.size() - off);
                    if (w <= 0)
                        _exit(1);
                    off += (size_t)w;
                }
            }
            close(fd[1]);
            _exit(0);
        }
        close(fd[1]);
        std::string buf;
        char tmp[65536];
        ssize_t n;
        size_t done = 0;
        while ((n = read(fd[0], tmp, sizeof tmp)) > 0) {
            buf.append(tmp, (size_t)n);
            size_t pos;
            while ((pos = buf.find('\n')) != std::string::npos) {
                std::cout << buf.substr(0, pos) << "\n";
                buf.erase(0, pos + 1);
                done++;
            }
        }
        close(fd[0]);
        int status = 0;
        waitpid(pid, &status, 0);
        next += done;
        if (next < to) { // the child died while working on lines[next]
            std::string r = buf; // partial output, normally empty
            if (WIFSIGNALED(status)) {
                int sig = WTERMSIG(status);
                r += (sig == SIGALRM) ? std::string("HANG") : "CRASH:" + std::to_string(sig);
            } else
                r += "CHILDEXIT";
            std::cout << r << "\n";
            next++;
        }
    }
    std::cout.flush();
}

int main()
{
    std::vector<std::string> lines;
    std::string line;
    while (std::getline(std::cin, line))
        lines.push_back(line);
    for (size_t from = 0; from < lines.size(); from += 64)
        run_batch(lines, from, std::min(lines.size(), from + 64), 600);
    return 0;
}
