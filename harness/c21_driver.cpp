// C21 driver: runs one polynomial operation per input line on the library and prints the same
// canonical line as the extracted model (ocaml/c21_main.ml), followed by a tab and
// "#ORACLE:<what>" when the library's answer differs from schoolbook arithmetic computed here
// (independently of the model) on sparse coefficient maps with 64-bit exponents.
//
//   <fam> <op> <args>     fam I (UIntPoly) | Q (URatPoly) | E (UExprPoly) | B (from_basic / as_symbolic round trip)
//   poly: `-` or k:v,k:v,...  (keys decimal, values hex, rationals n/d)
#include <symengine/polys/uintpoly.h>
#include <symengine/polys/uratpoly.h>
#include <symengine/polys/uexprpoly.h>
#include <symengine/polys/basic_conversions.h>
#include <symengine/parser.h>
#include <symengine/symengine_exception.h>
#include <symengine/visitor.h>
#include "common.h"
#include <map>
using namespace SymEngine;

typedef unsigned long long u64;
typedef std::map<u64, rational_class> RefPoly; // no zero values

// ---------------------------------------------------------------- numbers
static integer_class z_of_hex(const std::string &s)
{
    integer_class r;
    if (mpz_set_str(get_mpz_t(r), s.c_str(), 16) != 0)
        throw std::runtime_error("bad integer " + s);
    return r;
}
static std::string hex_of_z(const integer_class &z)
{
    char *c = mpz_get_str(nullptr, 16, get_mpz_t(z));
    std::string s(c);
    void (*freefunc)(void *, size_t);
    mp_get_memory_functions(nullptr, nullptr, &freefunc);
    freefunc(c, s.size() + 1);
    return s;
}
static rational_class q_of_string(const std::string &s)
{
    size_t i = s.find('/');
    if (i == std::string::npos)
        return rational_class(z_of_hex(s));
    integer_class n = z_of_hex(s.substr(0, i)), d = z_of_hex(s.substr(i + 1));
    rational_class q(n, d);
    canonicalize(q);
    return q;
}
static std::string string_of_q(const rational_class &q)
{
    integer_class n = get_num(q), d = get_den(q);
    if (d == 1)
        return hex_of_z(n);
    return hex_of_z(n) + "/" + hex_of_z(d);
}

// ---------------------------------------------------------------- parsing
static std::vector<std::string> split(const std::string &s, char c)
{
    std::vector<std::string> v;
    std::string cur;
    for (char ch : s) {
        if (ch == c) {
            v.push_back(cur);
            cur.clear();
        } else
            cur.push_back(ch);
    }
    v.push_back(cur);
    return v;
}
static map_uint_mpz parse_zmap(const std::string &s)
{
    map_uint_mpz m;
    if (s == "-")
        return m;
    for (auto &t : split(s, ',')) {
        size_t i = t.find(':');
        m[(unsigned)std::stoul(t.substr(0, i))] = z_of_hex(t.substr(i + 1));
    }
    return m;
}
static map_uint_mpq parse_qmap(const std::string &s)
{
    map_uint_mpq m;
    if (s == "-")
        return m;
    for (auto &t : split(s, ',')) {
        size_t i = t.find(':');
        m[(unsigned)std::stoul(t.substr(0, i))] = q_of_string(t.substr(i + 1));
    }
    return m;
}
static std::string show(const UIntDict &d)
{
    if (d.dict_.empty())
        return "-";
    std::string s;
    for (auto &p : d.dict_) {
        if (!s.empty())
            s += ",";
        s += std::to_string(p.first) + ":" + hex_of_z(p.second);
    }
    return s;
}
static std::string show(const URatDict &d)
{
    if (d.dict_.empty())
        return "-";
    std::string s;
    for (auto &p : d.dict_) {
        if (!s.empty())
            s += ",";
        s += std::to_string(p.first) + ":" + string_of_q(p.second);
    }
    return s;
}

// ---------------------------------------------------------------- reference arithmetic
static RefPoly ref_of(const map_uint_mpz &m)
{
    RefPoly r;
    for (auto &p : m)
        if (p.second != 0)
            r[p.first] = rational_class(p.second);
    return r;
}
static RefPoly ref_of(const map_uint_mpq &m)
{
    RefPoly r;
    for (auto &p : m)
        if (p.second != 0)
            r[p.first] = p.second;
    return r;
}
static RefPoly ref_of(const UIntDict &d)
{
    RefPoly r;
    for (auto &p : d.dict_)
        r[p.first] = rational_class(p.second); // zeros kept: a zero entry is itself a defect
    return r;
}
static RefPoly ref_of(const URatDict &d)
{
    RefPoly r;
    for (auto &p : d.dict_)
        r[p.first] = p.second;
    return r;
}
static void ref_addmul(RefPoly &acc, const RefPoly &b, const rational_class &c, u64 shift)
{
    for (auto &p : b) {
        rational_class v = p.second * c;
        auto it = acc.find(p.first + shift);
        if (it == acc.end()) {
            if (v != 0)
                acc[p.first + shift] = v;
        } else {
            it->second += v;
            if (it->second == 0)
                acc.erase(it);
        }
    }
}
static RefPoly ref_add(const RefPoly &a, const RefPoly &b, int sign)
{
    RefPoly r = a;
    ref_addmul(r, b, rational_class(sign), 0);
    return r;
}
static RefPoly ref_mul(const RefPoly &a, const RefPoly &b)
{
    RefPoly r;
    for (auto &p : a)
        ref_addmul(r, b, p.second, p.first);
    return r;
}
static RefPoly ref_pow(const RefPoly &a, unsigned n)
{
    RefPoly r;
    r[0] = rational_class(1);
    for (unsigned i = 0; i < n; i++)
        r = ref_mul(r, a);
    return r;
}
static rational_class ref_eval(const RefPoly &a, const rational_class &x)
{
    rational_class r(0);
    for (auto &p : a) {
        rational_class t(1);
        for (u64 i = 0; i < p.first; i++)
            t *= x;
        r += p.second * t;
    }
    return r;
}
static RefPoly ref_diff(const RefPoly &a)
{
    RefPoly r;
    for (auto &p : a)
        if (p.first != 0)
            r[p.first - 1] = p.second * rational_class(integer_class((unsigned long)p.first));
    return r;
}
// long division over Q: returns true and the quotient when a divides b exactly
static bool ref_divides(const RefPoly &a, const RefPoly &b, RefPoly &quo)
{
    if (a.empty())
        return false;
    RefPoly r = b;
    quo.clear();
    u64 da = a.rbegin()->first;
    while (!r.empty() && r.rbegin()->first >= da) {
        u64 k = r.rbegin()->first - da;
        rational_class c = r.rbegin()->second / a.rbegin()->second;
        quo[k] = c;
        ref_addmul(r, a, -c, k);
    }
    return r.empty();
}
static bool all_integer(const RefPoly &p)
{
    for (auto &t : p)
        if (get_den(t.second) != 1)
            return false;
    return true;
}
static bool no_zero(const RefPoly &p)
{
    for (auto &t : p)
        if (t.second == 0)
            return false;
    return true;
}
static std::string cmp(const char *what, const RefPoly &got, const RefPoly &want)
{
    if (!no_zero(got))
        return std::string(" ") + what + ": result holds a zero coefficient";
    if (got != want)
        return std::string(" ") + what + ": result differs from schoolbook arithmetic";
    return "";
}

// ---------------------------------------------------------------- one case
template <typename Poly, typename Dict, typename Map, typename Cf>
static std::string run_family(const std::vector<std::string> &t, Map (*parse)(const std::string &),
                              Cf (*parse_cf)(const std::string &), std::string (*show_cf)(const Cf &),
                              bool is_int)
{
    RCP<const Symbol> x = symbol("x");
    const std::string &op = t[1];
    std::ostringstream o, oracle;
    auto mk = [&](const std::string &s) { return Poly::from_dict(x, parse(s)); };
    auto binary = [&](RCP<const Poly> (*f)(const Poly &, const Poly &), int kind) {
        auto a = mk(t[2]), b = mk(t[3]);
        auto r = f(*a, *b);
        o << show(r->get_poly());
        RefPoly ra = ref_of(parse(t[2])), rb = ref_of(parse(t[3]));
        RefPoly want = kind == 0 ? ref_add(ra, rb, 1) : kind == 1 ? ref_add(ra, rb, -1) : ref_mul(ra, rb);
        oracle << cmp(op.c_str(), ref_of(r->get_poly()), want);
    };
    if (op == "add") {
        binary(add_upoly<Poly>, 0);
    } else if (op == "sub") {
        binary(sub_upoly<Poly>, 1);
    } else if (op == "mul") {
        binary(mul_upoly<Poly>, 2);
    } else if (op == "kmul" || op == "gmul") {
        Dict a(parse(t[2])), b(parse(t[3]));
        Dict r = (op == "kmul") ? Dict::mul(a, b) : ODictWrapper<unsigned int, Cf, Dict>::mul(a, b);
        o << show(r);
        oracle << cmp(op.c_str(), ref_of(r), ref_mul(ref_of(parse(t[2])), ref_of(parse(t[3]))));
    } else if (op == "neg") {
        auto a = mk(t[2]);
        auto r = neg_upoly(*a);
        o << show(r->get_poly());
        RefPoly z;
        oracle << cmp("neg", ref_of(r->get_poly()), ref_add(z, ref_of(parse(t[2])), -1));
    } else if (op == "pow") {
        auto a = mk(t[2]);
        unsigned n = (unsigned)std::stoul(t[3]);
        auto r = pow_upoly(*a, n);
        o << show(r->get_poly());
        if (n <= 64)
            oracle << cmp("pow", ref_of(r->get_poly()), ref_pow(ref_of(parse(t[2])), n));
    } else if (op == "div") {
        auto a = mk(t[2]), b = mk(t[3]);
        RCP<const Poly> q;
        bool r = divides_upoly(*a, *b, outArg(q));
        RefPoly ra = ref_of(parse(t[2])), rb = ref_of(parse(t[3])), rq;
        bool want = ref_divides(ra, rb, rq) && (!is_int || all_integer(rq));
        if (r) {
            o << "T " << show(q->get_poly());
            if (!want)
                oracle << " divides: true although a does not divide b";
            else
                oracle << cmp("divides quotient", ref_of(q->get_poly()), rq);
        } else {
            o << "F";
            if (want)
                oracle << " divides: false although b = a * q";
        }
    } else if (op == "eval") {
        auto a = mk(t[2]);
        Cf xv = parse_cf(t[3]);
        Cf r = a->eval(xv);
        o << show_cf(r);
        if (rational_class(r) != ref_eval(ref_of(parse(t[2])), rational_class(xv)))
            oracle << " eval: value differs from the sum of the terms";
    } else if (op == "diff") {
        auto a = mk(t[2]);
        RCP<const Basic> r = a->diff(x);
        if (!is_a<Poly>(*r))
            return "NOTPOLY";
        const Poly &rp = down_cast<const Poly &>(*r);
        o << show(rp.get_poly());
        oracle << cmp("diff", ref_of(rp.get_poly()), ref_diff(ref_of(parse(t[2]))));
    } else if (op == "coeff") {
        auto a = mk(t[2]);
        unsigned k = (unsigned)std::stoul(t[3]);
        Cf r = a->get_coeff(k);
        o << show_cf(r);
        RefPoly ra = ref_of(parse(t[2]));
        rational_class want = ra.count(k) ? ra[k] : rational_class(0);
        if (rational_class(r) != want)
            oracle << " get_coeff: wrong coefficient";
    } else if (op == "deg") {
        auto a = mk(t[2]);
        unsigned d = a->get_poly().degree();
        o << d;
        RefPoly ra = ref_of(parse(t[2]));
        u64 want = ra.empty() ? 0 : ra.rbegin()->first;
        if (d != want)
            oracle << " degree: wrong degree";
        if (a->size() != (ra.empty() ? 0 : (long long)want + 1))
            oracle << " size: not degree + 1";
    } else if (op == "lc") {
        auto a = mk(t[2]);
        Cf r = a->get_poly().get_lc();
        o << show_cf(r);
        RefPoly ra = ref_of(parse(t[2]));
        rational_class want = ra.empty() ? rational_class(0) : ra.rbegin()->second;
        if (rational_class(r) != want || rational_class(a->get_lc()) != want)
            oracle << " get_lc: wrong leading coefficient";
    } else if (op == "vec") {
        std::vector<Cf> v;
        if (t[2] != "-")
            for (auto &c : split(t[2], ','))
                v.push_back(parse_cf(c));
        auto a = Poly::from_vec(x, v);
        o << show(a->get_poly());
        RefPoly want;
        for (size_t i = 0; i < v.size(); i++)
            if (v[i] != 0)
                want[i] = rational_class(v[i]);
        oracle << cmp("from_vec", ref_of(a->get_poly()), want);
    } else {
        return "BADOP";
    }
    std::string s = o.str();
    if (!oracle.str().empty())
        s += "\t#ORACLE:" + oracle.str();
    return s;
}

static std::string show_z(const integer_class &z)
{
    return hex_of_z(z);
}

// B rt <I|Q|E> <expression in x>: as_symbolic(from_basic(e)) must equal expand(e)
static std::string run_roundtrip(const std::string &line)
{
    size_t p = line.find(" rt ");
    std::string rest = line.substr(p + 4);
    char fam = rest[0];
    std::string src = rest.substr(2);
    RCP<const Symbol> x = symbol("x");
    RCP<const Basic> e = parse(src);
    RCP<const Basic> back;
    if (fam == 'I')
        back = from_basic<UIntPoly>(e, x)->as_symbolic();
    else if (fam == 'Q')
        back = from_basic<URatPoly>(e, x)->as_symbolic();
    else
        back = from_basic<UExprPoly>(e, x)->as_symbolic();
    RCP<const Basic> ex = expand(e);
    std::string s = back->__str__();
    if (!eq(*back, *ex))
        s += "\t#ORACLE: as_symbolic(from_basic(e)) = " + back->__str__() + " differs from expand(e) = " + ex->__str__();
    return s;
}

// E <op> <args>: UExprPoly (expression coefficients in the symbol a); the reference is the same
// operation on the polynomials' symbolic forms, expanded
static std::string run_expr(const std::vector<std::string> &t)
{
    RCP<const Symbol> x = symbol("x");
    auto mk = [&](const std::string &s) {
        map_int_Expr m;
        if (s != "-")
            for (auto &term : split(s, ',')) {
                size_t i = term.find(':');
                m[std::stoi(term.substr(0, i))] = Expression(parse(term.substr(i + 1)));
            }
        return UExprPoly::from_dict(x, std::move(m));
    };
    const std::string &op = t[1];
    RCP<const UExprPoly> a = mk(t[2]);
    RCP<const Basic> as = a->as_symbolic();
    RCP<const Basic> got, want;
    if (op == "add" || op == "sub" || op == "mul") {
        RCP<const UExprPoly> b = mk(t[3]);
        RCP<const Basic> bs = b->as_symbolic();
        if (op == "add") {
            got = add_upoly(*a, *b)->as_symbolic();
            want = add(as, bs);
        } else if (op == "sub") {
            got = sub_upoly(*a, *b)->as_symbolic();
            want = sub(as, bs);
        } else {
            got = mul_upoly(*a, *b)->as_symbolic();
            want = mul(as, bs);
        }
    } else if (op == "neg") {
        got = neg_upoly(*a)->as_symbolic();
        want = neg(as);
    } else if (op == "pow") {
        unsigned n = (unsigned)std::stoul(t[3]);
        got = pow_upoly(*a, n)->as_symbolic();
        want = pow(as, integer(n));
    } else if (op == "eval") {
        Expression v(parse(t[3]));
        got = a->eval(v).get_basic();
        map_basic_basic sub_map;
        sub_map[x] = v.get_basic();
        want = as->subs(sub_map);
    } else if (op == "diff") {
        RCP<const Basic> r = a->diff(x);
        if (!is_a<UExprPoly>(*r))
            return "NOTPOLY";
        got = down_cast<const UExprPoly &>(*r).as_symbolic();
        want = as->diff(x);
    } else if (op == "deg") {
        int d = a->get_degree();
        int wantd = 0;
        for (auto &p : a->get_poly().dict_)
            wantd = std::max(wantd, p.first);
        std::string s = std::to_string(d);
        if (d != wantd)
            s += "\t#ORACLE: degree: wrong degree";
        for (auto &p : a->get_poly().dict_)
            if (p.second == Expression(0))
                s += "\t#ORACLE: zero coefficient stored";
        return s;
    } else {
        return "BADOP";
    }
    RCP<const Basic> g = expand(got), w = expand(want);
    std::string s = g->__str__();
    if (!eq(*g, *w))
        s += "\t#ORACLE: " + op + ": " + s + " differs from the expanded symbolic result " + w->__str__();
    return s;
}

static std::string run_case(const std::string &line)
{
    std::vector<std::string> t = verif::split_ws(line);
    if (t.size() < 3)
        return "BADLINE";
    try {
        if (t[0] == "I") {
            if (t[1] == "fits")
                return "SKIP";
            return run_family<UIntPoly, UIntDict, map_uint_mpz, integer_class>(t, parse_zmap, z_of_hex, show_z, true);
        }
        if (t[0] == "Q")
            return run_family<URatPoly, URatDict, map_uint_mpq, rational_class>(t, parse_qmap, q_of_string,
                                                                                string_of_q, false);
        if (t[0] == "B")
            return run_roundtrip(line);
        if (t[0] == "E")
            return run_expr(t);
        return "BADLINE";
    } catch (...) {
        return verif::exn_name();
    }
}

int main()
{
    std::string line;
    while (std::getline(std::cin, line)) {
        std::string r = verif::run_forked([&]() { return run_case(line); }, 45);
        std::cout << r << "\n";
    }
    return 0;
}
