// C32 driver: one number-theory call per input line, canonical result line on output,
// followed by a tab and "#ORACLE:<what>" when the result contradicts the defining identity
// of the function (checked here with plain GMP arithmetic, independent of the Coq model).
//
// The same source is compiled against the GMP-configured library (cfg rel) and the
// boost-multiprecision configured one (cfg boost; there symengine/mp_boost.cpp provides
// gcdext, invert, powm, fdiv_qr, root, fib, lucnum, fac, bin, legendre, jacobi, kronecker).
//
// input line :  <cmd> <integer arguments in decimal>
// output line:  fields separated by blanks; lists as comma separated values in brackets
#include <symengine/ntheory.h>
#include <symengine/ntheory_funcs.h>
#include <symengine/integer.h>
#include <symengine/rational.h>
#include <symengine/symengine_exception.h>
#include "common.h"
#include <gmpxx.h>
#include <map>
#include <set>
#include <algorithm>
using namespace SymEngine;
typedef mpz_class Z;

// ------------------------------------------------------------------ conversions
static integer_class ic(const std::string &s)
{
    integer_class i;
    mp_set_str(i, s);
    return i;
}
static RCP<const Integer> INT(const std::string &s)
{
    return integer(ic(s));
}
static std::string str(const integer_class &i)
{
    std::ostringstream o;
    o << i;
    return o.str();
}
static std::string str(const RCP<const Integer> &i)
{
    return str(i->as_integer_class());
}
static Z toZ(const integer_class &i)
{
    return Z(str(i));
}
static Z toZ(const RCP<const Integer> &i)
{
    return Z(str(i));
}
static std::string S(const Z &z)
{
    return z.get_str();
}
static std::string num_str(const RCP<const Number> &n)
{
    // exact rational as "p/q" (q > 0, lowest terms) or integer "p"
    if (is_a<Integer>(*n))
        return str(down_cast<const Integer &>(*n).as_integer_class());
    if (is_a<Rational>(*n)) {
        RCP<const Integer> a, b;
        get_num_den(down_cast<const Rational &>(*n), outArg(a), outArg(b));
        return str(a) + "/" + str(b);
    }
    return "?" + n->__str__();
}

// ------------------------------------------------------------------ oracle helpers (GMP only)
static std::string orc; // oracle complaints of the current case
static void complain(const std::string &s)
{
    orc += " " + s + ";";
}
static bool is_prime(const Z &n)
{
    if (n < 2)
        return false;
    if (n < 4000000) {
        unsigned long v = n.get_ui();
        for (unsigned long d = 2; d * d <= v; d++)
            if (v % d == 0)
                return false;
        return true;
    }
    return mpz_probab_prime_p(n.get_mpz_t(), 40) != 0;
}
static Z zabs(const Z &a)
{
    return a < 0 ? Z(-a) : a;
}
static Z zgcd(Z a, Z b)
{
    a = zabs(a);
    b = zabs(b);
    while (b != 0) {
        Z t = a % b;
        a = b;
        b = t;
    }
    return a;
}
static Z fmod(const Z &a, const Z &m) // floor residue for m > 0
{
    Z r = a % m;
    if (r < 0)
        r += m;
    return r;
}
static Z zpowm(Z a, Z e, const Z &m) // e >= 0, m > 0, result in [0,m)
{
    Z r = fmod(1, m);
    a = fmod(a, m);
    while (e > 0) {
        if (e % 2 == 1)
            r = (r * a) % m;
        a = (a * a) % m;
        e /= 2;
    }
    return r;
}
static Z zpow(const Z &a, unsigned long e)
{
    Z r = 1;
    for (unsigned long i = 0; i < e; i++)
        r *= a;
    return r;
}
// trial-division factorisation of |n| (n != 0); cofactor test by Miller-Rabin above 10^6 tries
static std::vector<std::pair<Z, unsigned>> zfactor(Z n)
{
    std::vector<std::pair<Z, unsigned>> f;
    n = zabs(n);
    for (unsigned long d = 2; n > 1; d++) {
        if (Z(d) * d > n) {
            f.push_back(std::make_pair(n, 1u));
            break;
        }
        if (d > 3000000 and is_prime(n)) {
            f.push_back(std::make_pair(n, 1u));
            break;
        }
        unsigned c = 0;
        while (n % d == 0) {
            n /= d;
            c++;
        }
        if (c)
            f.push_back(std::make_pair(Z(d), c));
    }
    return f;
}
static Z ztotient(const Z &n)
{
    Z phi = 1;
    for (auto &pe : zfactor(n))
        phi *= (pe.first - 1) * zpow(pe.first, pe.second - 1);
    return phi;
}
// order of a modulo n by the definition (n > 0 small, gcd(a,n) = 1)
static long brute_order(const Z &a, const Z &n)
{
    Z t = fmod(a, n);
    Z one = fmod(1, n);
    long k = 1;
    while (t != one) {
        t = fmod(t * a, n);
        k++;
        if (k > 10000000)
            return -1;
    }
    return k;
}
// Kronecker symbol from its definition (multiplicative in n; Euler criterion at odd primes)
static int kron_prime(const Z &a, const Z &p)
{
    if (p == 2) {
        if (a % 2 == 0)
            return 0;
        Z r = fmod(a, 8);
        return (r == 1 or r == 7) ? 1 : -1;
    }
    Z t = zpowm(a, (p - 1) / 2, p);
    if (t == 0)
        return 0;
    return t == 1 ? 1 : -1;
}
static int kron(const Z &a, const Z &n)
{
    if (n == 0)
        return (a == 1 or a == -1) ? 1 : 0;
    int r = 1;
    if (n < 0 and a < 0)
        r = -1;
    for (auto &pe : zfactor(n)) {
        int k = kron_prime(a, pe.first);
        if (k == 0)
            return 0;
        if (k == -1 and pe.second % 2 == 1)
            r = -r;
    }
    return r;
}
static Z zbinomial(const Z &n, unsigned long k)
{
    // n (n-1) ... (n-k+1) / k!   (exact)
    Z num = 1, den = 1;
    for (unsigned long i = 0; i < k; i++) {
        num *= (n - i);
        den *= (i + 1);
    }
    return num / den;
}

// ------------------------------------------------------------------ printing helpers
static std::string list_str(const std::vector<RCP<const Integer>> &v)
{
    std::string s = "[";
    for (size_t i = 0; i < v.size(); i++)
        s += (i ? "," : "") + str(v[i]);
    return s + "]";
}
static std::string b(bool x)
{
    return x ? "1" : "0";
}

// ------------------------------------------------------------------ the cases
static std::string run_case(const std::vector<std::string> &t)
{
    const std::string &c = t[0];
    size_t n = t.size() - 1;
    std::ostringstream o;
    if (c == "div" and n == 2) {
        // mod quotient quotient_mod(q r) mod_f quotient_f quotient_mod_f(q r)
        RCP<const Integer> N = INT(t[1]), D = INT(t[2]), q, r, qf, rf;
        RCP<const Integer> m = mod(*N, *D), qq = quotient(*N, *D);
        quotient_mod(outArg(q), outArg(r), *N, *D);
        RCP<const Integer> mf = mod_f(*N, *D), qqf = quotient_f(*N, *D);
        quotient_mod_f(outArg(qf), outArg(rf), *N, *D);
        o << str(m) << " " << str(qq) << " " << str(q) << " " << str(r) << " " << str(mf) << " "
          << str(qqf) << " " << str(qf) << " " << str(rf);
        Z zn(t[1]), zd(t[2]);
        // truncation: n = d q + r, |r| < |d|, r = 0 or sign r = sign n
        Z zq = toZ(q), zr = toZ(r);
        if (zn != zd * zq + zr or zabs(zr) >= zabs(zd) or (zr != 0 and (zr < 0) != (zn < 0)))
            complain("quotient_mod is not truncated division");
        if (toZ(m) != zr or toZ(qq) != zq)
            complain("mod/quotient differ from quotient_mod");
        Z zqf = toZ(qf), zrf = toZ(rf);
        if (zn != zd * zqf + zrf or zabs(zrf) >= zabs(zd) or (zrf != 0 and (zrf < 0) != (zd < 0)))
            complain("quotient_mod_f is not floored division");
        if (toZ(mf) != zrf or toZ(qqf) != zqf)
            complain("mod_f/quotient_f differ from quotient_mod_f");
    } else if (c == "gcd" and n == 2) {
        RCP<const Integer> A = INT(t[1]), B = INT(t[2]);
        RCP<const Integer> g = gcd(*A, *B), l = lcm(*A, *B);
        o << str(g) << " " << str(l) << " " << b(divides(*A, *B));
        Z za(t[1]), zb(t[2]), zg = zgcd(za, zb);
        if (toZ(g) != zg)
            complain("gcd is not the greatest common divisor");
        Z zl = (zg == 0) ? Z(0) : Z(zabs(za * zb) / zg);
        if (toZ(l) != zl)
            complain("lcm is not |a b| / gcd");
        bool dv = (zb == 0) ? (za == 0) : (za % zb == 0);
        if (divides(*A, *B) != dv)
            complain("divides(a, b) is not `b divides a`");
    } else if (c == "gcdext" and n == 2) {
        RCP<const Integer> A = INT(t[1]), B = INT(t[2]), g, s, u;
        gcd_ext(outArg(g), outArg(s), outArg(u), *A, *B);
        o << str(g) << " " << str(s) << " " << str(u);
        Z za(t[1]), zb(t[2]);
        if (toZ(g) != zgcd(za, zb))
            complain("gcd_ext: g is not the gcd");
        if (toZ(s) * za + toZ(u) * zb != toZ(g))
            complain("gcd_ext: s a + t b != g");
    } else if (c == "inv" and n == 2) {
        RCP<const Integer> A = INT(t[1]), M = INT(t[2]), x;
        int ret = mod_inverse(outArg(x), *A, *M);
        o << (ret != 0 ? "1 " + str(x) : "0");
        Z za(t[1]), zm(t[2]);
        bool exists = zgcd(za, zm) == 1;
        if (zm == 0) {
            // mpz_invert is not specified for m = 0
        } else if ((ret != 0) != exists)
            complain("mod_inverse: return value is not `gcd(a, m) = 1`");
        if (ret != 0 and exists) {
            Z zx = toZ(x), am = zabs(zm);
            if (zx < 0 or zx >= am or fmod(zx * za - 1, am) != 0)
                complain("mod_inverse: result is not the inverse in [0, |m|)");
        }
    } else if (c == "crt" and n >= 1) {
        // crt k r1 .. rk m1 .. mj   (k remainders, the rest are moduli)
        size_t k = std::stoul(t[1]);
        std::vector<RCP<const Integer>> rem, mo;
        std::vector<Z> zr, zm;
        for (size_t i = 0; i < k; i++) {
            rem.push_back(INT(t[2 + i]));
            zr.push_back(Z(t[2 + i]));
        }
        for (size_t i = 2 + k; i < t.size(); i++) {
            mo.push_back(INT(t[i]));
            zm.push_back(Z(t[i]));
        }
        RCP<const Integer> R;
        bool ret = crt(outArg(R), rem, mo);
        o << (ret ? "1 " + str(R) : "0");
        bool positive = true;
        for (auto &m : zm)
            positive = positive and m > 0;
        if (positive and zm.size() <= zr.size()) {
            // a solution exists iff the congruences are pairwise compatible
            bool compat = true;
            Z l = 1;
            for (size_t i = 0; i < zm.size(); i++) {
                l = l * zm[i] / zgcd(l, zm[i]);
                for (size_t j = 0; j < i; j++)
                    if (fmod(zr[i] - zr[j], zgcd(zm[i], zm[j])) != 0)
                        compat = false;
            }
            if (ret != compat)
                complain(ret ? "crt: returned a solution of an unsolvable system"
                             : "crt: no solution returned although the system is solvable");
            if (ret) {
                Z x = toZ(R);
                for (size_t i = 0; i < zm.size(); i++)
                    if (fmod(x - zr[i], zm[i]) != 0)
                        complain("crt: result does not satisfy congruence " + std::to_string(i));
                if (x < 0 or x >= l)
                    complain("crt: result is not reduced modulo the lcm of the moduli");
            }
        }
    } else if (c == "powm" and n == 3) {
        RCP<const Integer> A = INT(t[1]), M = INT(t[3]), P;
        RCP<const Number> B = INT(t[2]);
        bool ret = powermod(outArg(P), A, B, M);
        std::vector<RCP<const Integer>> l;
        powermod_list(l, A, B, M);
        o << (ret ? "1 " + str(P) : "0") << " " << list_str(l);
        Z za(t[1]), zb(t[2]), zm(t[3]);
        if (zm != 0) {
            Z am = zabs(zm), p = zpowm(za, zabs(zb), am);
            if (zb >= 0) {
                if (not ret or toZ(P) != p)
                    complain("powermod: not a^b mod |m| in [0,|m|)");
            } else {
                bool exists = zgcd(p, am) == 1;
                if (ret != exists)
                    complain("powermod: negative exponent, return value is not `a invertible`");
                else if (ret and (toZ(P) < 0 or toZ(P) >= am or fmod(toZ(P) * p - 1, am) != 0))
                    complain("powermod: negative exponent, result is not the inverse power");
            }
            if ((ret and (l.size() != 1 or toZ(l[0]) != toZ(P))) or (not ret and l.size() != 0))
                complain("powermod_list differs from powermod");
        }
    } else if (c == "powmq" and n == 4) {
        // oracle only: a^(num/den) mod m
        RCP<const Integer> A = INT(t[1]), M = INT(t[4]), P;
        RCP<const Number> B = Rational::from_two_ints(*INT(t[2]), *INT(t[3]));
        bool ret = powermod(outArg(P), A, B, M);
        std::vector<RCP<const Integer>> l;
        powermod_list(l, A, B, M);
        o << (ret ? "1 " + str(P) : "0") << " " << list_str(l);
        Z za(t[1]), num(t[2]), den(t[3]), zm(t[4]);
        if (is_a<Rational>(*B) and zm > 0 and zm < 5000) {
            // normalised exponent num/den, den > 1: x with x^den = a^num (mod m)
            Z g = zgcd(num, den);
            num /= g;
            den /= g;
            if (den < 0) {
                den = -den;
                num = -num;
            }
            Z base = zpowm(za, zabs(num), zm);
            bool ok = true;
            if (num < 0) {
                if (zgcd(base, zm) != 1)
                    ok = false;
                else {
                    Z inv;
                    mpz_invert(inv.get_mpz_t(), base.get_mpz_t(), zm.get_mpz_t());
                    base = inv;
                }
            }
            std::set<Z> sol;
            if (ok)
                for (Z x = 0; x < zm; x++)
                    if (zpowm(x, den, zm) == base)
                        sol.insert(x);
            if (ret != not sol.empty())
                complain("powermod: rational exponent, existence of a root is misreported");
            else if (ret and not sol.count(toZ(P)))
                complain("powermod: rational exponent, result is not a root in [0,m)");
            std::vector<Z> got;
            for (auto &x : l)
                got.push_back(toZ(x));
            std::vector<Z> want(sol.begin(), sol.end());
            if (got != want) {
                std::set<Z> gs;
                for (auto &x : got)
                    gs.insert(fmod(x, zm));
                if (gs == sol and got.size() == want.size())
                    complain("powermod_list: roots are not reduced to [0,m)");
                else
                    complain("powermod_list: not the increasing list of all roots in [0,m)");
            }
        }
    } else if (c == "bin" and n == 2) {
        unsigned long k = std::stoul(t[2]);
        RCP<const Integer> r = binomial(*INT(t[1]), k);
        o << str(r);
        if (toZ(r) != zbinomial(Z(t[1]), k))
            complain("binomial is not n(n-1)...(n-k+1)/k!");
    } else if (c == "fac" and n == 1) {
        unsigned long k = std::stoul(t[1]);
        RCP<const Integer> r = factorial(k);
        o << str(r);
        Z f = 1;
        for (unsigned long i = 2; i <= k; i++)
            f *= i;
        if (toZ(r) != f)
            complain("factorial is not 1*2*...*n");
    } else if (c == "fib" and n == 1) {
        unsigned long k = std::stoul(t[1]);
        RCP<const Integer> f = fibonacci(k), l = lucas(k), f1, f0, l1, l0;
        fibonacci2(outArg(f1), outArg(f0), k);
        o << str(f) << " " << str(f1) << " " << str(f0) << " " << str(l);
        Z a = 0, bb = 1, la = 2, lb = 1; // F(0), F(1), L(0), L(1)
        for (unsigned long i = 0; i < k; i++) {
            Z x = a + bb;
            a = bb;
            bb = x;
            Z y = la + lb;
            la = lb;
            lb = y;
        }
        if (toZ(f) != a or toZ(f1) != a or toZ(f0) != bb - a)
            complain("fibonacci/fibonacci2 do not follow the recurrence");
        if (toZ(l) != la)
            complain("lucas does not follow the recurrence");
        {
            lucas2(outArg(l1), outArg(l0), k);
            o << " " << str(l1) << " " << str(l0);
            if (toZ(l1) != la or toZ(l0) != lb - la)
                complain("lucas2 does not follow the recurrence");
        }
    } else if (c == "pf" and n == 1) {
        // prime_factors, prime_factor_multiplicities
        RCP<const Integer> N = INT(t[1]);
        std::vector<RCP<const Integer>> l;
        prime_factors(l, *N);
        map_integer_uint m;
        prime_factor_multiplicities(m, *N);
        o << list_str(l) << " [";
        bool first = true;
        Z prod = 1, prod2 = 1;
        for (auto &pe : m) {
            o << (first ? "" : ",") << str(pe.first) << "^" << pe.second;
            first = false;
            prod2 *= zpow(toZ(pe.first), pe.second);
            if (not is_prime(toZ(pe.first)) or pe.second == 0)
                complain("prime_factor_multiplicities: entry is not a prime with positive multiplicity");
        }
        o << "]";
        Z zn(t[1]);
        for (size_t i = 0; i < l.size(); i++) {
            prod *= toZ(l[i]);
            if (not is_prime(toZ(l[i])))
                complain("prime_factors: element is not prime");
            if (i and toZ(l[i - 1]) > toZ(l[i]))
                complain("prime_factors: not in nondecreasing order");
        }
        if (zn != 0 and (prod != zabs(zn) or prod2 != zabs(zn)))
            complain("prime factorisation does not multiply back to |n|");
    } else if (c == "ftd" and n == 1) {
        // factor_trial_division and factor (which is trial division in this configuration)
        RCP<const Integer> N = INT(t[1]), f, f2;
        int ret = factor_trial_division(outArg(f), *N);
        int ret2 = factor(outArg(f2), *N);
        o << ret;
        if (ret == 1)
            o << " " << str(f);
        o << " " << ret2 << " " << str(f2);
        Z zn(t[1]);
        if (zn >= 2) {
            if (ret == 1) {
                Z zf = toZ(f);
                if (zf <= 1 or zf >= zn or zn % zf != 0 or not is_prime(zf))
                    complain("factor_trial_division: result is not a proper prime factor");
            } else if (not is_prime(zn))
                complain("factor_trial_division: no factor reported for a composite number");
            if (ret2 != ret or (ret == 1 and toZ(f2) != toZ(f)))
                complain("factor differs from factor_trial_division");
        }
    } else if (c == "lehman" and n == 1) {
        RCP<const Integer> N = INT(t[1]), f;
        int ret = factor_lehman_method(outArg(f), *N);
        o << ret;
        if (ret)
            o << " " << str(f);
        Z zn(t[1]);
        if (ret) {
            Z zf = toZ(f);
            if (zf <= 1 or zf >= zn or zn % zf != 0)
                complain("factor_lehman_method: result is not a proper factor");
        } else if (not is_prime(zn))
            complain("factor_lehman_method: no factor reported for a composite number");
    } else if (c == "rho" and n == 2) {
        // oracle only (random stream): a returned factor must be proper
        RCP<const Integer> N = INT(t[1]), f;
        std::srand(std::stoul(t[2]));
        int ret = factor_pollard_rho_method(outArg(f), *N, 20);
        o << (ret ? "1" : "0");
        Z zn(t[1]);
        if (ret and (toZ(f) <= 1 or toZ(f) >= zn or zn % toZ(f) != 0))
            complain("factor_pollard_rho_method: result is not a proper factor");
    } else if (c == "pm1" and n == 3) {
        RCP<const Integer> N = INT(t[1]), f;
        std::srand(std::stoul(t[3]));
        int ret = factor_pollard_pm1_method(outArg(f), *N, (unsigned)std::stoul(t[2]), 10);
        o << (ret ? "1" : "0");
        Z zn(t[1]);
        if (ret and (toZ(f) <= 1 or toZ(f) >= zn or zn % toZ(f) != 0))
            complain("factor_pollard_pm1_method: result is not a proper factor");
    } else if (c == "tot" and n == 1) {
        // totient carmichael
        RCP<const Integer> N = INT(t[1]);
        RCP<const Integer> ph = totient(N), la = carmichael(N);
        o << str(ph) << " " << str(la);
        Z zn = zabs(Z(t[1]));
        if (zn != 0) {
            Z phi = 0;
            if (zn <= 3000) {
                for (Z k = 1; k <= zn; k++)
                    if (zgcd(k, zn) == 1)
                        phi++;
            } else
                phi = ztotient(zn);
            if (toZ(ph) != phi)
                complain("totient is not the number of residues coprime to n");
            // carmichael: least e > 0 with a^e = 1 for all units a
            Z lam = 1;
            if (zn <= 600) {
                for (Z a = 1; a <= zn; a++)
                    if (zgcd(a, zn) == 1) {
                        Z oa = brute_order(a, zn);
                        lam = lam * oa / zgcd(lam, oa);
                    }
            } else {
                for (auto &pe : zfactor(zn)) {
                    Z l = (pe.first - 1) * zpow(pe.first, pe.second - 1);
                    if (pe.first == 2 and pe.second >= 3)
                        l /= 2;
                    lam = lam * l / zgcd(lam, l);
                }
            }
            if (toZ(la) != lam)
                complain("carmichael is not the exponent of the unit group");
        }
    } else if (c == "mob" and n == 1) {
        RCP<const Integer> N = INT(t[1]);
        int mu = mobius(*N);
        o << mu;
        Z zn(t[1]);
        int want = 1;
        for (auto &pe : zfactor(zn)) {
            if (pe.second > 1)
                want = 0;
            want = -want;
        }
        if (mu != want)
            complain("mobius is not (-1)^k for squarefree n with k prime factors, 0 otherwise");
    } else if (c == "mert" and n == 1) {
        unsigned long k = std::stoul(t[1]);
        long m = mertens(k);
        o << m;
        // sieve of mobius values
        std::vector<int> mu(k + 1, 1);
        std::vector<bool> comp(k + 1, false);
        for (unsigned long p = 2; p <= k; p++)
            if (not comp[p]) {
                for (unsigned long j = p; j <= k; j += p) {
                    if (j > p)
                        comp[j] = true;
                    mu[j] = -mu[j];
                }
                for (unsigned long j = p * p; j <= k; j += p * p)
                    mu[j] = 0;
            }
        long want = 0;
        for (unsigned long i = 1; i <= k; i++)
            want += mu[i];
        if (m != want)
            complain("mertens is not the sum of mobius(1..n)");
    } else if (c == "ord" and n == 2) {
        RCP<const Integer> A = INT(t[1]), N = INT(t[2]), ord;
        bool ret = multiplicative_order(outArg(ord), A, N);
        o << (ret ? "1 " + str(ord) : "0");
        Z za(t[1]), zn = zabs(Z(t[2]));
        if (zn != 0) {
            bool unit = zgcd(za, zn) == 1;
            if (ret != unit)
                complain("multiplicative_order: return value is not `gcd(a, n) = 1`");
            else if (ret) {
                Z e = toZ(ord);
                if (zn <= 100000) {
                    if (e != brute_order(za, zn))
                        complain("multiplicative_order is not the least e > 0 with a^e = 1 (mod n)");
                } else {
                    bool ok = e > 0 and zpowm(za, e, zn) == fmod(1, zn);
                    if (ok)
                        for (auto &pe : zfactor(e))
                            if (zpowm(za, e / pe.first, zn) == fmod(1, zn))
                                ok = false;
                    if (not ok)
                        complain("multiplicative_order is not the least e > 0 with a^e = 1 (mod n)");
                }
            }
        }
    } else if ((c == "proot" or c == "prootl") and n == 1) {
        // proot: primitive_root;  prootl (oracle only): primitive_root_list
        RCP<const Integer> N = INT(t[1]), g;
        bool with_list = c == "prootl";
        bool ret = false;
        std::vector<RCP<const Integer>> l;
        Z zn = zabs(Z(t[1]));
        if (with_list) {
            primitive_root_list(l, *N);
            o << list_str(l);
        } else {
            ret = primitive_root(outArg(g), *N);
            o << (ret ? "1 " + str(g) : "0");
        }
        if (zn >= 1) {
            Z phi = ztotient(zn);
            // existence: n = 2, 4, p^k, 2 p^k (p odd prime)
            auto f = zfactor(zn);
            bool exists = zn == 2 or zn == 4 or (f.size() == 1 and f[0].first != 2)
                          or (f.size() == 2 and f[0].first == 2 and f[0].second == 1);
            if (zn == 1) {
                if (ret or not l.empty())
                    complain("primitive_root(1) reported");
            } else if (not with_list) {
                if (ret != exists)
                    complain("primitive_root: existence misreported");
                if (ret) {
                    Z zg = toZ(g);
                    bool ok = zg > 0 and zg < zn and zgcd(zg, zn) == 1;
                    if (ok) {
                        // order must be phi: g^(phi/q) != 1 for each prime q | phi
                        for (auto &pe : zfactor(phi))
                            if (phi > 1 and zpowm(zg, phi / pe.first, zn) == fmod(1, zn))
                                ok = false;
                    }
                    if (not ok)
                        complain("primitive_root: result does not generate the unit group");
                }
            } else {
                std::vector<Z> want;
                if (exists)
                    for (Z x = 1; x < zn; x++)
                        if (zgcd(x, zn) == 1 and brute_order(x, zn) == phi)
                            want.push_back(x);
                std::vector<Z> got;
                for (auto &x : l)
                    got.push_back(toZ(x));
                if (got != want)
                    complain("primitive_root_list is not the increasing list of all primitive roots");
            }
        }
    } else if (c == "kro" and n == 2) {
        // kronecker jacobi legendre  (jacobi only for odd positive n, legendre for odd primes)
        RCP<const Integer> A = INT(t[1]), N = INT(t[2]);
        Z za(t[1]), zn(t[2]);
        int k = kronecker(*A, *N);
        o << k;
        if (k != kron(za, zn))
            complain("kronecker differs from the definition");
        if (zn > 0 and zn % 2 == 1) {
            int j = jacobi(*A, *N);
            o << " " << j;
            if (j != kron(za, zn))
                complain("jacobi differs from the definition");
            if (zn > 2 and zn < 100000 and is_prime(zn)) {
                int l = legendre(*A, *N);
                o << " " << l;
                if (l != kron(za, zn))
                    complain("legendre differs from the definition");
            }
        }
    } else if (c == "leg" and n == 2) {
        // legendre(a, p) for an odd prime p (the caller guarantees primality)
        RCP<const Integer> A = INT(t[1]), P = INT(t[2]);
        int l = legendre(*A, *P);
        o << l;
        Z za(t[1]), zp(t[2]);
        Z e = zpowm(za, (zp - 1) / 2, zp);
        int want = e == 0 ? 0 : (e == 1 ? 1 : -1);
        if (l != want)
            complain("legendre contradicts Euler's criterion");
    } else if (c == "qr" and n == 1) {
        vec_integer_class v = quadratic_residues(*INT(t[1]));
        o << "[";
        for (size_t i = 0; i < v.size(); i++)
            o << (i ? "," : "") << str(v[i]);
        o << "]";
        Z za(t[1]);
        std::set<Z> sq;
        for (Z x = 0; x < za; x++)
            sq.insert((x * x) % za);
        std::vector<Z> want(sq.begin(), sq.end()), got;
        for (auto &x : v)
            got.push_back(toZ(x));
        if (got != want)
            complain("quadratic_residues is not the increasing list of squares modulo a");
    } else if (c == "isqr" and n == 2) {
        RCP<const Integer> A = INT(t[1]), P = INT(t[2]);
        bool r = is_quad_residue(*A, *P);
        o << b(r);
        Z za(t[1]), zp = zabs(Z(t[2]));
        if (zp != 0 and zp <= 4000) {
            bool want = false;
            for (Z x = 0; x < zp and not want; x++)
                if (fmod(x * x - za, zp) == 0)
                    want = true;
            if (r != want)
                complain("is_quad_residue differs from `exists x, x^2 = a (mod p)`");
        } else if (zp > 2 and is_prime(zp)) {
            Z e = zpowm(za, (zp - 1) / 2, zp);
            if (r != (e == 0 or e == 1))
                complain("is_quad_residue contradicts Euler's criterion");
        }
    } else if (c == "isnth" and n == 3) {
        RCP<const Integer> A = INT(t[1]), E = INT(t[2]), M = INT(t[3]);
        bool r = is_nth_residue(*A, *E, *M);
        o << b(r);
        Z za(t[1]), ze(t[2]), zm = zabs(Z(t[3]));
        if (zm != 0 and zm <= 3000 and ze >= 1) {
            bool want = false;
            for (Z x = 0; x < zm and not want; x++)
                if (fmod(zpowm(x, ze, zm) - za, zm) == 0)
                    want = true;
            if (r != want)
                complain("is_nth_residue differs from `exists x, x^n = a (mod m)`");
        }
    } else if (c == "nthroot" and n == 3) {
        // oracle only
        RCP<const Integer> A = INT(t[1]), E = INT(t[2]), M = INT(t[3]), root;
        bool r = nthroot_mod(outArg(root), A, E, M);
        std::vector<RCP<const Integer>> l;
        nthroot_mod_list(l, A, E, M);
        o << (r ? "1 " + str(root) : "0") << " " << list_str(l);
        Z za(t[1]), ze(t[2]), zm(t[3]);
        if (zm >= 1 and zm <= 3000 and ze >= 1) {
            std::vector<Z> want, got;
            for (Z x = 0; x < zm; x++)
                if (fmod(zpowm(x, ze, zm) - za, zm) == 0)
                    want.push_back(x);
            if (r != not want.empty())
                complain("nthroot_mod: existence of a root is misreported");
            else if (r and (toZ(root) < 0 or toZ(root) >= zm
                            or fmod(zpowm(toZ(root), ze, zm) - za, zm) != 0))
                complain("nthroot_mod: result is not a root in [0,m)");
            for (auto &x : l)
                got.push_back(toZ(x));
            if (got != want) {
                std::set<Z> gs;
                for (auto &x : got)
                    gs.insert(fmod(x, zm));
                if (gs == std::set<Z>(want.begin(), want.end()) and got.size() == want.size())
                    complain("nthroot_mod_list: roots are not reduced to [0,m)");
                else
                    complain("nthroot_mod_list: not the list of all roots");
            }
        }
    } else if (c == "poly" and n == 2) {
        // polygonal number P(s, n) and principal root of x = second argument
        integer_class s = ic(t[1]), x = ic(t[2]);
        integer_class p = mp_polygonal_number(s, x), r = mp_principal_polygonal_root(s, x);
        o << str(p) << " " << str(r);
        Z zs(t[1]), zx(t[2]);
        auto P = [&](const Z &k) { return Z(((zs - 2) * k * k - (zs - 4) * k) / 2); };
        if (zs >= 3 and zx >= 1) {
            if (toZ(p) != P(zx) or 2 * P(zx) != (zs - 2) * zx * zx - (zs - 4) * zx)
                complain("polygonal number differs from ((s-2) n^2 - (s-4) n)/2");
            Z zr = toZ(r);
            if (not(zr >= 1 and P(zr) <= zx and zx < P(zr + 1)))
                complain("principal polygonal root r does not satisfy P(s,r) <= x < P(s,r+1)");
            // root of the polygonal number is the index
            integer_class back = mp_principal_polygonal_root(s, p);
            if (toZ(back) != zx)
                complain("principal_polygonal_root(s, P(s,n)) != n");
        }
    } else if (c == "ppd" and n == 2) {
        integer_class N = ic(t[1]);
        bool low = t[2] == "1";
        std::pair<integer_class, integer_class> be = mp_perfect_power_decomposition(N, low);
        o << str(be.first) << " " << str(be.second);
        Z zn(t[1]), bs = toZ(be.first), ex = toZ(be.second);
        if (zn >= 1 and zn.get_str().size() < 60) {
            // all exponents e >= 2 for which n is a perfect e-th power
            std::vector<unsigned long> es;
            for (unsigned long e = 2; (Z(1) << e) <= zn; e++) {
                Z r;
                if (mpz_root(r.get_mpz_t(), zn.get_mpz_t(), e) and r >= 2)
                    es.push_back(e);
            }
            if (ex < 1 or not ex.fits_ulong_p() or zpow(bs, ex.get_ui()) != zn)
                complain("perfect power decomposition: base^exponent != n");
            else if (es.empty() ? ex != 1 : ex != (low ? es.front() : es.back()))
                complain(low ? "perfect power decomposition: exponent is not the lowest one > 1"
                             : "perfect power decomposition: exponent is not the highest");
        }
    } else if (c == "harm" and n == 2) {
        unsigned long k = std::stoul(t[1]);
        long m = std::stol(t[2]);
        RCP<const Number> h = harmonic(k, m);
        o << num_str(h);
        mpq_class s = 0;
        for (unsigned long i = 1; i <= k; i++) {
            if (m >= 0)
                s += mpq_class(Z(1), zpow(Z(i), (unsigned long)m));
            else
                s += mpq_class(zpow(Z(i), (unsigned long)(-m)), Z(1));
        }
        s.canonicalize();
        std::string want = s.get_den() == 1 ? s.get_num().get_str()
                                            : s.get_num().get_str() + "/" + s.get_den().get_str();
        if (num_str(h) != want)
            complain("harmonic is not sum 1/i^m");
    } else if (c == "bern" and n == 1) {
        unsigned long k = std::stoul(t[1]);
        RCP<const Number> bn = bernoulli(k);
        o << num_str(bn);
        // B_n from sum_{j=0}^{m} C(m+1, j) B_j = 0 (B_1 = -1/2); the library uses B_1 = +1/2
        std::vector<mpq_class> B(k + 1);
        for (unsigned long m = 0; m <= k; m++) {
            mpq_class s = 0;
            for (unsigned long j = 0; j < m; j++)
                s += mpq_class(zbinomial(Z(m + 1), j)) * B[j];
            B[m] = (m == 0) ? mpq_class(1) : mpq_class(-s / mpq_class(Z(m + 1)));
            B[m].canonicalize();
        }
        mpq_class w = B[k];
        if (k == 1)
            w = -w;
        std::string want = w.get_den() == 1 ? w.get_num().get_str()
                                            : w.get_num().get_str() + "/" + w.get_den().get_str();
        if (num_str(bn) != want)
            complain("bernoulli differs from the defining recurrence");
    } else if (c == "nextprime" and n == 1) {
        RCP<const Integer> N = INT(t[1]);
        RCP<const Integer> p = nextprime(*N);
        int pp = probab_prime_p(*N, 25);
        o << str(p) << " " << (pp != 0 ? 1 : 0);
        Z zn(t[1]), zp = toZ(p);
        bool ok = zp > zn and is_prime(zp);
        for (Z x = (zn < 1 ? Z(1) : zn) + 1; ok and x < zp; x++)
            if (is_prime(x))
                ok = false;
        if (not ok)
            complain("nextprime is not the least prime above a");
        if ((pp != 0) != is_prime(zn))
            complain("probab_prime_p disagrees with primality");
    } else if (c == "primepi" and n == 1) {
        RCP<const Basic> r = primepi(INT(t[1]));
        RCP<const Basic> q = primorial(INT(t[1]));
        o << r->__str__() << " " << q->__str__();
        Z zn(t[1]), cnt = 0, prod = 1;
        for (Z x = 2; x <= zn; x++)
            if (is_prime(x)) {
                cnt++;
                prod *= x;
            }
        if (r->__str__() != cnt.get_str())
            complain("primepi is not the number of primes <= n");
        if (q->__str__() != prod.get_str())
            complain("primorial is not the product of the primes <= n");
    } else if (c == "mproot" and n == 2) {
        // mp_root: exactness flag and truncated root
        integer_class i = ic(t[1]), r;
        unsigned long k = std::stoul(t[2]);
        bool ex = mp_root(r, i, k);
        o << b(ex) << " " << str(r);
        Z zi(t[1]), zr = toZ(r);
        if (k >= 1 and (zi >= 0 or k % 2 == 1)) {
            Z ai = zabs(zi), ar = zabs(zr);
            if (not(zpow(ar, k) <= ai and ai < zpow(ar + 1, k)) or (zr != 0 and (zr < 0) != (zi < 0)))
                complain("mp_root: not the truncated integer root");
            if (ex != (zpow(ar, k) == ai))
                complain("mp_root: exactness flag wrong");
        }
    } else if (c == "mppp" and n == 1) {
        // mp_perfect_power_p mp_perfect_square_p mp_sqrt (i >= 0)
        integer_class i = ic(t[1]);
        bool pp = mp_perfect_power_p(i), ps = mp_perfect_square_p(i);
        integer_class sq = mp_sqrt(i);
        o << b(pp) << " " << b(ps) << " " << str(sq);
        Z zi(t[1]), zs = toZ(sq);
        bool want_pp = zi <= 1;
        for (unsigned long e = 2; not want_pp and (Z(1) << e) <= zi; e++) {
            Z r;
            if (mpz_root(r.get_mpz_t(), zi.get_mpz_t(), e))
                want_pp = true;
        }
        if (pp != want_pp)
            complain("mp_perfect_power_p differs from `exists b, e >= 2, b^e = i`");
        if (not(zs * zs <= zi and zi < (zs + 1) * (zs + 1)))
            complain("mp_sqrt is not the integer square root");
        if (ps != (zs * zs == zi))
            complain("mp_perfect_square_p wrong");
    } else if (c == "mpdiv" and n == 2) {
        // mp_fdiv_qr mp_fdiv_q mp_fdiv_r mp_cdiv_q mp_tdiv_qr
        integer_class a = ic(t[1]), d = ic(t[2]), q, r, q2, r2, cq, tq, tr;
        mp_fdiv_qr(q, r, a, d);
        mp_fdiv_q(q2, a, d);
        mp_fdiv_r(r2, a, d);
        mp_cdiv_q(cq, a, d);
        mp_tdiv_qr(tq, tr, a, d);
        o << str(q) << " " << str(r) << " " << str(q2) << " " << str(r2) << " " << str(cq) << " "
          << str(tq) << " " << str(tr);
        Z za(t[1]), zd(t[2]), zq = toZ(q), zr = toZ(r), zc = toZ(cq), zcr = za - zd * toZ(cq);
        if (za != zd * zq + zr or zabs(zr) >= zabs(zd) or (zr != 0 and (zr < 0) != (zd < 0)))
            complain("mp_fdiv_qr is not floored division");
        if (zabs(zcr) >= zabs(zd) or (zcr != 0 and (zcr < 0) == (zd < 0)))
            complain("mp_cdiv_q is not the ceiling quotient");
        Z ztr = toZ(tr);
        if (za != zd * toZ(tq) + ztr or zabs(ztr) >= zabs(zd) or (ztr != 0 and (ztr < 0) != (za < 0)))
            complain("mp_tdiv_qr is not truncated division");
    } else if (c == "mppowm" and n == 3) {
        integer_class a = ic(t[1]), e = ic(t[2]), m = ic(t[3]), r;
        mp_powm(r, a, e, m);
        o << str(r);
        Z za(t[1]), ze(t[2]), zm(t[3]);
        if (ze >= 0 and zm != 0 and toZ(r) != zpowm(za, ze, zabs(zm)))
            complain("mp_powm is not a^e mod |m| in [0,|m|)");
    } else if (c == "mpscan" and n == 1) {
        integer_class i = ic(t[1]);
        o << mp_scan1(i);
    } else {
        return "BADCASE";
    }
    return o.str();
}

// Cases are run in forked children, a batch of lines per child (a fork per case is too slow for
// exhaustive sweeps): the child answers line by line; when it dies (signal) or hangs (alarm) the
// parent reports CRASH:<sig> / HANG (30 s of CPU time) for the line it was working on and starts a new child for the
// remaining lines, so crashes and hangs stay observable per case.
static std::string one_case(const std::string &line)
{
    std::vector<std::string> t = verif::split_ws(line);
    if (t.empty())
        return "";
    orc.clear();
    std::string s;
    try {
        s = run_case(t);
    } catch (...) {
        s = verif::exn_name();
    }
    if (not orc.empty())
        s += "\t#ORACLE:" + orc;
    return s;
}

int main()
{
    std::vector<std::string> lines;
    std::string line;
    while (std::getline(std::cin, line))
        lines.push_back(line);
    const size_t BATCH = 400;
    const unsigned TIMEOUT_S = 30;
    size_t i = 0;
    while (i < lines.size()) {
        size_t end = std::min(lines.size(), i + BATCH);
        int fd[2];
        if (pipe(fd) != 0)
            return 3;
        fflush(stdout);
        pid_t pid = fork();
        if (pid == 0) {
            close(fd[0]);
            struct rlimit rl;
            rl.rlim_cur = rl.rlim_max = 0;
            setrlimit(RLIMIT_CORE, &rl);
            for (size_t k = i; k < end; k++) {
                // CPU-time budget per case (not wall clock: the machine may be heavily loaded)
                struct itimerval it;
                it.it_interval.tv_sec = 0;
                it.it_interval.tv_usec = 0;
                it.it_value.tv_sec = TIMEOUT_S;
                it.it_value.tv_usec = 0;
                setitimer(ITIMER_PROF, &it, NULL);
                std::string s = one_case(lines[k]) + "\n";
                size_t off = 0;
                while (off < s.size()) {
                    ssize_t w = write(fd[1], s.data() + off, s.size() - off);
                    if (w <= 0)
                        _exit(4);
                    off += (size_t)w;
                }
            }
            close(fd[1]);
            _exit(0);
        }
        close(fd[1]);
        std::string out;
        char buf[65536];
        ssize_t r;
        while ((r = read(fd[0], buf, sizeof buf)) > 0)
            out.append(buf, (size_t)r);
        close(fd[0]);
        int status = 0;
        waitpid(pid, &status, 0);
        // complete lines received
        size_t done = 0, pos = 0, nl;
        while ((nl = out.find('\n', pos)) != std::string::npos) {
            std::cout << out.substr(pos, nl - pos) << "\n";
            pos = nl + 1;
            done++;
        }
        i += done;
        if (i < end) {
            // the child died while working on line i
            std::string why = "DIED";
            if (WIFSIGNALED(status))
                why = (WTERMSIG(status) == SIGALRM or WTERMSIG(status) == SIGPROF) ? "HANG" : "CRASH:" + std::to_string(WTERMSIG(status));
            std::cout << why << "\n";
            i++;
        }
    }
    return 0;
}
