// C37 driver: common-subexpression elimination (symengine/cse.cpp).
// Input line: recipes (harness/recipe.h) separated by " ;; " -- the expression list es.
// Output line (sections separated by TAB):
//   E <dump es[0]> ;; <dump es[1]> ...
//   C <reps> | <reduced> | <back>        the public cse(): reps = "<sym> => <rhs>" joined by " ;; ",
//                                         reduced / back = dumps joined by " ;; "; back[i] is the
//                                         library's own back-substitution
//                                         reduced[i].subs({reps[n-1]}). ... .subs({reps[0]})
//   T <reps> | <reduced> | <back>        tree_cse() alone, with an empty opt_subs
//   O <key> => <value> ;; ...            opt_cse(es), entries sorted by the dump of the key
//   a section body is EXN:<k> / CRASH:<sig> / HANG when the call does not return normally
//   (each call runs in its own forked child).
// Oracle (evaluated directly on the library's outputs, independent of the model), appended as
//   \t#ORACLE:<section>:<class>[:detail]   classes: shape, unfaithful, key-not-symbol,
//   duplicate-symbol, not-fresh, cyclic, crash, hang, exception.  unfaithful carries the detail
//   "expand-equal" when back-substituted and input differ as trees but their difference expands to 0,
//   "differs" otherwise.  Hints for the class key:
//   \t#HINT:reserved-funsym   some FunctionSymbol named add / mul / pow occurs in es
//   \t#HINT:piecewise         some Piecewise occurs in es
//   \t#HINT:subs-node         some Subs / Derivative node occurs in es (or in an output)
//   \t#HINT:nan               some NaN occurs in es (or in an output)
//   \t#HINT:create-evaluates-on-symbols  some function node of es evaluates (create() gives another class)
//                             once its arguments are abstracted by Symbols, e.g. atan2(A, A) with A = -3.0*b
//   backsubst-crash:<sig> / backsubst-hang: cse returned, the library's subs() (or eq / expand) on its
//   outputs did not (the back field of the section is then CRASH:<sig> / HANG)
#include <symengine/basic.h>
#include <symengine/add.h>
#include <symengine/mul.h>
#include <symengine/pow.h>
#include <symengine/functions.h>
#include <symengine/logic.h>
#include <symengine/sets.h>
#include <symengine/complex.h>
#include <symengine/complex_double.h>
#include <symengine/real_double.h>
#include <symengine/infinity.h>
#include <symengine/nan.h>
#include <symengine/constants.h>
#include <symengine/visitor.h>
#include <symengine/symengine_exception.h>
#include "common.h"
#include "dump.h"
#include "recipe.h"
#include <set>
using namespace SymEngine;

namespace SymEngine
{
// defined (non-static) in cse.cpp, not declared in any header
umap_basic_basic opt_cse(const vec_basic &exprs);
void tree_cse(vec_pair &replacements, vec_basic &reduced_exprs, const vec_basic &exprs, umap_basic_basic &opt_subs);
} // namespace SymEngine

static std::vector<std::string> split_sep(const std::string &s, const std::string &sep)
{
    std::vector<std::string> v;
    size_t st = 0;
    while (true) {
        size_t p = s.find(sep, st);
        if (p == std::string::npos) {
            v.push_back(s.substr(st));
            break;
        }
        v.push_back(s.substr(st, p - st));
        st = p + sep.size();
    }
    return v;
}

// Symbol leaves reachable through get_args (exact class Symbol), and class hints
static void walk(const RCP<const Basic> &b, std::set<std::string> &names, bool &reserved, bool &pw)
{
    if (is_a<Symbol>(*b))
        names.insert(down_cast<const Symbol &>(*b).get_name());
    if (is_a<FunctionSymbol>(*b)) {
        const std::string &n = down_cast<const FunctionSymbol &>(*b).get_name();
        if (n == "add" or n == "mul" or n == "pow")
            reserved = true;
    }
    if (is_a<Piecewise>(*b))
        pw = true;
    for (const auto &a : b->get_args())
        walk(a, names, reserved, pw);
}

// does some function node of b evaluate (create() returns another class) once its arguments are
// abstracted by Symbols (equal arguments by the same Symbol)?  E.g. atan2(A, A) with A = -3.0*b or
// zoo*E**x stays unevaluated (A/A is the float 1.0 / not 1), atan2(s, s) = pi/4.
static bool create_evaluates_on_symbols(const RCP<const Basic> &b)
{
    vec_basic args = b->get_args();
    const OneArgFunction *f1 = dynamic_cast<const OneArgFunction *>(b.get());
    const TwoArgFunction *f2 = dynamic_cast<const TwoArgFunction *>(b.get());
    const MultiArgFunction *fn = dynamic_cast<const MultiArgFunction *>(b.get());
    if ((f1 or f2 or fn) and not args.empty()) {
        vec_basic syms;
        for (size_t i = 0; i < args.size(); i++) {
            size_t j = 0;
            while (j < i and not eq(*args[j], *args[i]))
                j++;
            syms.push_back(j < i ? syms[j] : RCP<const Basic>(symbol("_c37_arg" + std::to_string(i))));
        }
        try {
            RCP<const Basic> r = f1 ? f1->create(syms[0]) : f2 ? f2->create(syms[0], syms[1]) : fn->create(syms);
            if (r->get_type_code() != b->get_type_code())
                return true;
        } catch (...) {
        }
    }
    for (const auto &a : args)
        if (create_evaluates_on_symbols(a))
            return true;
    return false;
}

static std::string join_dumps(const vec_basic &v)
{
    std::string s;
    for (size_t i = 0; i < v.size(); i++)
        s += (i ? " ;; " : "") + verif::dump(*v[i]);
    return s;
}

// one of the two entry points on es; returns "<body>" + oracle annotations (separated by \x01)
static std::string run_phase(const std::string &tag, const vec_basic &es, bool full, bool isolate)
{
    std::ostringstream o, orc;
    vec_pair reps;
    vec_basic red;
    try {
        if (full) {
            cse(reps, red, es);
        } else {
            umap_basic_basic empty;
            tree_cse(reps, red, es, empty);
        }
    } catch (...) {
        std::string e = verif::exn_name();
        return e + "\x01\t#ORACLE:" + tag + ":exception:" + e;
    }
    for (size_t k = 0; k < reps.size(); k++)
        o << (k ? " ;; " : "") << verif::dump(*reps[k].first) << " => " << verif::dump(*reps[k].second);
    o << " | " << join_dumps(red) << " | ";
    // ---- oracle ----
    if (red.size() != es.size())
        orc << "\t#ORACLE:" << tag << ":shape:" << red.size() << "/" << es.size();
    // the library's own back-substitution, last replacement first, and its comparison with the
    // inputs.  cse() / tree_cse() HAVE RETURNED at this point: with isolate this part runs in a child
    // of its own, so that a crash / hang of the library's subs() (or eq / expand) on the outputs is
    // told apart from a crash of cse itself: the back field is then CRASH:<sig> / HANG and the
    // annotation is backsubst-crash / backsubst-hang.
    auto backpart = [&]() -> std::string {
        std::ostringstream ob, oo;
        vec_basic back;
        std::string subs_err;
        try {
            for (size_t i = 0; i < red.size(); i++) {
                RCP<const Basic> r = red[i];
                for (size_t k = reps.size(); k-- > 0;) {
                    map_basic_basic m;
                    m[reps[k].first] = reps[k].second;
                    r = r->subs(m);
                }
                back.push_back(r);
            }
            ob << join_dumps(back);
        } catch (...) {
            subs_err = verif::exn_name();
            ob << subs_err;
        }
        if (!subs_err.empty()) {
            oo << "\t#ORACLE:" << tag << ":unfaithful:subs-throws-" << subs_err;
        } else {
            for (size_t i = 0; i < back.size() && i < es.size(); i++)
                if (!eq(*back[i], *es[i]) or !eq(*es[i], *back[i])) {
                    // not eq as trees; are they at least the same polynomial expression (the
                    // difference expands to 0)?  Then the rebuild only changed the canonical form
                    // (SymEngine's add() is not associative on nested sums with coefficients).
                    std::string how = "differs";
                    try {
                        if (eq(*expand(sub(back[i], es[i])), *zero))
                            how = "expand-equal";
                    } catch (...) {
                    }
                    oo << "\t#ORACLE:" << tag << ":unfaithful:" << how << ":" << i;
                    break;
                }
        }
        return ob.str() + "\x03" + oo.str() + "\x04";
    };
    {
        std::string bp = isolate ? verif::run_forked(backpart, 20) : backpart();
        size_t p3 = bp.find('\x03');
        if (bp.empty() or bp[bp.size() - 1] != '\x04' or p3 == std::string::npos) {
            size_t c = bp.rfind("CRASH:");
            if (c != std::string::npos) {
                o << bp.substr(c);
                orc << "\t#ORACLE:" << tag << ":backsubst-crash:" << bp.substr(c + 6);
            } else {
                o << "HANG";
                orc << "\t#ORACLE:" << tag << ":backsubst-hang";
            }
        } else {
            o << bp.substr(0, p3);
            orc << bp.substr(p3 + 1, bp.size() - p3 - 2);
        }
    }
    std::set<std::string> in_names;
    bool d1 = false, d2 = false;
    for (const auto &e : es)
        walk(e, in_names, d1, d2);
    std::vector<std::string> rn;
    bool keys_ok = true;
    for (const auto &p : reps) {
        if (!is_a<Symbol>(*p.first)) {
            keys_ok = false;
            orc << "\t#ORACLE:" << tag << ":key-not-symbol";
            break;
        }
        rn.push_back(down_cast<const Symbol &>(*p.first).get_name());
    }
    if (keys_ok) {
        std::set<std::string> seen;
        for (size_t k = 0; k < rn.size(); k++) {
            if (!seen.insert(rn[k]).second) {
                orc << "\t#ORACLE:" << tag << ":duplicate-symbol:" << rn[k];
                break;
            }
        }
        for (size_t k = 0; k < rn.size(); k++)
            if (in_names.count(rn[k])) {
                orc << "\t#ORACLE:" << tag << ":not-fresh:" << rn[k];
                break;
            }
        bool cyc = false;
        for (size_t k = 0; k < rn.size() && !cyc; k++) {
            std::set<std::string> ns;
            walk(reps[k].second, ns, d1, d2);
            for (size_t j = k; j < rn.size(); j++)
                if (ns.count(rn[j])) {
                    orc << "\t#ORACLE:" << tag << ":cyclic:" << rn[k] << "-mentions-" << rn[j];
                    cyc = true;
                    break;
                }
        }
    }
    return o.str() + "\x01" + orc.str();
}

static std::string run_opt(const vec_basic &es)
{
    try {
        umap_basic_basic opt = opt_cse(es);
        std::vector<std::string> items;
        for (const auto &p : opt)
            items.push_back(verif::dump(*p.first) + " => " + verif::dump(*p.second));
        std::sort(items.begin(), items.end());
        std::string s;
        for (size_t i = 0; i < items.size(); i++)
            s += (i ? " ;; " : "") + items[i];
        return s;
    } catch (...) {
        return verif::exn_name();
    }
}

// isolate = false: all phases in this process (one fork per case; a crash loses the line and the
// caller retries with isolate = true, where every phase runs in its own child)
static std::string run_case(const std::string &line, bool isolate)
{
    vec_basic es;
    for (const auto &r : split_sep(line, " ;; "))
        es.push_back(verif::eval_recipe(r));
    std::string out = "E\t" + join_dumps(es);
    if (out.find("Opaque") != std::string::npos)
        return "SKIP opaque";
    std::string orc;
    const char *tags[2] = {"C", "T"};
    for (int ph = 0; ph < 2; ph++) {
        std::string tag = tags[ph];
        std::string r = isolate ? verif::run_forked([&]() { return run_phase(tag, es, ph == 0, true); }, 60)
                                : run_phase(tag, es, ph == 0, false);
        size_t p = r.find('\x01');
        std::string body = p == std::string::npos ? r : r.substr(0, p);
        std::string ann = p == std::string::npos ? "" : r.substr(p + 1);
        if (p == std::string::npos) {
            // the child died before finishing: r ends with CRASH:<sig> or HANG
            size_t c = r.rfind("CRASH:");
            if (c != std::string::npos) {
                body = r.substr(c);
                ann = "\t#ORACLE:" + tag + ":crash:" + r.substr(c + 6);
            } else {
                body = "HANG";
                ann = "\t#ORACLE:" + tag + ":hang";
            }
        }
        out += "\t" + tag + "\t" + body;
        orc += ann;
    }
    std::string o = isolate ? verif::run_forked([&]() { return run_opt(es) + "\x01"; }, 20) : run_opt(es) + "\x01";
    size_t p = o.find('\x01');
    out += "\tO\t" + (p == std::string::npos ? (o.rfind("CRASH:") != std::string::npos ? o.substr(o.rfind("CRASH:")) : std::string("HANG")) : o.substr(0, p));
    std::set<std::string> names;
    bool reserved = false, pw = false;
    for (const auto &e : es)
        walk(e, names, reserved, pw);
    if (reserved)
        orc += "\t#HINT:reserved-funsym";
    if (pw)
        orc += "\t#HINT:piecewise";
    if (out.find("(Subs ") != std::string::npos or out.find("(Deriv ") != std::string::npos)
        orc += "\t#HINT:subs-node";
    if (out.find("(NaN)") != std::string::npos)
        orc += "\t#HINT:nan";
    for (const auto &e : es)
        if (create_evaluates_on_symbols(e)) {
            orc += "\t#HINT:create-evaluates-on-symbols";
            break;
        }
    return out + orc;
}

int main()
{
    std::string line;
    while (std::getline(std::cin, line)) {
        std::string r;
        for (int isolate = 0; isolate < 2; isolate++) {
            r = verif::run_forked(
                [&]() {
                    try {
                        return run_case(line, isolate == 1) + "\x02";
                    } catch (...) {
                        return std::string("SKIP recipe ") + verif::exn_name() + "\x02";
                    }
                },
                90);
            if (!r.empty() && r[r.size() - 1] == '\x02') {
                r.erase(r.size() - 1);
                break;
            }
            if (isolate == 1)
                r = "SKIP recipe-died " + r;
        }
        std::cout << r << "\n";
    }
    return 0;
}
