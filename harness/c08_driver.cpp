// C08 driver: function constructors' automatic evaluation (symengine/functions.cpp,
// ntheory_funcs.cpp).  One case per input line; families (first token):
//
//   T <f> <p> <q> <recipe r>     trig constructor f in sin cos tan cot sec csc on arg = r + (p/q)*pi
//        output:  T <f> <dump arg> \t=>\t rarg=<LIN> idx=<i|_> sign=<s|_> conj=<0|1> ;; <RES>
//        (first part: the library's trig_simplify called directly; RES: the constructor's result
//         normalised to  FUN s F <LIN> | TAB s F i | RECIP s <tree> | VAL s <tree> | NUMERIC)
//   N <op> <recipe number>       op in floor ceiling truncate sign abs
//   MX <max|min> <recipe>...     folding of Number arguments
//   KD <recipe> <recipe>         kronecker_delta of two numbers
//   LC <recipe>...               levi_civita of numbers
//   G <p> <q>                    gamma(p/q), q in {1, 2}
//   PP <recipe> / PR <recipe>    primepi / primorial of an integer
//        output:  <family> <op> <dumps> \t=>\t <result text>
//   O <f> <recipe>...            oracle only: any constructor of the property on any arguments
//        output:  O\t=>\t<class of the arguments> [<result>]
// The text before "\t=>\t" is the input of the extracted Coq model, which prints the text after it.
//
// Property oracle (independent of the model; appended as "\t#ORACLE:<class>|<details>"):
// the constructor's result, evaluated numerically at sample values of the symbols, must agree
// with an independent reference implementation of the function (libm / <complex> / series
// written below) at the numerically evaluated arguments; for the T family the shift (p/q)*pi is
// first reduced modulo 2*pi in exact integer arithmetic, so that huge shifts are checked too.
#include <symengine/basic.h>
#include <symengine/add.h>
#include <symengine/mul.h>
#include <symengine/pow.h>
#include <symengine/functions.h>
#include <symengine/ntheory_funcs.h>
#include <symengine/logic.h>
#include <symengine/sets.h>
#include <symengine/complex.h>
#include <symengine/complex_double.h>
#include <symengine/real_double.h>
#include <symengine/infinity.h>
#include <symengine/nan.h>
#include <symengine/constants.h>
#include <symengine/visitor.h>
#include <symengine/eval_double.h>
#include <symengine/symengine_exception.h>
#include "common.h"
#include "dump.h"
#include "recipe.h"
#include <complex>
#include <cmath>
#include <map>
using namespace SymEngine;
typedef RCP<const Basic> B;
typedef std::complex<double> cplx;
static const double PI = 3.14159265358979323846264338327950288;

// ------------------------------------------------------------------------------ decomposition
static B mul_rest(const Mul &m)
{
    map_basic_basic d = m.get_dict();
    return Mul::from_dict(one, std::move(d));
}

// [coef | key c | key c ...]  (entries sorted by their text)
static std::string lin_text(const B &e)
{
    std::vector<std::string> items;
    std::string coef = "(I 0)";
    if (is_a_Number(*e)) {
        coef = verif::dump_num(down_cast<const Number &>(*e));
    } else if (is_a<Add>(*e)) {
        const Add &a = down_cast<const Add &>(*e);
        coef = verif::dump_num(*a.get_coef());
        for (const auto &p : a.get_dict())
            items.push_back(verif::dump_sorted(*p.first) + " " + verif::dump_num(*p.second));
    } else if (is_a<Mul>(*e)) {
        const Mul &m = down_cast<const Mul &>(*e);
        items.push_back(verif::dump_sorted(*mul_rest(m)) + " " + verif::dump_num(*m.get_coef()));
    } else {
        items.push_back(verif::dump_sorted(*e) + " (I 1)");
    }
    std::sort(items.begin(), items.end());
    std::string s = "[" + coef;
    for (auto &i : items)
        s += " | " + i;
    return s + "]";
}

struct TrigInfo {
    const char *name;
    B (*fn)(const B &);
    unsigned period;
    bool odd, conj_odd;
};
static const TrigInfo TRIG[] = {
    {"sin", sin, 2, true, false}, {"cos", cos, 2, false, true}, {"tan", tan, 1, true, true},
    {"cot", cot, 1, true, true},  {"sec", sec, 2, false, true}, {"csc", csc, 2, true, false},
};
static const TrigInfo *trig_info(const std::string &f)
{
    for (auto &t : TRIG)
        if (f == t.name)
            return &t;
    return nullptr;
}
static const char *trig_class_name(const Basic &b)
{
    if (is_a<Sin>(b)) return "sin";
    if (is_a<Cos>(b)) return "cos";
    if (is_a<Tan>(b)) return "tan";
    if (is_a<Cot>(b)) return "cot";
    if (is_a<Sec>(b)) return "sec";
    if (is_a<Csc>(b)) return "csc";
    return nullptr;
}

// (sign, core): a product with coefficient -1 is split
static void split_sign(const B &r, int &s, B &core)
{
    if (is_a<Mul>(*r) and down_cast<const Mul &>(*r).get_coef()->is_minus_one()) {
        s = -1;
        core = mul_rest(down_cast<const Mul &>(*r));
    } else {
        s = 1;
        core = r;
    }
}

static bool is_float(const Basic &b)
{
    return is_a<RealDouble>(b) or is_a<ComplexDouble>(b);
}

static std::string res_text(const B &r)
{
    if (is_float(*r))
        return "NUMERIC";
    int s;
    B core;
    split_sign(r, s, core);
    std::string ss = std::to_string(s);
    if (const char *nm = trig_class_name(*core))
        return "FUN " + ss + " " + nm + " " + lin_text(down_cast<const OneArgFunction &>(*core).get_arg());
    if (is_a<Pow>(*core) and eq(*down_cast<const Pow &>(*core).get_exp(), *minus_one))
        return "RECIP " + ss + " " + verif::dump_sorted(*down_cast<const Pow &>(*core).get_base());
    return "VAL " + ss + " " + verif::dump_sorted(*core);
}

// ------------------------------------------------------------------------------ numerics
static bool finite_c(cplx z)
{
    return std::isfinite(z.real()) and std::isfinite(z.imag());
}

static cplx cgamma(cplx z)
{
    // Lanczos, g = 7, n = 9; reflection for Re z < 1/2
    static const double c[] = {0.99999999999980993,     676.5203681218851,     -1259.1392167224028,
                               771.32342877765313,      -176.61502916214059,   12.507343278686905,
                               -0.13857109526572012,    9.9843695780195716e-6, 1.5056327351493116e-7};
    if (z.real() < 0.5)
        return PI / (std::sin(PI * z) * cgamma(1.0 - z));
    z -= 1.0;
    cplx x = c[0];
    for (int i = 1; i < 9; i++)
        x += c[i] / (z + double(i));
    cplx t = z + 7.5;
    return std::sqrt(2 * PI) * std::pow(t, z + 0.5) * std::exp(-t) * x;
}
static bool is_nonpos_int(cplx z)
{
    return z.imag() == 0 and z.real() <= 0 and std::floor(z.real()) == z.real();
}
static cplx cdigamma(cplx z)
{
    cplx acc = 0;
    while (z.real() < 10) {
        acc -= 1.0 / z;
        z += 1.0;
    }
    cplx z2 = 1.0 / (z * z);
    // ln z - 1/(2z) - sum B_2k / (2k z^2k)
    cplx s = std::log(z) - 0.5 / z
             - z2 * (1.0 / 12 - z2 * (1.0 / 120 - z2 * (1.0 / 252 - z2 * (1.0 / 240 - z2 * (1.0 / 132)))));
    return acc + s;
}
// Hurwitz zeta for real s != 1 and Re a > 0 (Euler-Maclaurin; analytic continuation in s)
static cplx hurwitz(double s, cplx a)
{
    static const double B2[] = {1.0 / 6,    -1.0 / 30,      1.0 / 42,      -1.0 / 30,       5.0 / 66,
                                -691.0 / 2730, 7.0 / 6,     -3617.0 / 510, 43867.0 / 798,   -174611.0 / 330};
    const int N = 24;
    cplx sum = 0;
    for (int k = 0; k < N; k++)
        sum += std::pow(a + double(k), -s);
    cplx an = a + double(N);
    sum += std::pow(an, 1 - s) / (s - 1) + 0.5 * std::pow(an, -s);
    double fact = 1; // (2j)!
    double poch = s; // s (s+1) ... (s+2j-2)
    for (int j = 1; j <= 10; j++) {
        fact *= (2 * j - 1) * (2 * j);
        if (j > 1)
            poch *= (s + 2 * j - 3) * (s + 2 * j - 2);
        sum += B2[j - 1] / fact * poch * std::pow(an, -s - 2 * j + 1);
    }
    return sum;
}
// Riemann zeta at real s != 1: Euler-Maclaurin for s >= 1/2, the functional equation below
static double zeta_real(double s)
{
    if (s >= 0.5)
        return hurwitz(s, 1.0).real();
    // zeta(s) = 2^s pi^(s-1) sin(pi s / 2) Gamma(1 - s) zeta(1 - s)
    return std::pow(2.0, s) * std::pow(PI, s - 1) * std::sin(PI * s / 2) * std::tgamma(1 - s)
           * hurwitz(1 - s, 1.0).real();
}
static bool lambertw_ref(cplx z, cplx &w)
{
    if (z == cplx(0, 0)) {
        w = 0;
        return true;
    }
    cplx e1 = z + std::exp(-1.0);
    if (std::abs(e1) < 0.3) {
        cplx p = std::sqrt(2.0 * std::exp(1.0) * e1);
        w = -1.0 + p - p * p / 3.0 + 11.0 / 72.0 * p * p * p;
    } else if (std::abs(z) < 2.5) {
        w = std::log(1.0 + z);
        if (std::abs(w) < 1e-3)
            w = z;
    } else {
        cplx l = std::log(z);
        w = l - std::log(l);
    }
    for (int i = 0; i < 100; i++) {
        cplx ew = std::exp(w), f = w * ew - z;
        cplx d = ew * (w + 1.0) - (w + 2.0) * f / (2.0 * w + 2.0);
        if (d == cplx(0, 0))
            break;
        cplx nw = w - f / d;
        if (std::abs(nw - w) < 1e-15 * (1 + std::abs(nw))) {
            w = nw;
            break;
        }
        w = nw;
    }
    // principal branch: accept when it solves the equation and lies in the principal range
    if (std::abs(w * std::exp(w) - z) > 1e-9 * (1 + std::abs(z)))
        return false;
    if (z.imag() == 0 and z.real() >= -std::exp(-1.0))
        return w.real() >= -1 - 1e-9;
    return std::abs(w.imag()) < PI; // crude: inside the principal strip
}
static cplx lower_gamma_ref(cplx s, cplx x)
{
    // x^s e^-x sum_k x^k / (s (s+1) ... (s+k))
    cplx term = 1.0 / s, sum = term;
    for (int k = 1; k < 400; k++) {
        term *= x / (s + double(k));
        sum += term;
        if (std::abs(term) < 1e-17 * std::abs(sum))
            break;
    }
    return std::pow(x, s) * std::exp(-x) * sum;
}

// reference implementations; return false when no reference is available for these arguments
static bool ref_value(const std::string &f, const std::vector<cplx> &a, cplx &out, bool &pole)
{
    pole = false;
    cplx z = a.empty() ? cplx(0) : a[0];
    bool real0 = a.size() >= 1 and a[0].imag() == 0;
    if (a.size() == 1) {
        if (f == "sin") out = std::sin(z);
        else if (f == "cos") out = std::cos(z);
        else if (f == "tan") { if (std::abs(std::cos(z)) < 1e-9) { pole = true; return true; } out = std::sin(z) / std::cos(z); }
        else if (f == "cot") { if (std::abs(std::sin(z)) < 1e-9) { pole = true; return true; } out = std::cos(z) / std::sin(z); }
        else if (f == "sec") { if (std::abs(std::cos(z)) < 1e-9) { pole = true; return true; } out = 1.0 / std::cos(z); }
        else if (f == "csc") { if (std::abs(std::sin(z)) < 1e-9) { pole = true; return true; } out = 1.0 / std::sin(z); }
        else if (f == "asin") out = std::asin(z);
        else if (f == "acos") out = std::acos(z);
        else if (f == "atan") out = std::atan(z);
        else if (f == "acot") { if (z == cplx(0)) out = PI / 2; else out = std::atan(1.0 / z); }
        else if (f == "asec") { if (z == cplx(0)) { pole = true; return true; } out = std::acos(1.0 / z); }
        else if (f == "acsc") { if (z == cplx(0)) { pole = true; return true; } out = std::asin(1.0 / z); }
        else if (f == "sinh") out = std::sinh(z);
        else if (f == "cosh") out = std::cosh(z);
        else if (f == "tanh") out = std::tanh(z);
        else if (f == "coth") { if (std::abs(std::sinh(z)) < 1e-9) { pole = true; return true; } out = std::cosh(z) / std::sinh(z); }
        else if (f == "sech") out = 1.0 / std::cosh(z);
        else if (f == "csch") { if (std::abs(std::sinh(z)) < 1e-9) { pole = true; return true; } out = 1.0 / std::sinh(z); }
        else if (f == "asinh") out = std::asinh(z);
        else if (f == "acosh") out = std::acosh(z);
        else if (f == "atanh") { if (z == cplx(1) or z == cplx(-1)) { pole = true; return true; } out = std::atanh(z); }
        else if (f == "acoth") { if (z == cplx(0)) { out = cplx(0, PI / 2); return false; } if (z == cplx(1) or z == cplx(-1)) { pole = true; return true; } out = std::atanh(1.0 / z); }
        else if (f == "asech") { if (z == cplx(0)) { pole = true; return true; } out = std::acosh(1.0 / z); }
        else if (f == "acsch") { if (z == cplx(0)) { pole = true; return true; } out = std::asinh(1.0 / z); }
        else if (f == "log") { if (z == cplx(0)) { pole = true; return true; } out = std::log(z); }
        else if (f == "exp") out = std::exp(z);
        else if (f == "abs") out = std::abs(z);
        else if (f == "sign") { if (z == cplx(0)) out = 0; else out = z / std::abs(z); }
        else if (f == "floor") out = cplx(std::floor(z.real()), std::floor(z.imag()));
        else if (f == "ceiling") out = cplx(std::ceil(z.real()), std::ceil(z.imag()));
        else if (f == "truncate") out = cplx(std::trunc(z.real()), std::trunc(z.imag()));
        else if (f == "conjugate") out = std::conj(z);
        else if (f == "gamma") { if (is_nonpos_int(z)) { pole = true; return true; } out = real0 ? cplx(std::tgamma(z.real())) : cgamma(z); }
        else if (f == "loggamma") { if (is_nonpos_int(z)) { pole = true; return true; } if (!real0 or z.real() <= 0) return false; out = std::lgamma(z.real()); }
        else if (f == "erf") { if (!real0) return false; out = std::erf(z.real()); }
        else if (f == "erfc") { if (!real0) return false; out = std::erfc(z.real()); }
        else if (f == "lambertw") { return lambertw_ref(z, out); }
        else if (f == "zeta") { if (!real0) return false; if (z.real() == 1) { pole = true; return true; } if (std::fabs(z.real()) > 40) return false; out = zeta_real(z.real()); }
        else if (f == "dirichlet_eta") { if (!real0) return false; if (z.real() == 1) { out = std::log(2.0); return true; } if (std::fabs(z.real()) > 40) return false; out = (1 - std::pow(2.0, 1 - z.real())) * zeta_real(z.real()); }
        else if (f == "digamma") { if (is_nonpos_int(z)) { pole = true; return true; } out = cdigamma(z); }
        else if (f == "trigamma") { if (is_nonpos_int(z)) { pole = true; return true; } if (z.real() <= 0) return false; out = hurwitz(2, z); }
        else return false;
        return true;
    }
    if (a.size() == 2) {
        cplx w = a[1];
        bool real1 = w.imag() == 0;
        if (f == "atan2") { if (!real0 or !real1) return false; if (z == cplx(0) and w == cplx(0)) return false; out = std::atan2(z.real(), w.real()); }
        else if (f == "log") { if (z == cplx(0) or w == cplx(0) or w == cplx(1)) return false; out = std::log(z) / std::log(w); }
        else if (f == "zeta") {
            if (!real0) return false;
            if (z.real() == 1) { pole = true; return true; }
            if (std::fabs(z.real()) > 40) return false;
            if (w.real() <= 0) return false; // no agreed value for a <= 0
            if (z.real() < 0.5) {
                // zeta(s, a) = zeta(s) - sum_{k < a} k^-s for a positive integer a
                if (w.imag() != 0 or std::floor(w.real()) != w.real() or w.real() > 1000) return false;
                double acc = zeta_real(z.real());
                for (int k = 1; k < (int)w.real(); k++)
                    acc -= std::pow((double)k, -z.real());
                out = acc;
            } else
                out = hurwitz(z.real(), w);
        } else if (f == "beta") {
            bool p0 = is_nonpos_int(z), p1 = is_nonpos_int(w), ps = is_nonpos_int(z + w);
            if ((p0 or p1) and ps) return false;
            if (p0 or p1) { pole = true; return true; }
            if (ps) { out = 0; return true; }
            out = cgamma(z) * cgamma(w) / cgamma(z + w);
        } else if (f == "polygamma") {
            if (!real0 or z.real() < 0 or std::floor(z.real()) != z.real() or z.real() > 20) return false;
            if (is_nonpos_int(w)) { pole = true; return true; }
            int n = (int)z.real();
            if (n == 0) { out = cdigamma(w); return true; }
            if (w.real() <= 0) return false;
            double fct = 1;
            for (int i = 2; i <= n; i++) fct *= i;
            out = ((n % 2) ? 1.0 : -1.0) * fct * hurwitz(n + 1, w);
        } else if (f == "lowergamma") {
            if (is_nonpos_int(z)) return false;
            if (w == cplx(0)) return false;
            if (std::abs(w) > 25) return false;
            out = lower_gamma_ref(z, w);
        } else if (f == "uppergamma") {
            if (is_nonpos_int(z)) return false;
            if (w == cplx(0)) return false;
            if (std::abs(w) > 25) return false;
            out = cgamma(z) - lower_gamma_ref(z, w);
        } else if (f == "kronecker_delta") { out = (z == w) ? 1 : 0; }
        else return false;
        return true;
    }
    return false;
}

// sample values for symbols (two sets: real, complex)
static cplx sample_value(const std::string &name, int set)
{
    unsigned h = 7;
    for (unsigned char c : name)
        h = h * 31 + c;
    static const double re[] = {0.37, -1.13, 0.71, 2.3, -0.45, 1.9, -2.6, 0.12};
    static const double im[] = {0.21, 0.4, -0.3, -0.15, 0.5, 0.33, -0.27, 0.6};
    if (set == 0)
        return cplx(re[h % 8], 0);
    if (set == 1)
        return cplx(-re[(h + 3) % 8], 0);
    return cplx(re[(h + 1) % 8], im[h % 8]);
}
static B subs_samples(const B &e, int set)
{
    set_basic fs = free_symbols(*e);
    map_basic_basic m;
    for (const auto &s : fs) {
        cplx v = sample_value(down_cast<const Symbol &>(*s).get_name(), set);
        if (v.imag() == 0)
            m[s] = real_double(v.real());
        else
            m[s] = complex_double(v);
    }
    if (m.empty())
        return e;
    return e->subs(m);
}
static bool num_eval(const B &e, cplx &out)
{
    try {
        if (is_a<Infty>(*e) or is_a<NaN>(*e))
            return false;
        out = eval_complex_double(*e);
        return finite_c(out);
    } catch (...) {
        return false;
    }
}
static bool close_enough(cplx a, cplx b)
{
    return std::abs(a - b) <= 1e-7 * (1 + std::abs(b));
}
static std::string cstr(cplx z)
{
    char buf[96];
    snprintf(buf, sizeof buf, "(%.12g,%.12g)", z.real(), z.imag());
    return buf;
}

// class of an argument list, part of the violation key
static std::string arg_class(const vec_basic &args)
{
    std::string s;
    for (const auto &a : args) {
        std::string c;
        if (is_a<Integer>(*a)) c = "int";
        else if (is_a<Rational>(*a)) c = "rat";
        else if (is_a<Complex>(*a)) c = "cplx";
        else if (is_a_Number(*a) and not down_cast<const Number &>(*a).is_exact()) c = "float";
        else if (is_a_Number(*a)) c = "special";
        else if (is_a<Constant>(*a)) c = "const";
        else if (free_symbols(*a).empty()) c = "closed";
        else c = "sym";
        if (c == "int" or c == "rat" or c == "closed" or c == "const") {
            cplx v;
            if (num_eval(a, v) and v.imag() == 0)
                c += v.real() < 0 ? "-" : (v.real() == 0 ? "0" : "+");
        }
        s += (s.empty() ? "" : ",") + c;
    }
    return s;
}


// arguments on (or numerically at) a branch cut: the value there is a convention, the property
// is stated away from the cuts
static bool on_cut(const std::string &f, const std::vector<cplx> &a)
{
    if (a.empty())
        return false;
    cplx z = a[0];
    double x = z.real(), y = z.imag();
    const double eps = 1e-12;
    bool re_axis = std::fabs(y) < eps, im_axis = std::fabs(x) < eps;
    if (f == "asin" or f == "acos") return re_axis and std::fabs(x) > 1 - eps;
    if (f == "asec" or f == "acsc") return re_axis and std::fabs(x) < 1 + eps;
    if (f == "atan" or f == "acot") return im_axis and std::fabs(y) > 1 - eps;
    if (f == "asinh") return im_axis and std::fabs(y) > 1 - eps;
    if (f == "acsch") return im_axis and std::fabs(y) < 1 + eps;
    if (f == "acosh") return re_axis and x < 1 + eps;
    if (f == "asech") return re_axis and (x < eps or x > 1 - eps);
    if (f == "atanh") return re_axis and std::fabs(x) > 1 - eps;
    if (f == "acoth") return re_axis and std::fabs(x) < 1 + eps;
    if (f == "log" or f == "lambertw" or f == "loggamma") return re_axis and x < eps;
    if (f == "atan2") return false;
    return false;
}

static std::string fn_group(const std::string &f)
{
    if (f == "digamma" or f == "trigamma" or f == "polygamma") return "polygamma";
    return f;
}
// coarse class of the first argument
static std::string coarse_class(const vec_basic &args)
{
    bool sym = false;
    for (const auto &a : args)
        if (not free_symbols(*a).empty())
            sym = true;
    if (sym) return "symbolic";
    for (const auto &a : args)
        if (is_a<RealDouble>(*a) or is_a<ComplexDouble>(*a)) return "float";
    for (const auto &a : args)
        if (is_a<Complex>(*a)) return "exact-complex";
    for (const auto &a : args)
        if (not is_a_Number(*a)) return "closed-form";
    return "exact-real";
}
// violation key: the class of failure
static std::string oracle_key(const std::string &f, const vec_basic &args, const std::string &symptom)
{
    if (symptom == "class") return f + "-wrong-class";
    if (symptom == "noncanonical") return f + "-noncanonical";
    if (symptom == "infinite") return fn_group(f) + "-infinite-at-regular-point";
    if (symptom == "pole") return fn_group(f) + "-finite-at-pole";
    return fn_group(f) + "-value-" + coarse_class(args);
}

// compare f(args) =: res with the reference at up to three sample sets
static std::string value_oracle(const std::string &f, const vec_basic &args, const B &res)
{
    bool real_only = (f == "atan2" or f == "floor" or f == "ceiling" or f == "truncate" or f == "erf"
                      or f == "erfc" or f == "max" or f == "min" or f == "loggamma" or f == "zeta"
                      or f == "dirichlet_eta" or f == "kronecker_delta" or f == "sign" or f == "abs");
    bool has_syms = false;
    for (const auto &a : args)
        if (not free_symbols(*a).empty())
            has_syms = true;
    for (int set = 0; set < 3; set++) {
        if (set > 0 and not has_syms)
            break;
        if (set == 2 and real_only)
            break;
        try {
            std::vector<cplx> av;
            bool ok = true;
            for (const auto &a : args) {
                cplx v;
                if (!num_eval(subs_samples(a, set), v)) {
                    ok = false;
                    break;
                }
                av.push_back(v);
            }
            if (!ok)
                continue;
            if (on_cut(f, av))
                continue;
            cplx ref;
            bool pole = false;
            if (f == "max" or f == "min") {
                bool allreal = true;
                for (auto &v : av)
                    if (v.imag() != 0)
                        allreal = false;
                if (!allreal or av.empty())
                    continue;
                double m = av[0].real();
                for (auto &v : av)
                    m = (f == "max") ? std::max(m, v.real()) : std::min(m, v.real());
                ref = m;
            } else if (!ref_value(f, av, ref, pole)) {
                continue;
            }
            B rs = subs_samples(res, set);
            if (pole) {
                if (is_a<Infty>(*rs) or is_a<NaN>(*rs))
                    continue;
                cplx got;
                if (num_eval(rs, got) and std::abs(got) < 1e6)
                    return "pole|" + f + " has a pole at " + cstr(av[0]) + " but the result evaluates to " + cstr(got);
                continue;
            }
            if (!finite_c(ref))
                continue;
            if (is_a<Infty>(*rs))
                return "infinite|" + f + " result is infinite, reference value " + cstr(ref) + " (sample set "
                       + std::to_string(set) + ")";
            cplx got;
            if (!num_eval(rs, got))
                continue;
            if (!close_enough(got, ref))
                return "value|" + f + ": result evaluates to " + cstr(got) + ", reference " + cstr(ref)
                       + " (sample set " + std::to_string(set) + ")";
        } catch (...) {
        }
    }
    return "";
}

// ------------------------------------------------------------------------------ families
static std::string exn_or(const std::function<std::string()> &f)
{
    try {
        return f();
    } catch (...) {
        return verif::exn_name();
    }
}

static integer_class zparse(const std::string &s)
{
    return integer_class(s);
}

static std::string run_T(const std::vector<std::string> &tok, const std::string &line)
{
    // T f p q recipe
    const TrigInfo *ti = trig_info(tok.at(1));
    if (!ti)
        return "SKIP unknown function";
    integer_class p = zparse(tok.at(2)), q = zparse(tok.at(3));
    size_t pos = 0;
    for (int k = 0; k < 4; k++) {
        pos = line.find(' ', pos);
        pos++;
    }
    B r = verif::eval_recipe(line.substr(pos));
    B arg = r;
    if (p != 0)
        arg = add(r, mul(Rational::from_two_ints(*integer(p), *integer(q)), pi));
    std::string head = "T " + std::string(ti->name) + " " + verif::dump(*arg);
    if (head.find("Opaque") != std::string::npos)
        return "SKIP opaque";
    std::string out = head + "\t=>\t";
    B rarg;
    int index = -99, sign = -99;
    bool conj = false;
    std::string part1 = exn_or([&]() {
        conj = trig_simplify(arg, ti->period, ti->odd, ti->conj_odd, outArg(rarg), index, sign);
        return "rarg=" + lin_text(rarg) + " idx=" + (index == -99 ? std::string("_") : std::to_string(index))
               + " sign=" + (sign == -99 ? std::string("_") : std::to_string(sign)) + " conj=" + (conj ? "1" : "0");
    });
    B res;
    std::string part2 = exn_or([&]() {
        res = ti->fn(arg);
        if (!rarg.is_null() and !conj and eq(*rarg, *zero) and index >= 0 and index < 24 and not is_float(*res)) {
            // table value: must be the constructor's value at index*pi/12
            B base = ti->fn(mul(pi, Rational::from_two_ints(*integer(index), *integer(12))));
            if (eq(*res, *base))
                return "TAB " + std::to_string(sign) + " " + ti->name + " " + std::to_string(index);
        }
        return res_text(res);
    });
    out += part1 + " ;; " + part2;
    if (res.is_null())
        return out;
    // oracle: f(rv + (p/q mod 2) pi) with the reduction done here in exact arithmetic
    try {
        integer_class two_q = integer_class(2) * q, pm;
        mp_fdiv_r(pm, p, two_q);
        double shift = mp_get_d(pm) / mp_get_d(q) * PI;
        bool has_syms = not free_symbols(*r).empty();
        for (int set = 0; set < 3; set++) {
            if (set > 0 and not has_syms)
                break;
            cplx rv;
            if (!num_eval(subs_samples(r, set), rv))
                continue;
            std::vector<cplx> av = {rv + shift};
            cplx ref;
            bool pole = false;
            if (!ref_value(ti->name, av, ref, pole))
                continue;
            B rs = subs_samples(res, set);
            std::string cls = std::string("trig-") + ti->name;
            if (pole) {
                cplx got;
                if (!is_a<Infty>(*rs) and num_eval(rs, got) and std::abs(got) < 1e6)
                    return out + "\t#ORACLE:" + cls + "|pole expected at r + (p mod 2q)/q pi, result evaluates to "
                           + cstr(got);
                continue;
            }
            // near a pole the reference itself is ill-conditioned
            if (std::abs(ref) > 1e4)
                continue;
            if (is_a<Infty>(*rs))
                return out + "\t#ORACLE:" + cls + "|result is infinite, reference " + cstr(ref);
            cplx got;
            if (!num_eval(rs, got))
                continue;
            if (!close_enough(got, ref)) {
                // a huge shift that legitimately survives in the result (pi with a Complex or floating
                // coefficient is not a shift for get_pi_shift, so nothing is reduced) can only be
                // evaluated in double precision: inconclusive
                double ratio = mp_get_d(p) / mp_get_d(q);
                if (std::fabs(ratio) > 1e5) {
                    RCP<const Number> nn;
                    B xx;
                    if (not get_pi_shift(arg, outArg(nn), outArg(xx)))
                        continue;
                }
            }
            if (!close_enough(got, ref))
                return out + "\t#ORACLE:" + cls + "|result evaluates to " + cstr(got) + ", " + ti->name
                       + "(r + (p mod 2q)/q pi) = " + cstr(ref) + " (sample set " + std::to_string(set) + ")";
        }
    } catch (...) {
    }
    return out;
}

static std::vector<std::string> split_recipes(const std::string &s)
{
    // top-level S-expressions / atoms separated by blanks
    std::vector<std::string> v;
    size_t i = 0, n = s.size();
    while (i < n) {
        while (i < n and isspace((unsigned char)s[i]))
            i++;
        if (i >= n)
            break;
        size_t st = i;
        if (s[i] == '(') {
            int depth = 0;
            do {
                if (s[i] == '(') depth++;
                if (s[i] == ')') depth--;
                i++;
            } while (i < n and depth > 0);
        } else {
            while (i < n and !isspace((unsigned char)s[i]))
                i++;
        }
        v.push_back(s.substr(st, i - st));
    }
    return v;
}

static B call_named(const std::string &f, const vec_basic &a)
{
    if (f == "max") return max(a);
    if (f == "min") return min(a);
    if (f == "levi_civita") return levi_civita(a);
    if (f == "primepi") return primepi(a.at(0));
    if (f == "primorial") return primorial(a.at(0));
    if (a.size() == 1) {
        auto it = verif::f1_table().find(f);
        if (it != verif::f1_table().end())
            return it->second(a[0]);
    }
    if (a.size() == 2) {
        auto it = verif::f2_table().find(f);
        if (it != verif::f2_table().end())
            return it->second(a[0], a[1]);
    }
    throw std::runtime_error("unknown function " + f);
}

static std::string dumps(const vec_basic &v)
{
    std::string s;
    for (size_t i = 0; i < v.size(); i++)
        s += (i ? " ;; " : "") + verif::dump(*v[i]);
    return s;
}

static std::string run_N(const std::vector<std::string> &rec, const std::string &op)
{
    B a = verif::eval_recipe(rec.at(0));
    std::string out = "N " + op + " " + verif::dump(*a) + "\t=>\t";
    B res;
    out += exn_or([&]() {
        res = call_named(op, {a});
        if (op == "abs" and not is_a_Number(*res)) {
            B sq = expand(mul(res, res));
            return "SQRT " + verif::dump(*sq);
        }
        return verif::dump(*res);
    });
    if (!res.is_null()) {
        std::string o = value_oracle(op, {a}, res);
        if (o.empty() and op == "sign" and is_a<Sign>(*res)
            and not down_cast<const Sign &>(*res).is_canonical(down_cast<const Sign &>(*res).get_arg()))
            o = "noncanonical|sign returned the non-canonical object " + res->__str__();
        if (!o.empty())
            out += "\t#ORACLE:" + oracle_key(op, {a}, o.substr(0, o.find('|'))) + "|" + o;
    }
    return out;
}

static std::string run_generic(const std::string &fam, const std::string &f, const vec_basic &args, bool model)
{
    std::string out = model ? (fam + " " + f + " " + dumps(args) + "\t=>\t") : std::string("O\t=>\t");
    B res;
    std::string r = exn_or([&]() {
        res = call_named(f, args);
        return verif::dump(*res);
    });
    if (model)
        out += r;
    else
        out += f + " " + arg_class(args) + " " + r;
    if (!res.is_null()) {
        std::string o = value_oracle(f, args, res);
        if (o.empty() and f == "uppergamma" and is_a<LowerGamma>(*res))
            o = "class|uppergamma returned the LowerGamma object " + res->__str__();
        if (!o.empty())
            out += "\t#ORACLE:" + oracle_key(f, args, o.substr(0, o.find('|'))) + "|" + o;
    }
    return out;
}

// primes by trial division (reference for primepi / primorial)
static bool is_prime_ref(unsigned long p)
{
    if (p < 2)
        return false;
    for (unsigned long d = 2; d * d <= p; d++)
        if (p % d == 0)
            return false;
    return true;
}

static std::string run_case(const std::string &line)
{
    std::vector<std::string> tok = verif::split_ws(line);
    if (tok.empty())
        return "SKIP empty";
    const std::string &fam = tok[0];
    if (fam == "T")
        return run_T(tok, line);
    size_t sp = line.find(' ');
    std::string rest = sp == std::string::npos ? "" : line.substr(sp + 1);
    if (fam == "N") {
        size_t sp2 = rest.find(' ');
        return run_N(split_recipes(rest.substr(sp2 + 1)), rest.substr(0, sp2));
    }
    if (fam == "MX" or fam == "O") {
        size_t sp2 = rest.find(' ');
        std::string f = rest.substr(0, sp2);
        vec_basic args;
        for (auto &r : split_recipes(rest.substr(sp2 + 1)))
            args.push_back(verif::eval_recipe(r));
        return run_generic(fam, f, args, fam == "MX");
    }
    if (fam == "KD" or fam == "LC") {
        vec_basic args;
        for (auto &r : split_recipes(rest))
            args.push_back(verif::eval_recipe(r));
        std::string f = fam == "KD" ? "kronecker_delta" : "levi_civita";
        std::string out = fam + " " + dumps(args) + "\t=>\t";
        B res;
        out += exn_or([&]() {
            res = call_named(f, args);
            return verif::dump(*res);
        });
        if (!res.is_null() and fam == "LC") {
            // reference: sign of the permutation when the arguments are a permutation of k..k+n-1
            std::vector<long> v;
            bool ints = true;
            for (auto &a : args) {
                if (!is_a<Integer>(*a)) {
                    ints = false;
                    break;
                }
                v.push_back(down_cast<const Integer &>(*a).as_int());
            }
            if (ints and !v.empty()) {
                std::vector<long> s = v;
                std::sort(s.begin(), s.end());
                bool dup = false, consecutive = true;
                for (size_t i = 1; i < s.size(); i++) {
                    if (s[i] == s[i - 1]) dup = true;
                    if (s[i] != s[i - 1] + 1) consecutive = false;
                }
                long expect = 99;
                if (dup)
                    expect = 0;
                else if (consecutive) {
                    int inv = 0;
                    for (size_t i = 0; i < v.size(); i++)
                        for (size_t j = i + 1; j < v.size(); j++)
                            if (v[i] > v[j]) inv++;
                    expect = (inv % 2) ? -1 : 1;
                }
                if (expect != 99 and not eq(*res, *integer(expect)))
                    out += "\t#ORACLE:levi_civita-value-exact-real|value|expected " + std::to_string(expect) + ", got " + res->__str__();
            }
        }
        if (!res.is_null() and fam == "KD") {
            std::string o = value_oracle(f, args, res);
            if (!o.empty())
                out += "\t#ORACLE:" + oracle_key(f, args, o.substr(0, o.find('|'))) + "|" + o;
        }
        return out;
    }
    if (fam == "G") {
        integer_class p = zparse(tok.at(1)), q = zparse(tok.at(2));
        B a = Rational::from_two_ints(*integer(p), *integer(q));
        std::string out = "G " + verif::dump(*a) + "\t=>\t";
        B res;
        out += exn_or([&]() {
            res = gamma(a);
            if (is_a_Number(*res))
                return verif::dump(*res);
            B c = div(res, sqrt(pi));
            if (is_a_Number(*c))
                return "SQRTPI " + verif::dump(*c);
            return "OTHER " + verif::dump_sorted(*res);
        });
        if (!res.is_null()) {
            std::string o = value_oracle("gamma", {a}, res);
            if (!o.empty())
                out += "\t#ORACLE:" + oracle_key("gamma", {a}, o.substr(0, o.find('|'))) + "|" + o;
        }
        return out;
    }
    if (fam == "PP" or fam == "PR") {
        B a = verif::eval_recipe(rest);
        std::string f = fam == "PP" ? "primepi" : "primorial";
        std::string out = fam + " " + verif::dump(*a) + "\t=>\t";
        B res;
        out += exn_or([&]() {
            res = call_named(f, {a});
            return verif::dump(*res);
        });
        if (!res.is_null() and is_a<Integer>(*a) and is_a<Integer>(*res)) {
            const Integer &n = down_cast<const Integer &>(*a);
            unsigned long lim = 0;
            bool small = n.is_positive() and n.as_integer_class() <= integer_class(2000000);
            if (small)
                lim = n.as_uint();
            else if (n.is_positive())
                lim = 2000000;
            if (n.is_positive()) {
                integer_class cnt(0), prod(1);
                for (unsigned long k = 2; k <= lim; k++)
                    if (is_prime_ref(k)) {
                        cnt += integer_class(1);
                        if (fam == "PR" and small)
                            prod *= integer_class(k);
                    }
                const integer_class &got = down_cast<const Integer &>(*res).as_integer_class();
                if (fam == "PP") {
                    if ((small and got != cnt) or (!small and got < cnt))
                        out += "\t#ORACLE:primepi-" + std::string(small ? "small" : "large") + "|value|primepi("
                               + a->__str__() + ") = " + res->__str__() + " but there are " + (small ? "" : "at least ")
                               + verif::zstr(cnt) + " primes up to " + std::to_string(lim);
                } else if (small and got != prod) {
                    out += "\t#ORACLE:primorial-small|value|primorial(" + a->__str__() + ") = " + res->__str__();
                }
            }
        }
        return out;
    }
    return "SKIP unknown family";
}

int main()
{
    std::vector<std::string> lines;
    std::string line;
    while (std::getline(std::cin, line))
        lines.push_back(line);
    size_t n = lines.size(), start = 0;
    std::vector<std::string> out(n);
    while (start < n) {
        int fd[2];
        if (pipe(fd) != 0)
            return 3;
        fflush(stdout);
        pid_t pid = fork();
        if (pid == 0) {
            close(fd[0]);
            struct rlimit rl;
            rl.rlim_cur = rl.rlim_max = 0;
            setrlimit(RLIMIT_CORE, &rl);
            // a run-away allocation (factorial of a wrapped argument) must not take the machine down
            rl.rlim_cur = rl.rlim_max = (rlim_t)4 << 30;
            setrlimit(RLIMIT_AS, &rl);
            auto send = [&](const std::string &s) {
                size_t off = 0;
                while (off < s.size()) {
                    ssize_t w = write(fd[1], s.data() + off, s.size() - off);
                    if (w <= 0)
                        _exit(4);
                    off += (size_t)w;
                }
            };
            for (size_t i = start; i < n; i++) {
                alarm(40);
                std::string r;
                try {
                    r = run_case(lines[i]);
                } catch (std::exception &e) {
                    r = std::string("SKIP recipe: ") + e.what();
                } catch (...) {
                    r = "UNCAUGHT";
                }
                for (auto &c : r)
                    if (c == '\n')
                        c = ' ';
                send(r + "\n");
            }
            _exit(0);
        }
        close(fd[1]);
        std::string buf;
        char tmp[65536];
        ssize_t r;
        while ((r = read(fd[0], tmp, sizeof tmp)) > 0)
            buf.append(tmp, (size_t)r);
        close(fd[0]);
        int status = 0;
        waitpid(pid, &status, 0);
        size_t i = start, pos = 0;
        while (pos < buf.size() and i < n) {
            size_t nl = buf.find('\n', pos);
            if (nl == std::string::npos)
                break;
            out[i++] = buf.substr(pos, nl - pos);
            pos = nl + 1;
        }
        if (i < n) {
            // the child died while processing line i
            if (WIFSIGNALED(status)) {
                int sig = WTERMSIG(status);
                out[i] = sig == SIGALRM ? "HANG" : "CRASH:" + std::to_string(sig);
            } else {
                out[i] = "CRASH:exit" + std::to_string(WEXITSTATUS(status));
            }
            i++;
        }
        start = i;
    }
    for (auto &s : out)
        std::cout << s << "\n";
    return 0;
}
