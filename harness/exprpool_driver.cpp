// C01/C02 driver.  Input line: recipes separated by " ;; ".  Each recipe is evaluated through the
// public API; failed or unmodelled ("Opaque") results are dropped.  Output (one line):
//   <kept recipe indices, space separated> \t <dumps separated by " ;; "> \t
//   h1 h2 ... || eq rows || cmp rows
// where eq row i = eq(e_i, e_j) for all j as 0/1, cmp row i = e_i->__cmp__(e_j) as - 0 + (or '?'
// for a value outside {-1,0,1}).
#include <symengine/basic.h>
#include <symengine/add.h>
#include <symengine/mul.h>
#include <symengine/pow.h>
#include <symengine/functions.h>
#include <symengine/logic.h>
#include <symengine/sets.h>
#include <symengine/complex.h>
#include <symengine/complex_double.h>
#include <symengine/real_double.h>
#include <symengine/infinity.h>
#include <symengine/nan.h>
#include <symengine/constants.h>
#include <symengine/visitor.h>
#include <symengine/symengine_exception.h>
#include "common.h"
#include "dump.h"
#include "recipe.h"
using namespace SymEngine;

static std::vector<std::string> split_sep(const std::string &s, const std::string &sep)
{
    std::vector<std::string> v;
    size_t st = 0;
    while (true) {
        size_t p = s.find(sep, st);
        if (p == std::string::npos) {
            v.push_back(s.substr(st));
            break;
        }
        v.push_back(s.substr(st, p - st));
        st = p + sep.size();
    }
    return v;
}

static std::string run_pool(const std::string &line)
{
    std::vector<std::string> recipes = split_sep(line, " ;; ");
    // every recipe is evaluated twice so that eq/__cmp__ never see the same object on both
    // sides (eq() has a pointer-identity shortcut)
    std::vector<RCP<const Basic>> es, es2;
    std::vector<std::string> dumps;
    std::ostringstream kept, crashed;
    std::vector<bool> alive = verif::survivors(recipes.size(), [&](size_t i) { verif::eval_recipe(recipes[i]); });
    for (size_t i = 0; i < recipes.size(); i++) {
        if (!alive[i]) {
            crashed << " [" << recipes[i] << "]";
            continue;
        }
        try {
            RCP<const Basic> e = verif::eval_recipe(recipes[i]);
            std::string d = verif::dump(*e);
            if (d.find("Opaque") != std::string::npos)
                continue;
            RCP<const Basic> e2 = verif::eval_recipe(recipes[i]);
            if (verif::dump(*e2) != d)
                continue; // not a function of the recipe (e.g. Dummy counters)
            es.push_back(e);
            es2.push_back(e2);
            dumps.push_back(d);
            kept << (es.size() > 1 ? " " : "") << i;
        } catch (...) {
        }
    }
    std::ostringstream o;
    o << kept.str() << "\t";
    for (size_t i = 0; i < dumps.size(); i++)
        o << (i ? " ;; " : "") << dumps[i];
    o << "\t";
    for (size_t i = 0; i < es.size(); i++)
        o << (i ? " " : "") << es[i]->hash();
    o << " || ";
    for (size_t i = 0; i < es.size(); i++) {
        if (i)
            o << " ";
        for (size_t j = 0; j < es.size(); j++)
            o << (eq(*es[i], *es2[j]) ? "1" : "0");
    }
    o << " || ";
    for (size_t i = 0; i < es.size(); i++) {
        if (i)
            o << " ";
        for (size_t j = 0; j < es.size(); j++) {
            int c = es[i]->__cmp__(*es2[j]);
            o << (c == 0 ? "0" : c == -1 ? "-" : c == 1 ? "+" : "?");
        }
    }
    if (!crashed.str().empty())
        o << "\t#CRASHED:" << crashed.str();
    return o.str();
}

int main()
{
    std::string line;
    while (std::getline(std::cin, line)) {
        std::cout << verif::run_forked([&]() { return run_pool(line); }, 120) << "\n";
    }
    return 0;
}
