// C24 driver: runs one dense-matrix operation per input line on the library and prints the
// same canonical line as the extracted model (ocaml/c24_main.ml), followed by a tab and
// "#ORACLE:<class>|<what>" when the property itself fails on the library's output.  The
// oracle is independent of the library's arithmetic: outputs are converted to GMP mpq and
// multiplied back / compared with a reference elimination, determinant (cofactor expansion
// up to order 5, elimination beyond) and characteristic polynomial computed here.
#include <symengine/matrix.h>
#include <symengine/integer.h>
#include <symengine/rational.h>
#include <symengine/complex.h>
#include <symengine/constants.h>
#include <symengine/nan.h>
#include <symengine/infinity.h>
#include <symengine/symengine_exception.h>
#include "common.h"
#include <gmpxx.h>
#include <algorithm>
using namespace SymEngine;

// ------------------------------------------------------------------ exact reference side
// Gaussian rationals: the field of the reference side (rational entries have im = 0)
struct F {
    mpq_class re, im;
    F() : re(0), im(0) {}
    F(int v) : re(v), im(0) {}
    F(unsigned v) : re(v), im(0) {}
    F(const mpq_class &r) : re(r), im(0) {}
    F(const mpq_class &r, const mpq_class &i) : re(r), im(i) {}
    bool operator==(const F &o) const
    {
        return re == o.re && im == o.im;
    }
    bool operator!=(const F &o) const
    {
        return !(*this == o);
    }
    F operator+(const F &o) const
    {
        return F(re + o.re, im + o.im);
    }
    F operator-(const F &o) const
    {
        return F(re - o.re, im - o.im);
    }
    F operator-() const
    {
        return F(-re, -im);
    }
    F operator*(const F &o) const
    {
        return F(re * o.re - im * o.im, re * o.im + im * o.re);
    }
    F operator/(const F &o) const
    {
        mpq_class n = o.re * o.re + o.im * o.im;
        return F((re * o.re + im * o.im) / n, (im * o.re - re * o.im) / n);
    }
    F &operator+=(const F &o)
    {
        *this = *this + o;
        return *this;
    }
    F &operator-=(const F &o)
    {
        *this = *this - o;
        return *this;
    }
    F &operator*=(const F &o)
    {
        *this = *this * o;
        return *this;
    }
};
static F operator/(int a, const F &b)
{
    return F(a) / b;
}

struct QM {
    unsigned r = 0, c = 0;
    std::vector<F> a;
    QM() {}
    QM(unsigned r_, unsigned c_) : r(r_), c(c_), a((size_t)r_ * c_) {}
    F &at(unsigned i, unsigned j)
    {
        return a[(size_t)i * c + j];
    }
    const F &at(unsigned i, unsigned j) const
    {
        return a[(size_t)i * c + j];
    }
    bool operator==(const QM &o) const
    {
        return r == o.r && c == o.c && a == o.a;
    }
};

static QM q_mul(const QM &A, const QM &B)
{
    QM C(A.r, B.c);
    for (unsigned i = 0; i < A.r; i++)
        for (unsigned j = 0; j < B.c; j++) {
            F s = 0;
            for (unsigned k = 0; k < A.c; k++)
                s += A.at(i, k) * B.at(k, j);
            C.at(i, j) = s;
        }
    return C;
}
static QM q_transpose(const QM &A)
{
    QM T(A.c, A.r);
    for (unsigned i = 0; i < A.r; i++)
        for (unsigned j = 0; j < A.c; j++)
            T.at(j, i) = A.at(i, j);
    return T;
}
static QM q_eye(unsigned n)
{
    QM I(n, n);
    for (unsigned i = 0; i < n; i++)
        I.at(i, i) = 1;
    return I;
}
// reference reduced row echelon form; returns pivot columns
static std::vector<unsigned> q_rref(QM &M)
{
    std::vector<unsigned> piv;
    unsigned row = 0;
    for (unsigned col = 0; col < M.c && row < M.r; col++) {
        unsigned p = row;
        while (p < M.r && M.at(p, col) == 0)
            p++;
        if (p == M.r)
            continue;
        if (p != row)
            for (unsigned k = 0; k < M.c; k++)
                std::swap(M.at(p, k), M.at(row, k));
        F inv = 1 / M.at(row, col);
        for (unsigned k = 0; k < M.c; k++)
            M.at(row, k) *= inv;
        for (unsigned i = 0; i < M.r; i++)
            if (i != row && M.at(i, col) != 0) {
                F f = M.at(i, col);
                for (unsigned k = 0; k < M.c; k++)
                    M.at(i, k) -= f * M.at(row, k);
            }
        piv.push_back(col);
        row++;
    }
    return piv;
}
static unsigned q_rank(QM M)
{
    return (unsigned)q_rref(M).size();
}
static bool q_row_equiv(const QM &A, const QM &B)
{
    if (A.r != B.r || A.c != B.c)
        return false;
    QM a = A, b = B;
    q_rref(a);
    q_rref(b);
    return a == b;
}
static F q_det_cofactor(const QM &A)
{
    unsigned n = A.r;
    if (n == 0)
        return 1;
    if (n == 1)
        return A.at(0, 0);
    F s = 0;
    for (unsigned j = 0; j < n; j++) {
        if (A.at(0, j) == 0)
            continue;
        QM m(n - 1, n - 1);
        for (unsigned i = 1; i < n; i++) {
            unsigned cc = 0;
            for (unsigned k = 0; k < n; k++)
                if (k != j)
                    m.at(i - 1, cc++) = A.at(i, k);
        }
        F t = A.at(0, j) * q_det_cofactor(m);
        if (j % 2)
            s -= t;
        else
            s += t;
    }
    return s;
}
static F q_det_elim(QM M)
{
    unsigned n = M.r;
    F det = 1;
    for (unsigned c = 0; c < n; c++) {
        unsigned p = c;
        while (p < n && M.at(p, c) == 0)
            p++;
        if (p == n)
            return 0;
        if (p != c) {
            for (unsigned k = 0; k < n; k++)
                std::swap(M.at(p, k), M.at(c, k));
            det = -det;
        }
        det *= M.at(c, c);
        for (unsigned i = c + 1; i < n; i++) {
            F f = M.at(i, c) / M.at(c, c);
            for (unsigned k = c; k < n; k++)
                M.at(i, k) -= f * M.at(c, k);
        }
    }
    return det;
}
static F q_det(const QM &A)
{
    return A.r <= 5 ? q_det_cofactor(A) : q_det_elim(A);
}
// characteristic polynomial det(x I - A), highest coefficient first (Faddeev-LeVerrier)
static std::vector<F> q_charpoly(const QM &A)
{
    unsigned n = A.r;
    std::vector<F> c(n + 1);
    c[0] = 1;
    QM M(n, n); // M_0 = 0
    for (unsigned k = 1; k <= n; k++) {
        // M_k = A M_{k-1} + c_{k-1} I
        QM AM = q_mul(A, M);
        for (unsigned i = 0; i < n; i++)
            AM.at(i, i) += c[k - 1];
        M = AM;
        QM AMk = q_mul(A, M);
        F tr = 0;
        for (unsigned i = 0; i < n; i++)
            tr += AMk.at(i, i);
        c[k] = -tr / F(k);
    }
    return c;
}
static bool q_leading_minors_nonzero(const QM &A)
{
    unsigned n = std::min(A.r, A.c);
    for (unsigned k = 1; k <= n; k++) {
        QM m(k, k);
        for (unsigned i = 0; i < k; i++)
            for (unsigned j = 0; j < k; j++)
                m.at(i, j) = A.at(i, j);
        if (q_det(m) == 0)
            return false;
    }
    return true;
}
static bool q_is_lower(const QM &A, bool unit)
{
    for (unsigned i = 0; i < A.r; i++)
        for (unsigned j = 0; j < A.c; j++) {
            if (j > i && A.at(i, j) != 0)
                return false;
            if (unit && j == i && A.at(i, j) != 1)
                return false;
        }
    return true;
}
static bool q_is_upper(const QM &A)
{
    for (unsigned i = 0; i < A.r; i++)
        for (unsigned j = 0; j < A.c && j < i; j++)
            if (A.at(i, j) != 0)
                return false;
    return true;
}
static bool q_is_diag(const QM &A)
{
    return q_is_upper(A) && q_is_lower(A, false);
}
static bool q_is_symmetric(const QM &A)
{
    return A.r == A.c && q_transpose(A) == A;
}
// staircase shape in the first `cols` columns: leading positions strictly increase, zero
// rows (within these columns) come last
static bool q_echelon(const QM &A, unsigned cols)
{
    long prev = -1;
    bool seen_zero = false;
    for (unsigned i = 0; i < A.r; i++) {
        long lead = -1;
        for (unsigned j = 0; j < cols && j < A.c; j++)
            if (A.at(i, j) != 0) {
                lead = j;
                break;
            }
        if (lead < 0) {
            seen_zero = true;
            continue;
        }
        if (seen_zero || lead <= prev)
            return false;
        prev = lead;
    }
    return true;
}
// reduced shape up to row scaling: echelon, and every leading entry is the only non-zero of
// its column
static bool q_reduced(const QM &A)
{
    if (!q_echelon(A, A.c))
        return false;
    for (unsigned i = 0; i < A.r; i++) {
        for (unsigned j = 0; j < A.c; j++)
            if (A.at(i, j) != 0) {
                for (unsigned k = 0; k < A.r; k++)
                    if (k != i && A.at(k, j) != 0)
                        return false;
                break;
            }
    }
    return true;
}

// ------------------------------------------------------------------ library side
static RCP<const Number> parse_rat(const std::string &s)
{
    size_t k = s.find('/');
    if (k == std::string::npos)
        return integer(integer_class(s));
    return Rational::from_two_ints(*integer(integer_class(s.substr(0, k))),
                                   *integer(integer_class(s.substr(k + 1))));
}
// entry syntax: p | p/q | zoo | nan | <re>_<im> (Gaussian rational)
static RCP<const Basic> parse_entry(const std::string &s)
{
    if (s == "zoo")
        return ComplexInf;
    if (s == "nan")
        return Nan;
    size_t u = s.find('_');
    if (u == std::string::npos)
        return parse_rat(s);
    return Complex::from_two_nums(*parse_rat(s.substr(0, u)), *parse_rat(s.substr(u + 1)));
}
static std::string show_entry(const RCP<const Basic> &e)
{
    if (e.is_null())
        return "null";
    if (is_a<Integer>(*e) || is_a<Rational>(*e))
        return e->__str__();
    if (is_a<Complex>(*e)) {
        const Complex &c = down_cast<const Complex &>(*e);
        return c.real_part()->__str__() + "_" + c.imaginary_part()->__str__();
    }
    if (eq(*e, *ComplexInf))
        return "zoo";
    if (is_a<NaN>(*e))
        return "nan";
    return "?" + e->__str__();
}
static bool entry_q(const RCP<const Basic> &e, F &q)
{
    if (e.is_null())
        return false;
    if (is_a<Integer>(*e) || is_a<Rational>(*e)) {
        mpq_class r(e->__str__());
        r.canonicalize();
        q = F(r);
        return true;
    }
    if (is_a<Complex>(*e)) {
        const Complex &c = down_cast<const Complex &>(*e);
        mpq_class r(c.real_part()->__str__()), i(c.imaginary_part()->__str__());
        r.canonicalize();
        i.canonicalize();
        q = F(r, i);
        return true;
    }
    return false;
}
static bool to_q(const DenseMatrix &M, QM &out)
{
    out = QM(M.nrows(), M.ncols());
    vec_basic v = M.as_vec_basic();
    if (v.size() != (size_t)M.nrows() * M.ncols())
        return false;
    for (size_t i = 0; i < v.size(); i++)
        if (!entry_q(v[i], out.a[i]))
            return false;
    return true;
}
static std::string show_m(const DenseMatrix &M)
{
    std::ostringstream o;
    o << "M:" << M.nrows() << ":" << M.ncols() << ":";
    vec_basic v = M.as_vec_basic();
    for (size_t i = 0; i < v.size(); i++)
        o << (i ? "," : "") << show_entry(v[i]);
    return o.str();
}
static std::string show_pl(const permutelist &pl)
{
    std::ostringstream o;
    o << "P:";
    for (size_t i = 0; i < pl.size(); i++)
        o << (i ? "," : "") << pl[i].first << "-" << pl[i].second;
    return o.str();
}
static QM q_permute(QM A, const permutelist &pl)
{
    for (auto &p : pl)
        for (unsigned k = 0; k < A.c; k++)
            std::swap(A.at(p.first, k), A.at(p.second, k));
    return A;
}

struct Toks {
    std::vector<std::string> t;
    size_t p = 1;
    std::string next()
    {
        if (p >= t.size())
            throw std::runtime_error("missing token");
        return t[p++];
    }
    unsigned uns()
    {
        return (unsigned)std::stoul(next());
    }
    DenseMatrix matrix()
    {
        unsigned r = uns(), c = uns();
        std::string es = next();
        vec_basic v;
        if (es != "-") {
            std::istringstream is(es);
            std::string e;
            while (std::getline(is, e, ','))
                v.push_back(parse_entry(e));
        }
        return DenseMatrix(r, c, v);
    }
};

struct Out {
    std::ostringstream canon, oracle;
    bool first = true;
    void field(const std::string &s)
    {
        if (!first)
            canon << ";";
        first = false;
        canon << s;
    }
    void fail(const std::string &cls, const std::string &what)
    {
        if (oracle.str().empty())
            oracle << cls << "|" << what;
    }
    std::string str()
    {
        std::string s = canon.str();
        if (!oracle.str().empty())
            s += "\t#ORACLE:" + oracle.str();
        return s;
    }
};

// oracle for x = solve(A, b) / B = inverse(A) style results.  `what` names the routine.
// rule: a finite result must satisfy A x = b; a non-finite result or an exception is a
// failure exactly when A is non-singular (a solution exists and is unique).
static void solve_oracle(Out &o, const std::string &what, const QM &A, const QM &b, bool have_x,
                         const DenseMatrix *x, bool threw)
{
    bool nonsing = A.r == A.c && q_det(A) != 0;
    std::string tag = nonsing ? (q_leading_minors_nonzero(A) ? "nonsingular" : "nonsingular-zero-leading-minor")
                              : "singular";
    if (threw) {
        if (nonsing)
            o.fail(what + ":exception-" + tag, "exception although the matrix is non-singular");
        return;
    }
    QM X;
    if (!have_x || !to_q(*x, X)) {
        if (nonsing)
            o.fail(what + ":nonfinite-" + tag,
                   "result has entries that are not rational numbers although the matrix is non-singular");
        return;
    }
    if (!(q_mul(A, X) == b))
        o.fail(what + ":wrong-" + tag, "A * result differs from the right-hand side");
}

static std::string run_case(const std::string &line)
{
    Toks tk;
    tk.t = verif::split_ws(line);
    tk.p = 1;
    if (tk.t.empty())
        return "BADCASE";
    const std::string op = tk.t[0];
    Out o;
    try {
        if (op == "add" || op == "emul") {
            DenseMatrix A = tk.matrix(), B = tk.matrix();
            DenseMatrix C(A.nrows(), A.ncols());
            if (op == "add")
                add_dense_dense(A, B, C);
            else
                elementwise_mul_dense_dense(A, B, C);
            o.field(show_m(C));
            QM a, b, c;
            if (to_q(A, a) && to_q(B, b) && a.r == b.r && a.c == b.c) {
                QM e(a.r, a.c);
                for (size_t i = 0; i < e.a.size(); i++)
                    e.a[i] = op == "add" ? (a.a[i] + b.a[i]) : (a.a[i] * b.a[i]);
                if (!to_q(C, c) || !(c == e))
                    o.fail(op + ":wrong", "entrywise result differs");
            }
            if (A.nrows() == B.nrows() && A.ncols() == B.ncols()) {
                DenseMatrix X = A, Y = B;
                if (op == "add") {
                    add_dense_dense(X, B, X);
                    add_dense_dense(A, Y, Y);
                } else {
                    elementwise_mul_dense_dense(X, B, X);
                    elementwise_mul_dense_dense(A, Y, Y);
                }
                if (show_m(X) != show_m(C) || show_m(Y) != show_m(C))
                    o.fail(op + ":aliased", "result stored into an operand differs from the result in a fresh matrix");
            }
        } else if (op == "adds" || op == "muls") {
            DenseMatrix A = tk.matrix();
            RCP<const Basic> k = parse_entry(tk.next());
            DenseMatrix C(A.nrows(), A.ncols());
            if (op == "adds")
                add_dense_scalar(A, k, C);
            else
                mul_dense_scalar(A, k, C);
            o.field(show_m(C));
            QM a, c;
            F kq;
            if (to_q(A, a) && entry_q(k, kq)) {
                QM e(a.r, a.c);
                for (size_t i = 0; i < e.a.size(); i++)
                    e.a[i] = op == "adds" ? (a.a[i] + kq) : (a.a[i] * kq);
                if (!to_q(C, c) || !(c == e))
                    o.fail(op + ":wrong", "entrywise result differs");
            }
        } else if (op == "mul") {
            DenseMatrix A = tk.matrix(), B = tk.matrix();
            DenseMatrix C(A.nrows(), B.ncols());
            mul_dense_dense(A, B, C);
            o.field(show_m(C));
            QM a, b, c;
            if (to_q(A, a) && to_q(B, b) && a.c == b.r) {
                if (!to_q(C, c) || !(c == q_mul(a, b)))
                    o.fail("mul:wrong", "product differs from the sum of products");
            }
            // the result matrix may be one of the operands (DenseMatrix::mul_matrix(B, B) is a public use)
            if (A.nrows() == A.ncols()) {
                DenseMatrix Y = B;
                mul_dense_dense(A, Y, Y);
                if (show_m(Y) != show_m(C))
                    o.fail("mul:aliased", "mul_dense_dense(A, B, B) differs from the product in a fresh matrix");
                DenseMatrix Z = B;
                A.mul_matrix(Z, Z);
                if (show_m(Z) != show_m(C))
                    o.fail("mul:aliased", "A.mul_matrix(B, B) differs from the product in a fresh matrix");
            }
            if (B.nrows() == B.ncols()) {
                DenseMatrix X = A;
                mul_dense_dense(X, B, X);
                if (show_m(X) != show_m(C))
                    o.fail("mul:aliased", "mul_dense_dense(A, B, A) differs from the product in a fresh matrix");
            }
            if (A.nrows() == A.ncols()) {
                DenseMatrix X = A, S(A.nrows(), A.ncols());
                mul_dense_dense(A, A, S);
                mul_dense_dense(X, X, X);
                if (show_m(X) != show_m(S))
                    o.fail("mul:aliased", "mul_dense_dense(A, A, A) differs from the square in a fresh matrix");
            }
        } else if (op == "transpose") {
            DenseMatrix A = tk.matrix();
            DenseMatrix B(A.ncols(), A.nrows());
            transpose_dense(A, B);
            o.field(show_m(B));
            QM a, b;
            if (to_q(A, a) && (!to_q(B, b) || !(b == q_transpose(a))))
                o.fail("transpose:wrong", "B[j][i] != A[i][j]");
        } else if (op == "submatrix") {
            DenseMatrix A = tk.matrix();
            unsigned rs = tk.uns(), cs = tk.uns(), re = tk.uns(), ce = tk.uns(), rst = tk.uns(),
                     cst = tk.uns();
            DenseMatrix B(re - rs + 1, ce - cs + 1);
            zeros(B);
            submatrix_dense(A, B, rs, cs, re, ce, rst, cst);
            o.field(show_m(B));
            QM a, b;
            if (to_q(A, a) && rst == 1 && cst == 1 && re < a.r && ce < a.c) {
                bool ok = to_q(B, b);
                for (unsigned i = 0; ok && i < b.r; i++)
                    for (unsigned j = 0; j < b.c; j++)
                        if (b.at(i, j) != a.at(rs + i, cs + j))
                            ok = false;
                if (!ok)
                    o.fail("submatrix:wrong", "B[i][j] != A[row_start+i][col_start+j]");
            }
        } else if (op == "row_insert" || op == "col_insert" || op == "row_join"
                   || op == "col_join") {
            DenseMatrix A = tk.matrix(), B = tk.matrix();
            unsigned pos = 0;
            if (op == "row_insert" || op == "col_insert")
                pos = tk.uns();
            QM a, b;
            bool fin = to_q(A, a) && to_q(B, b);
            if (op == "row_insert")
                A.row_insert(B, pos);
            else if (op == "col_insert")
                A.col_insert(B, pos);
            else if (op == "row_join") {
                pos = A.ncols();
                A.row_join(B);
            } else {
                pos = A.nrows();
                A.col_join(B);
            }
            o.field(show_m(A));
            if (fin) {
                bool rows = (op == "row_insert" || op == "col_join");
                QM e = rows ? QM(a.r + b.r, a.c) : QM(a.r, a.c + b.c), r;
                for (unsigned i = 0; i < e.r; i++)
                    for (unsigned j = 0; j < e.c; j++) {
                        unsigned t = rows ? i : j;
                        unsigned n = rows ? b.r : b.c;
                        if (t < pos)
                            e.at(i, j) = a.at(i, j);
                        else if (t < pos + n)
                            e.at(i, j) = rows ? b.at(i - pos, j) : b.at(i, j - pos);
                        else
                            e.at(i, j) = rows ? a.at(i - n, j) : a.at(i, j - n);
                    }
                if (!to_q(A, r) || !(r == e))
                    o.fail(op + ":wrong", "joined matrix differs");
            }
        } else if (op == "row_del" || op == "col_del") {
            DenseMatrix A = tk.matrix();
            unsigned k = tk.uns();
            QM a;
            bool fin = to_q(A, a);
            if (op == "row_del")
                A.row_del(k);
            else
                A.col_del(k);
            o.field(show_m(A));
            if (fin && ((op == "row_del" && a.r > 1) || (op == "col_del" && a.c > 1))) {
                bool rows = op == "row_del";
                QM e = rows ? QM(a.r - 1, a.c) : QM(a.r, a.c - 1), r;
                for (unsigned i = 0; i < e.r; i++)
                    for (unsigned j = 0; j < e.c; j++)
                        e.at(i, j) = rows ? a.at(i < k ? i : i + 1, j) : a.at(i, j < k ? j : j + 1);
                if (!to_q(A, r) || !(r == e))
                    o.fail(op + ":wrong", "matrix after deletion differs");
            }
        } else if (op == "row_exchange" || op == "col_exchange") {
            DenseMatrix A = tk.matrix();
            unsigned i = tk.uns(), j = tk.uns();
            QM a, r;
            bool fin = to_q(A, a);
            if (op == "row_exchange")
                row_exchange_dense(A, i, j);
            else
                column_exchange_dense(A, i, j);
            o.field(show_m(A));
            if (fin) {
                QM e = a;
                if (op == "row_exchange")
                    for (unsigned k = 0; k < a.c; k++)
                        std::swap(e.at(i, k), e.at(j, k));
                else
                    for (unsigned k = 0; k < a.r; k++)
                        std::swap(e.at(k, i), e.at(k, j));
                if (!to_q(A, r) || !(r == e))
                    o.fail(op + ":wrong", "exchange differs");
            }
        } else if (op == "row_mul_scalar") {
            DenseMatrix A = tk.matrix();
            unsigned i = tk.uns();
            RCP<const Basic> c = parse_entry(tk.next());
            QM a, r;
            F cq;
            bool fin = to_q(A, a) && entry_q(c, cq);
            row_mul_scalar_dense(A, i, c);
            o.field(show_m(A));
            if (fin) {
                QM e = a;
                for (unsigned k = 0; k < a.c; k++)
                    e.at(i, k) *= cq;
                if (!to_q(A, r) || !(r == e))
                    o.fail(op + ":wrong", "row scaling differs");
            }
        } else if (op == "row_add_row") {
            DenseMatrix A = tk.matrix();
            unsigned i = tk.uns(), j = tk.uns();
            RCP<const Basic> c = parse_entry(tk.next());
            QM a, r;
            F cq;
            bool fin = to_q(A, a) && entry_q(c, cq);
            row_add_row_dense(A, i, j, c);
            o.field(show_m(A));
            if (fin) {
                QM e = a;
                for (unsigned k = 0; k < a.c; k++)
                    e.at(i, k) += cq * a.at(j, k);
                if (!to_q(A, r) || !(r == e))
                    o.fail(op + ":wrong", "row addition differs");
            }
        } else if (op == "pge" || op == "pffge" || op == "pgj" || op == "pffgj" || op == "ffge"
                   || op == "ffgj") {
            DenseMatrix A = tk.matrix();
            DenseMatrix B(A.nrows(), A.ncols());
            permutelist pl;
            bool pivoted = op[0] == 'p';
            if (op == "pge")
                pivoted_gaussian_elimination(A, B, pl);
            else if (op == "pffge")
                pivoted_fraction_free_gaussian_elimination(A, B, pl);
            else if (op == "pgj")
                pivoted_gauss_jordan_elimination(A, B, pl);
            else if (op == "pffgj")
                pivoted_fraction_free_gauss_jordan_elimination(A, B, pl);
            else if (op == "ffge")
                fraction_free_gaussian_elimination(A, B);
            else
                fraction_free_gauss_jordan_elimination(A, B);
            o.field(show_m(B));
            if (pivoted)
                o.field(show_pl(pl));
            QM a, b;
            if (to_q(A, a)) {
                bool jordan = (op == "pgj" || op == "pffgj" || op == "ffgj");
                // class of the input: does the elimination meet a column without pivot
                // before the rows are exhausted (rank-deficient leading columns)?
                unsigned lead_cols = jordan ? a.c : (a.c ? a.c - 1 : 0);
                QM lead(a.r, std::min(lead_cols, a.c));
                for (unsigned i = 0; i < lead.r; i++)
                    for (unsigned j = 0; j < lead.c; j++)
                        lead.at(i, j) = a.at(i, j);
                QM leadr = lead;
                std::vector<unsigned> piv = q_rref(leadr);
                bool skipped = false;
                for (size_t t = 0; t < piv.size(); t++)
                    if (piv[t] != t)
                        skipped = true;
                if (piv.size() < std::min(lead.r, lead.c))
                    skipped = true;
                std::string tag = pivoted ? (skipped ? "skipped-column" : "full-column-rank")
                                          : (q_leading_minors_nonzero(lead) ? "nonzero-minors"
                                                                            : "zero-leading-minor");
                if (!to_q(B, b))
                    o.fail(op + ":nonfinite-" + tag, "result has entries that are not rational numbers");
                else if (!q_row_equiv(a, b))
                    o.fail(op + ":not-row-equivalent-" + tag,
                           "result is not row equivalent to the input");
                else if (jordan ? !q_reduced(b) : !q_echelon(b, lead_cols))
                    o.fail(op + ":not-echelon-" + tag,
                           jordan ? "result is not in reduced echelon shape"
                                  : "result is not in echelon shape");
            }
        } else if (op == "rref") {
            DenseMatrix A = tk.matrix();
            bool nl = tk.next() == "1";
            DenseMatrix B(A.nrows(), A.ncols());
            vec_uint pc;
            reduced_row_echelon_form(A, B, pc, nl);
            o.field(show_m(B));
            {
                std::ostringstream s;
                s << "C:";
                for (size_t i = 0; i < pc.size(); i++)
                    s << (i ? "," : "") << pc[i];
                o.field(s.str());
            }
            QM a, b;
            if (to_q(A, a)) {
                QM e = a;
                std::vector<unsigned> piv = q_rref(e);
                std::string nm = nl ? "rref-normalize-last" : "rref";
                if (!to_q(B, b))
                    o.fail(nm + ":nonfinite", "result has entries that are not rational numbers");
                else if (!(b == e))
                    o.fail(nm + ":wrong", "result is not the reduced row echelon form");
                else if (std::vector<unsigned>(pc.begin(), pc.end()) != piv)
                    o.fail(nm + ":pivots", "pivot columns differ (rank would be wrong)");
            }
        } else if (op == "diag_solve" || op == "back_sub" || op == "fwd_sub") {
            DenseMatrix A = tk.matrix(), b = tk.matrix();
            DenseMatrix x(A.ncols(), b.ncols());
            if (op == "diag_solve")
                diagonal_solve(A, b, x);
            else if (op == "back_sub")
                back_substitution(A, b, x);
            else
                forward_substitution(A, b, x);
            o.field(show_m(x));
            QM a, bb, xx;
            if (to_q(A, a) && to_q(b, bb) && a.r == a.c && bb.r == a.r && q_det(a) != 0) {
                bool applicable = op == "diag_solve" ? q_is_diag(a)
                                  : op == "back_sub" ? q_is_upper(a)
                                                     : q_is_lower(a, true);
                if (applicable) {
                    if (!to_q(x, xx))
                        o.fail(op + ":nonfinite", "result has entries that are not rational numbers");
                    else if (!(q_mul(a, xx) == bb))
                        o.fail(op + ":wrong", "A * x != b");
                }
            }
        } else if (op == "ffge_solve" || op == "ffgj_solve" || op == "fflu_solve" || op == "lu_solve"
                   || op == "plu_solve" || op == "ldl_solve") {
            DenseMatrix A = tk.matrix(), b = tk.matrix();
            bool piv = true;
            if (op == "ffgj_solve")
                piv = tk.next() == "1";
            DenseMatrix x(A.ncols(), b.ncols());
            QM a, bb;
            bool fin = to_q(A, a) && to_q(b, bb) && a.r == a.c && bb.r == a.r;
            if (op == "ldl_solve" && fin && !q_is_symmetric(a))
                fin = false; // LDL_solve is specified for symmetric matrices only
            std::string nm = op == "ffgj_solve" && !piv ? "ffgj_solve-nopivot" : op;
            bool threw = false;
            std::string ex;
            try {
                if (op == "ffge_solve")
                    fraction_free_gaussian_elimination_solve(A, b, x);
                else if (op == "ffgj_solve")
                    fraction_free_gauss_jordan_solve(A, b, x, piv);
                else if (op == "fflu_solve")
                    fraction_free_LU_solve(A, b, x);
                else if (op == "lu_solve")
                    LU_solve(A, b, x);
                else if (op == "plu_solve")
                    pivoted_LU_solve(A, b, x);
                else
                    LDL_solve(A, b, x);
            } catch (...) {
                threw = true;
                ex = verif::exn_name();
            }
            o.field(threw ? ex : show_m(x));
            if (fin)
                solve_oracle(o, nm, a, bb, !threw, &x, threw);
        } else if (op == "inv_fflu" || op == "inv_lu" || op == "inv_plu" || op == "inv_gj") {
            DenseMatrix A = tk.matrix();
            DenseMatrix B(A.nrows(), A.ncols());
            QM a;
            bool fin = to_q(A, a) && a.r == a.c;
            bool threw = false;
            std::string ex;
            try {
                if (op == "inv_fflu")
                    inverse_fraction_free_LU(A, B);
                else if (op == "inv_lu")
                    inverse_LU(A, B);
                else if (op == "inv_plu")
                    inverse_pivoted_LU(A, B);
                else
                    inverse_gauss_jordan(A, B);
            } catch (...) {
                threw = true;
                ex = verif::exn_name();
            }
            o.field(threw ? ex : show_m(B));
            if (fin) {
                solve_oracle(o, op, a, q_eye(a.r), !threw, &B, threw);
                QM bq;
                if (!threw && to_q(B, bq) && o.oracle.str().empty() && !(q_mul(bq, a) == q_eye(a.r)))
                    o.fail(op + ":wrong-left", "result * A is not the identity");
            }
        } else if (op == "fflu") {
            DenseMatrix A = tk.matrix();
            DenseMatrix LUm(A.nrows(), A.ncols());
            fraction_free_LU(A, LUm);
            o.field(show_m(LUm));
            // not a factorisation of A (see the comment in the source): exercised through
            // fraction_free_LU_solve / inverse_fraction_free_LU
        } else if (op == "lu" || op == "plu") {
            DenseMatrix A = tk.matrix();
            DenseMatrix L(A.nrows(), A.ncols()), U(A.nrows(), A.ncols());
            permutelist pl;
            QM a;
            bool fin = to_q(A, a) && a.r == a.c;
            bool threw = false;
            std::string ex;
            try {
                if (op == "lu")
                    LU(A, L, U);
                else
                    pivoted_LU(A, L, U, pl);
            } catch (...) {
                threw = true;
                ex = verif::exn_name();
            }
            if (threw)
                o.field(ex);
            else {
                o.field(show_m(L));
                o.field(show_m(U));
                if (op == "plu")
                    o.field(show_pl(pl));
            }
            if (fin) {
                bool nonsing = q_det(a) != 0;
                bool minors = q_leading_minors_nonzero(a);
                std::string tag = op == "plu" ? (nonsing ? "nonsingular" : "singular")
                                              : (minors ? "nonzero-minors" : "zero-leading-minor");
                QM l, u;
                if (threw) {
                    if (op == "lu" || nonsing)
                        o.fail(op + ":exception-" + tag, "exception");
                } else if (!to_q(L, l) || !to_q(U, u)) {
                    o.fail(op + ":nonfinite-" + tag, "factors have entries that are not rational numbers");
                } else if (!(q_mul(l, u) == q_permute(a, pl))) {
                    o.fail(op + ":wrong-" + tag, "L * U differs from the (permuted) input");
                } else if (!q_is_lower(l, true) || !q_is_upper(u)) {
                    o.fail(op + ":shape-" + tag, "L is not unit lower triangular or U is not upper triangular");
                } else if (op == "plu" && !nonsing) {
                    // a singular matrix may still have a PLU factorisation; the code
                    // promises an exception only when a column has no pivot
                }
            }
        } else if (op == "ffldu") {
            DenseMatrix A = tk.matrix();
            DenseMatrix L(A.nrows(), A.ncols()), D(A.nrows(), A.ncols()), U(A.nrows(), A.ncols());
            fraction_free_LDU(A, L, D, U);
            o.field(show_m(L));
            o.field(show_m(D));
            o.field(show_m(U));
            QM a, l, d, u;
            if (to_q(A, a) && a.r == a.c) {
                bool minors = q_leading_minors_nonzero(a);
                std::string tag = minors ? "nonzero-minors" : "zero-leading-minor";
                if (!to_q(L, l) || !to_q(D, d) || !to_q(U, u))
                    o.fail("ffldu:nonfinite-" + tag, "factors have entries that are not rational numbers");
                else if (!q_is_diag(d) || q_det(d) == 0) {
                    if (minors)
                        o.fail("ffldu:singular-D-" + tag, "D is not an invertible diagonal matrix");
                } else {
                    QM dinv = d;
                    for (unsigned i = 0; i < d.r; i++)
                        dinv.at(i, i) = 1 / d.at(i, i);
                    if (!(q_mul(q_mul(l, dinv), u) == a))
                        o.fail("ffldu:wrong-" + tag, "L * D^-1 * U differs from the input");
                    else if (!q_is_lower(l, false) || !q_is_upper(u))
                        o.fail("ffldu:shape-" + tag, "L is not lower or U is not upper triangular");
                }
            }
        } else if (op == "ldl") {
            DenseMatrix A = tk.matrix();
            DenseMatrix L(A.nrows(), A.ncols()), D(A.nrows(), A.ncols());
            LDL(A, L, D);
            o.field(show_m(L));
            o.field(show_m(D));
            QM a, l, d;
            if (to_q(A, a) && q_is_symmetric(a)) {
                bool minors = q_leading_minors_nonzero(a);
                std::string tag = minors ? "nonzero-minors" : "zero-leading-minor";
                if (!to_q(L, l) || !to_q(D, d))
                    o.fail("ldl:nonfinite-" + tag, "factors have entries that are not rational numbers");
                else if (!(q_mul(q_mul(l, d), q_transpose(l)) == a))
                    o.fail("ldl:wrong-" + tag, "L * D * L^T differs from the input");
                else if (!q_is_lower(l, true) || !q_is_diag(d))
                    o.fail("ldl:shape-" + tag, "L is not unit lower triangular or D is not diagonal");
            }
        } else if (op == "cholesky") {
            DenseMatrix A = tk.matrix();
            DenseMatrix L(A.nrows(), A.ncols());
            cholesky(A, L);
            QM a, l;
            bool rational = to_q(L, l);
            bool symbolic = false;
            {
                // a square root that is not an exact rational appeared (symbolic, or imaginary
                // for a negative radicand): outside the modelled fragment
                vec_basic v = L.as_vec_basic();
                for (auto &e : v)
                    if (!e.is_null() && !(is_a<Integer>(*e) || is_a<Rational>(*e) || is_a<NaN>(*e)
                                          || eq(*e, *ComplexInf)))
                        symbolic = true;
                if (symbolic)
                    rational = false;
            }
            o.field(symbolic ? "EXN:96" : show_m(L));
            if (to_q(A, a) && q_is_symmetric(a) && rational) {
                if (!(q_mul(l, q_transpose(l)) == a))
                    o.fail("cholesky:wrong", "L * L^T differs from the input");
                else if (!q_is_lower(l, false))
                    o.fail("cholesky:shape", "L is not lower triangular");
            }
        } else if (op == "qr") {
            // not modelled (symbolic square roots in general): oracle only, on inputs whose
            // Gram-Schmidt norms are rational
            DenseMatrix A = tk.matrix();
            DenseMatrix Q(A.nrows(), A.ncols()), R(A.ncols(), A.ncols());
            QR(A, Q, R);
            o.field(show_m(Q));
            o.field(show_m(R));
            QM a, q, r;
            if (to_q(A, a) && to_q(Q, q) && to_q(R, r)) {
                if (!(q_mul(q, r) == a))
                    o.fail("qr:wrong", "Q * R differs from the input");
                else if (!(q_mul(q_transpose(q), q) == q_eye(a.c)))
                    o.fail("qr:not-orthonormal", "Q^T * Q is not the identity");
                else if (!q_is_upper(r))
                    o.fail("qr:shape", "R is not upper triangular");
            }
        } else if (op == "det_bareis" || op == "det_berkowitz") {
            DenseMatrix A = tk.matrix();
            RCP<const Basic> d = op == "det_bareis" ? det_bareis(A) : det_berkowitz(A);
            o.field("S:" + show_entry(d));
            QM a;
            F dq;
            if (to_q(A, a) && a.r == a.c) {
                bool sing = q_det(a) == 0;
                if (!entry_q(d, dq))
                    o.fail(op + ":nonfinite-" + (sing ? "singular" : "nonsingular"),
                           "determinant is not a rational number");
                else if (dq != q_det(a))
                    o.fail(op + ":wrong-" + (sing ? "singular" : "nonsingular"),
                           "determinant differs from the cofactor expansion");
            }
        } else if (op == "char_poly") {
            DenseMatrix A = tk.matrix();
            DenseMatrix B(A.nrows() + 1, 1);
            char_poly(A, B);
            o.field(show_m(B));
            QM a, b;
            if (to_q(A, a) && a.r == a.c) {
                std::vector<F> e = q_charpoly(a);
                if (!to_q(B, b) || b.a != e)
                    o.fail("char_poly:wrong", "coefficients differ from det(x I - A)");
            }
        } else if (op == "berkowitz") {
            DenseMatrix A = tk.matrix();
            std::vector<DenseMatrix> polys;
            berkowitz(A, polys);
            std::ostringstream s;
            s << "L:";
            for (size_t i = 0; i < polys.size(); i++) {
                vec_basic v = polys[i].as_vec_basic();
                s << (i ? "|" : "");
                for (size_t j = 0; j < v.size(); j++)
                    s << (j ? "," : "") << show_entry(v[j]);
            }
            o.field(s.str());
            QM a;
            if (to_q(A, a) && a.r == a.c) {
                for (size_t k = 0; k < polys.size(); k++) {
                    QM lead(k + 1, k + 1), p;
                    for (unsigned i = 0; i <= k; i++)
                        for (unsigned j = 0; j <= k; j++)
                            lead.at(i, j) = a.at(i, j);
                    if (!to_q(polys[k], p) || p.a != q_charpoly(lead)) {
                        o.fail("berkowitz:wrong", "characteristic polynomial of a leading block differs");
                        break;
                    }
                }
                if (polys.size() != a.r)
                    o.fail("berkowitz:count", "number of polynomials differs from the order");
            }
        } else if (op == "is_sym" || op == "is_lower" || op == "is_upper") {
            DenseMatrix A = tk.matrix();
            bool r = op == "is_sym" ? is_symmetric_dense(A) : op == "is_lower" ? A.is_lower() : A.is_upper();
            o.field(r ? "B:1" : "B:0");
            QM a;
            // is_lower()/is_upper() answer for the *other* triangle (the unit tests of the library
            // pin this down); only is_symmetric_dense has an oracle
            if (op == "is_sym" && to_q(A, a) && a.r == a.c) {
                if (q_is_symmetric(a) != r)
                    o.fail(op + ":wrong", "predicate differs");
            }
        } else if (op == "trace") {
            DenseMatrix A = tk.matrix();
            RCP<const Basic> t = A.trace();
            o.field("S:" + show_entry(t));
            QM a;
            F tq;
            if (to_q(A, a) && a.r == a.c) {
                F e = 0;
                for (unsigned i = 0; i < a.r; i++)
                    e += a.at(i, i);
                if (!entry_q(t, tq) || tq != e)
                    o.fail("trace:wrong", "trace differs");
            }
        } else if (op == "eye") {
            unsigned r = tk.uns(), c = tk.uns();
            DenseMatrix A(r, c);
            eye(A);
            o.field(show_m(A));
            QM a;
            if (r == c && (!to_q(A, a) || !(a == q_eye(r))))
                o.fail("eye:wrong", "not the identity");
        } else {
            return "BADOP";
        }
    } catch (const std::runtime_error &e) {
        if (std::string(e.what()) == "missing token")
            return "BADCASE";
        return verif::exn_name();
    } catch (...) {
        return verif::exn_name();
    }
    return o.str();
}

// Run all cases in forked children, one child for as many consecutive cases as survive: the
// child reports one line per case through a pipe; when it dies (signal) or hangs (alarm) the
// case being processed gets CRASH:<sig> / HANG and a fresh child continues with the next one.
static void run_batched(const std::vector<std::string> &cases, unsigned timeout_s)
{
    size_t start = 0;
    while (start < cases.size()) {
        int fd[2];
        if (pipe(fd) != 0)
            return;
        fflush(stdout);
        pid_t pid = fork();
        if (pid == 0) {
            close(fd[0]);
            struct rlimit rl;
            rl.rlim_cur = rl.rlim_max = 0;
            setrlimit(RLIMIT_CORE, &rl);
            for (size_t i = start; i < cases.size(); i++) {
                alarm(timeout_s);
                std::string r;
                try {
                    r = run_case(cases[i]);
                } catch (...) {
                    r = "UNCAUGHT";
                }
                r += "\n";
                size_t off = 0;
                while (off < r.size()) {
                    ssize_t w = write(fd[1], r.data() + off, r.size() - off);
                    if (w <= 0)
                        _exit(1);
                    off += (size_t)w;
                }
            }
            close(fd[1]);
            _exit(0);
        }
        close(fd[1]);
        std::string buf;
        char tmp[65536];
        ssize_t n;
        size_t done = 0;
        while ((n = read(fd[0], tmp, sizeof tmp)) > 0) {
            buf.append(tmp, (size_t)n);
            size_t pos;
            while ((pos = buf.find('\n')) != std::string::npos) {
                std::cout << buf.substr(0, pos) << "\n";
                buf.erase(0, pos + 1);
                done++;
            }
        }
        close(fd[0]);
        int status = 0;
        waitpid(pid, &status, 0);
        if (start + done >= cases.size())
            break;
        // the child died while processing case start + done
        if (WIFSIGNALED(status) && WTERMSIG(status) == SIGALRM)
            std::cout << "HANG\n";
        else if (WIFSIGNALED(status))
            std::cout << "CRASH:" << WTERMSIG(status) << "\n";
        else
            std::cout << "CRASH:exit\n";
        start = start + done + 1;
    }
    std::cout.flush();
}

int main()
{
    std::vector<std::string> cases;
    std::string line;
    while (std::getline(std::cin, line))
        cases.push_back(line);
    run_batched(cases, 30);
    return 0;
}
