// Recipes: small S-expressions denoting sequences of public API calls, evaluated on the
// library.  Shared by all expression-level drivers.  Include <symengine/...> headers and
// dump.h before this file.
//
//   numbers : (i 5) (q 3 7) (c rn rd in id) (d <16 hex>) (cd <hex> <hex>) oo -oo zoo nan
//   atoms   : (s name) (dum name) pi E I EulerGamma Catalan GoldenRatio true false
//             emptyset universalset reals rationals integers naturals naturals0 complexes
//   arith   : (add a b) (sub a b) (mul a b) (div a b) (pow a b) (neg a) (addv a...) (mulv a...)
//             (sqrt a) (cbrt a) (exp a)
//   funcs   : (f1 <name> a)  (f2 <name> a b)  (max a...) (min a...) (fs <name> a...) (levi a...)
//   logic   : (eq a b) (ne a b) (lt a b) (le a b) (gt a b) (ge a b) (and a...) (or a...) (not a)
//             (xor a...) (nand a...) (nor a...) (xnor a...) (contains e s) (pw e c e c ...)
//   sets    : (interval a b lo ro) (fset a...) (union a...) (isect a...) (compl universe a)
//   transf. : (expand a) (diff a x) (subs a k v k v ...) (xreplace a k v ...) (deriv a x...)
#pragma once
#include <map>
#include <stdexcept>

namespace verif
{
using namespace SymEngine;

struct Sexp {
    std::string atom;
    std::vector<Sexp> kids;
    bool is_atom = false;
};

inline Sexp parse_sexp(const std::string &s, size_t &pos)
{
    while (pos < s.size() && isspace((unsigned char)s[pos]))
        pos++;
    Sexp r;
    if (pos >= s.size())
        throw std::runtime_error("sexp: unexpected end");
    if (s[pos] == '(') {
        pos++;
        while (true) {
            while (pos < s.size() && isspace((unsigned char)s[pos]))
                pos++;
            if (pos >= s.size())
                throw std::runtime_error("sexp: missing )");
            if (s[pos] == ')') {
                pos++;
                break;
            }
            r.kids.push_back(parse_sexp(s, pos));
        }
    } else {
        size_t st = pos;
        while (pos < s.size() && !isspace((unsigned char)s[pos]) && s[pos] != '(' && s[pos] != ')')
            pos++;
        r.atom = s.substr(st, pos - st);
        r.is_atom = true;
    }
    return r;
}

inline Sexp parse_sexp(const std::string &s)
{
    size_t pos = 0;
    return parse_sexp(s, pos);
}

inline double dbl_of_hex(const std::string &h)
{
    uint64_t u = std::stoull(h, nullptr, 16);
    double d;
    std::memcpy(&d, &u, 8);
    return d;
}

typedef RCP<const Basic> (*fn1)(const RCP<const Basic> &);
typedef RCP<const Basic> (*fn2)(const RCP<const Basic> &, const RCP<const Basic> &);

inline const std::map<std::string, fn1> &f1_table()
{
    static const std::map<std::string, fn1> t = {
        {"sin", sin},         {"cos", cos},     {"tan", tan},       {"cot", cot},
        {"sec", sec},         {"csc", csc},     {"asin", asin},     {"acos", acos},
        {"atan", atan},       {"acot", acot},   {"asec", asec},     {"acsc", acsc},
        {"sinh", sinh},       {"cosh", cosh},   {"tanh", tanh},     {"coth", coth},
        {"sech", sech},       {"csch", csch},   {"asinh", asinh},   {"acosh", acosh},
        {"atanh", atanh},     {"acoth", acoth}, {"asech", asech},   {"acsch", acsch},
        {"log", log},         {"exp", exp},     {"abs", abs},       {"sign", sign},
        {"floor", floor},     {"ceiling", ceiling}, {"truncate", truncate},
        {"conjugate", conjugate}, {"gamma", gamma}, {"loggamma", loggamma},
        {"erf", erf},         {"erfc", erfc},   {"lambertw", lambertw}, {"zeta", zeta},
        {"dirichlet_eta", dirichlet_eta}, {"digamma", digamma}, {"trigamma", trigamma},
        {"sqrt", sqrt},       {"cbrt", cbrt},
    };
    return t;
}

inline const std::map<std::string, fn2> &f2_table()
{
    static const std::map<std::string, fn2> t = {
        {"atan2", atan2},         {"log", log},   {"zeta", zeta},
        {"beta", beta},           {"polygamma", polygamma}, {"lowergamma", lowergamma},
        {"uppergamma", uppergamma}, {"kronecker_delta", kronecker_delta},
    };
    return t;
}

inline RCP<const Basic> eval_recipe(const Sexp &e);

inline vec_basic eval_args(const Sexp &e, size_t from)
{
    vec_basic v;
    for (size_t i = from; i < e.kids.size(); i++)
        v.push_back(eval_recipe(e.kids[i]));
    return v;
}

inline RCP<const Boolean> as_bool(const RCP<const Basic> &b)
{
    if (!is_a_Boolean(*b))
        throw std::runtime_error("recipe: boolean expected");
    return rcp_static_cast<const Boolean>(b);
}
inline RCP<const Set> as_set(const RCP<const Basic> &b)
{
    if (!is_a_Set(*b))
        throw std::runtime_error("recipe: set expected");
    return rcp_static_cast<const Set>(b);
}
inline RCP<const Number> as_num(const RCP<const Basic> &b)
{
    if (!is_a_Number(*b))
        throw std::runtime_error("recipe: number expected");
    return rcp_static_cast<const Number>(b);
}

inline RCP<const Basic> eval_recipe(const Sexp &e)
{
    if (e.is_atom) {
        const std::string &a = e.atom;
        if (a == "oo") return Inf;
        if (a == "-oo") return NegInf;
        if (a == "zoo") return ComplexInf;
        if (a == "nan") return Nan;
        if (a == "pi") return pi;
        if (a == "E") return E;
        if (a == "I") return I;
        if (a == "EulerGamma") return EulerGamma;
        if (a == "Catalan") return Catalan;
        if (a == "GoldenRatio") return GoldenRatio;
        if (a == "true") return boolTrue;
        if (a == "false") return boolFalse;
        if (a == "emptyset") return emptyset();
        if (a == "universalset") return universalset();
        if (a == "reals") return reals();
        if (a == "rationals") return rationals();
        if (a == "integers") return integers();
        if (a == "naturals") return naturals();
        if (a == "naturals0") return naturals0();
        if (a == "complexes") return complexes();
        // bare integers and bare identifiers for convenience
        if (!a.empty() && (isdigit((unsigned char)a[0]) || (a[0] == '-' && a.size() > 1)))
            return integer(integer_class(a));
        return symbol(a);
    }
    if (e.kids.empty() || !e.kids[0].is_atom)
        throw std::runtime_error("recipe: bad form");
    const std::string &op = e.kids[0].atom;
    auto arg = [&](size_t i) { return eval_recipe(e.kids.at(i)); };
    auto atom = [&](size_t i) -> const std::string & { return e.kids.at(i).atom; };
    if (op == "i") return integer(integer_class(atom(1)));
    if (op == "q") return Rational::from_two_ints(*integer(integer_class(atom(1))), *integer(integer_class(atom(2))));
    if (op == "c")
        return Complex::from_two_nums(
            *Rational::from_two_ints(*integer(integer_class(atom(1))), *integer(integer_class(atom(2)))),
            *Rational::from_two_ints(*integer(integer_class(atom(3))), *integer(integer_class(atom(4)))));
    if (op == "d") return real_double(dbl_of_hex(atom(1)));
    if (op == "cd") return complex_double(std::complex<double>(dbl_of_hex(atom(1)), dbl_of_hex(atom(2))));
    if (op == "s") return symbol(atom(1));
    if (op == "dum") return dummy(atom(1));
    if (op == "add") return add(arg(1), arg(2));
    if (op == "sub") return sub(arg(1), arg(2));
    if (op == "mul") return mul(arg(1), arg(2));
    if (op == "div") return div(arg(1), arg(2));
    if (op == "pow") return pow(arg(1), arg(2));
    if (op == "neg") return neg(arg(1));
    if (op == "addv") return add(eval_args(e, 1));
    if (op == "mulv") return mul(eval_args(e, 1));
    if (op == "sqrt") return sqrt(arg(1));
    if (op == "cbrt") return cbrt(arg(1));
    if (op == "exp") return exp(arg(1));
    if (op == "f1") {
        auto it = f1_table().find(atom(1));
        if (it == f1_table().end())
            throw std::runtime_error("recipe: unknown f1 " + atom(1));
        return it->second(arg(2));
    }
    if (op == "f2") {
        auto it = f2_table().find(atom(1));
        if (it == f2_table().end())
            throw std::runtime_error("recipe: unknown f2 " + atom(1));
        return it->second(arg(2), arg(3));
    }
    if (op == "max") return max(eval_args(e, 1));
    if (op == "min") return min(eval_args(e, 1));
    if (op == "levi") return levi_civita(eval_args(e, 1));
    if (op == "fs") return function_symbol(atom(1), eval_args(e, 2));
    if (op == "eq") return Eq(arg(1), arg(2));
    if (op == "ne") return Ne(arg(1), arg(2));
    if (op == "lt") return Lt(arg(1), arg(2));
    if (op == "le") return Le(arg(1), arg(2));
    if (op == "gt") return Gt(arg(1), arg(2));
    if (op == "ge") return Ge(arg(1), arg(2));
    if (op == "and" || op == "or" || op == "nand" || op == "nor") {
        set_boolean s;
        for (auto &x : eval_args(e, 1))
            s.insert(as_bool(x));
        if (op == "and") return logical_and(s);
        if (op == "or") return logical_or(s);
        if (op == "nand") return logical_nand(s);
        return logical_nor(s);
    }
    if (op == "xor" || op == "xnor") {
        vec_boolean s;
        for (auto &x : eval_args(e, 1))
            s.push_back(as_bool(x));
        return op == "xor" ? logical_xor(s) : logical_xnor(s);
    }
    if (op == "not") return logical_not(as_bool(arg(1)));
    if (op == "contains") return contains(arg(1), as_set(arg(2)));
    if (op == "pw") {
        PiecewiseVec v;
        for (size_t i = 1; i + 1 < e.kids.size(); i += 2)
            v.push_back({arg(i), as_bool(arg(i + 1))});
        return piecewise(std::move(v));
    }
    if (op == "interval")
        return interval(as_num(arg(1)), as_num(arg(2)), atom(3) == "1", atom(4) == "1");
    if (op == "fset") {
        set_basic s;
        for (auto &x : eval_args(e, 1))
            s.insert(x);
        return finiteset(s);
    }
    if (op == "union" || op == "isect") {
        set_set s;
        for (auto &x : eval_args(e, 1))
            s.insert(as_set(x));
        return op == "union" ? set_union(s) : set_intersection(s);
    }
    if (op == "compl") return set_complement(as_set(arg(1)), as_set(arg(2)));
    if (op == "expand") return expand(arg(1));
    if (op == "diff") {
        RCP<const Basic> x = arg(2);
        if (!is_a_sub<Symbol>(*x))
            throw std::runtime_error("recipe: diff wrt non-symbol");
        return arg(1)->diff(rcp_static_cast<const Symbol>(x));
    }
    if (op == "subs" || op == "xreplace") {
        map_basic_basic m;
        for (size_t i = 2; i + 1 < e.kids.size(); i += 2)
            m[arg(i)] = arg(i + 1);
        return op == "subs" ? arg(1)->subs(m) : arg(1)->xreplace(m);
    }
    if (op == "deriv") {
        multiset_basic xs;
        for (size_t i = 2; i < e.kids.size(); i++)
            xs.insert(arg(i));
        return Derivative::create(arg(1), xs);
    }
    throw std::runtime_error("recipe: unknown op " + op);
}

inline RCP<const Basic> eval_recipe(const std::string &s)
{
    return eval_recipe(parse_sexp(s));
}

} // namespace verif
