// C12 / C13 driver.
//
// Input lines (one case per line):
//   E <recipe>
//       one numeric expression.  Output:
//         <dump> \t V=<r> \t P=<r> \t S=<r> \t L=<r> \t F=<r> \t C=<r>[,<r>] [\t#ORACLE:<what>]
//       V eval_double, P eval_double_visitor_pattern, S eval_double_single_dispatch,
//       L LambdaRealDoubleVisitor (no inputs, no cse), F evalf(53 bits, Real), C eval_complex_double.
//   H <op> || <op> || ...
//       a history on ONE LambdaRealDoubleVisitor.  op =
//         I <cse 0|1> :: <input recipes ;; ...> :: <output recipes ;; ...>
//         C <hex double> ...
//       Output: the ops separated by " || ":
//         I :: <input dumps ;;> :: <output dumps ;;> :: <N | T<exn> | R sym ;; expr ;; ... @@ reduced ;; ...> => <OK|EXN:n>
//         C <hex> ... => <r> <r> ... | EXN:n
//       followed by CRASH:<sig> / HANG when the process died, and by \t#ORACLE:<what> when the
//       property itself fails on the library's outputs (independent of the model):
//         reinit   : an init/call sequence on the reused object differs from a fresh object
//         cse      : cse on/off give different values (beyond rounding)
//         value    : a call result is not the value of the output at the inputs (long double reference)
// <r> = 16 hex digits (bit pattern), NAN for any NaN, EXN:<n> (harness/common.h numbering).
//
// The long double reference evaluator below is independent of eval_double.cpp: inverse functions
// are computed from other formulas than the library's.  Well-conditionedness is estimated by
// re-running the reference with every intermediate result perturbed by a relative 2^-53
// (simulated double rounding); the library's value must lie within a small multiple of the
// observed spread.  This part is TESTING, not proof.
#include <cmath>
#include <complex>
#include <limits>
#include <map>
#include <vector>
#include <string>
#include <functional>
#define private public
#define protected public
#include <symengine/basic.h>
#include <symengine/add.h>
#include <symengine/mul.h>
#include <symengine/pow.h>
#include <symengine/functions.h>
#include <symengine/logic.h>
#include <symengine/sets.h>
#include <symengine/complex.h>
#include <symengine/complex_double.h>
#include <symengine/real_double.h>
#include <symengine/infinity.h>
#include <symengine/nan.h>
#include <symengine/constants.h>
#include <symengine/visitor.h>
#include <symengine/eval.h>
#include <symengine/eval_double.h>
#include <symengine/lambda_double.h>
#include <symengine/symengine_exception.h>
#undef private
#undef protected
#include "common.h"
#include "dump.h"
#include "recipe.h"
using namespace SymEngine;

namespace SymEngine
{
void cse(vec_pair &replacements, vec_basic &reduced_exprs, const vec_basic &exprs);
}

typedef long double ld;

static std::vector<std::string> split_sep(const std::string &s, const std::string &sep)
{
    std::vector<std::string> v;
    size_t st = 0;
    while (true) {
        size_t p = s.find(sep, st);
        if (p == std::string::npos) {
            v.push_back(s.substr(st));
            break;
        }
        v.push_back(s.substr(st, p - st));
        st = p + sep.size();
    }
    return v;
}

static std::string trim(const std::string &s)
{
    size_t a = s.find_first_not_of(" \t");
    if (a == std::string::npos)
        return "";
    size_t b = s.find_last_not_of(" \t");
    return s.substr(a, b - a + 1);
}

static std::string rbits(double d)
{
    if (std::isnan(d))
        return "NAN";
    return verif::dblbits(d);
}

static RCP<const Basic> recipe(const std::string &r)
{
    std::string t = trim(r);
    if (t.compare(0, 8, "(uneval ") == 0 && t.back() == ')')
        return unevaluated_expr(verif::eval_recipe(t.substr(8, t.size() - 9)));
    return verif::eval_recipe(t);
}

// ------------------------------------------------------------------ reference evaluator
struct RefEnv {
    const vec_basic *syms;
    const std::vector<double> *vals;
    bool perturb;
    uint64_t rng;
    bool bad; // something outside the reference (unknown class, domain problem)
    int gammas;
};

static ld pert(RefEnv &env, ld v)
{
    if (std::isnan(v) || std::isinf(v) || fabsl(v) > 1.0e300L || (v != 0 && fabsl(v) < 1.0e-300L))
        env.bad = true; // a singular point of the reference, or an intermediate value outside the range
                        // of double (overflow / underflow): outside the accuracy oracle
    if (!env.perturb)
        return v;
    env.rng = env.rng * 6364136223846793005ULL + 1442695040888963407ULL;
    ld u = ((ld)((env.rng >> 11) & ((1ULL << 52) - 1)) / (ld)(1ULL << 52)) * 2.0L - 1.0L; // [-1,1)
    return v * (1.0L + u * 1.1102230246251565404e-16L);
}

static ld ld_of_mpz(const integer_class &z)
{
    std::string s = verif::zstr(z);
    return strtold(s.c_str(), nullptr);
}

static ld ref(const Basic &b, RefEnv &env);

static ld ref_args_fold(const Basic &b, RefEnv &env, bool mul)
{
    ld acc = mul ? 1.0L : 0.0L;
    for (const auto &p : b.get_args()) {
        ld v = ref(*p, env);
        acc = mul ? acc * v : acc + v;
        acc = pert(env, acc);
    }
    return acc;
}

static const ld PI_L = 3.141592653589793238462643383279502884L;

static ld ref(const Basic &b, RefEnv &env)
{
    if (env.syms) {
        for (size_t i = 0; i < env.syms->size(); i++)
            if (eq(b, *(*env.syms)[i]))
                return pert(env, (ld)(*env.vals)[i]); // conditioning with respect to the inputs counts too
    }
    if (is_a<Integer>(b)) {
        ld v = ld_of_mpz(down_cast<const Integer &>(b).as_integer_class());
        return (fabsl(v) < 9.0e15L) ? v : pert(env, v);
    }
    if (is_a<Rational>(b)) {
        const rational_class &q = down_cast<const Rational &>(b).as_rational_class();
        return pert(env, ld_of_mpz(get_num(q)) / ld_of_mpz(get_den(q)));
    }
    if (is_a<RealDouble>(b))
        return pert(env, (ld)down_cast<const RealDouble &>(b).i);
    if (is_a<Infty>(b)) {
        const Infty &i = down_cast<const Infty &>(b);
        if (i.is_positive_infinity())
            return std::numeric_limits<ld>::infinity();
        if (i.is_negative_infinity())
            return -std::numeric_limits<ld>::infinity();
        env.bad = true;
        return 0;
    }
    if (is_a<NaN>(b))
        return std::numeric_limits<ld>::quiet_NaN();
    if (is_a<Constant>(b)) {
        if (eq(b, *pi))
            return pert(env, PI_L);
        if (eq(b, *E))
            return pert(env, expl(1.0L));
        if (eq(b, *EulerGamma))
            return pert(env, 0.577215664901532860606512090082402431L);
        if (eq(b, *Catalan))
            return pert(env, 0.915965594177219015054603514932384110774L);
        if (eq(b, *GoldenRatio))
            return pert(env, (1.0L + sqrtl(5.0L)) / 2.0L);
        env.bad = true;
        return 0;
    }
    if (is_a<Add>(b))
        return ref_args_fold(b, env, false);
    if (is_a<Mul>(b))
        return ref_args_fold(b, env, true);
    if (is_a<Pow>(b)) {
        const Pow &p = down_cast<const Pow &>(b);
        ld e = ref(*p.get_exp(), env);
        if (eq(*p.get_base(), *E))
            return pert(env, expl(e));
        ld a = ref(*p.get_base(), env);
        return pert(env, powl(a, e));
    }
    if (is_a<BooleanAtom>(b))
        return down_cast<const BooleanAtom &>(b).get_val() ? 1.0L : 0.0L;
    if (is_a<Piecewise>(b)) {
        for (const auto &q : down_cast<const Piecewise &>(b).get_vec()) {
            if (ref(*q.second, env) == 1.0L)
                return ref(*q.first, env);
        }
        env.bad = true;
        return 0;
    }
    if (is_a<Contains>(b)) {
        const Contains &c = down_cast<const Contains &>(b);
        if (!is_a<Interval>(*c.get_set())) {
            env.bad = true;
            return 0;
        }
        const Interval &iv = down_cast<const Interval &>(*c.get_set());
        ld x = ref(*c.get_expr(), env), lo = ref(*iv.get_start(), env), hi = ref(*iv.get_end(), env);
        if (std::isnan(x))
            return 0.0L;
        if (fabsl(x - lo) <= 1.0e-12L * std::max(fabsl(x), fabsl(lo)) || fabsl(x - hi) <= 1.0e-12L * std::max(fabsl(x), fabsl(hi)))
            env.bad = true; // at an end point of the interval
        bool l = iv.get_left_open() ? (lo < x) : (lo <= x);
        bool r = iv.get_right_open() ? (x < hi) : (x <= hi);
        return (l && r) ? 1.0L : 0.0L;
    }
    vec_basic args = b.get_args();
    std::vector<ld> a;
    for (const auto &p : args)
        a.push_back(ref(*p, env));
    if (env.bad)
        return 0;
    const ld x = a.empty() ? 0.0L : a[0];
    ld r;
    switch (b.get_type_code()) {
        case SYMENGINE_SIN: r = sinl(x); break;
        case SYMENGINE_COS: r = cosl(x); break;
        case SYMENGINE_TAN: r = sinl(x) / cosl(x); break;
        case SYMENGINE_COT: r = cosl(x) / sinl(x); break;
        case SYMENGINE_SEC: r = 1.0L / cosl(x); break;
        case SYMENGINE_CSC: r = 1.0L / sinl(x); break;
        case SYMENGINE_ASIN: r = asinl(x); break;
        case SYMENGINE_ACOS: r = acosl(x); break;
        case SYMENGINE_ATAN: r = atanl(x); break;
        // inverse functions from formulas other than the library's
        case SYMENGINE_ACSC: // asin(1/x) = atan(sign(x)/sqrt(x^2-1))
            r = (fabsl(x) < 1.0L) ? std::numeric_limits<ld>::quiet_NaN()
                                  : atan2l(x < 0 ? -1.0L : 1.0L, sqrtl((x - 1.0L) * (x + 1.0L)));
            if (x < 0 && fabsl(x) >= 1.0L)
                r = -atan2l(1.0L, sqrtl((x - 1.0L) * (x + 1.0L)));
            break;
        case SYMENGINE_ASEC: // acos(1/x) = atan2(sqrt(x^2-1), 1) for x>=1, pi - that for x<=-1
            if (fabsl(x) < 1.0L)
                r = std::numeric_limits<ld>::quiet_NaN();
            else {
                ld t = atan2l(sqrtl((x - 1.0L) * (x + 1.0L)), 1.0L);
                r = x > 0 ? t : PI_L - t;
            }
            break;
        case SYMENGINE_ACOT: // atan(1/x) = atan2(sign(x), |x|); discontinuous at 0 (and +-0 differ)
            if (x == 0) {
                env.bad = true;
                return 0;
            }
            r = atan2l(x < 0 ? -1.0L : 1.0L, fabsl(x));
            break;
        case SYMENGINE_SINH: r = sinhl(x); break;
        case SYMENGINE_COSH: r = coshl(x); break;
        case SYMENGINE_TANH: r = tanhl(x); break;
        case SYMENGINE_COTH: r = coshl(x) / sinhl(x); break;
        case SYMENGINE_SECH: r = 2.0L / (expl(x) + expl(-x)); break;
        case SYMENGINE_CSCH: r = 1.0L / sinhl(x); break;
        case SYMENGINE_ASINH: r = asinhl(x); break;
        case SYMENGINE_ACOSH: r = acoshl(x); break;
        case SYMENGINE_ATANH: r = atanhl(x); break;
        case SYMENGINE_ACOTH: // atanh(1/x) = log((x+1)/(x-1))/2
            r = (fabsl(x) <= 1.0L) ? std::numeric_limits<ld>::quiet_NaN() : 0.5L * log1pl(2.0L / (x - 1.0L));
            break;
        case SYMENGINE_ASECH: // acosh(1/x) = log((1+sqrt(1-x^2))/x)
            r = (x <= 0 || x > 1.0L) ? std::numeric_limits<ld>::quiet_NaN()
                                     : logl((1.0L + sqrtl((1.0L - x) * (1.0L + x))) / x);
            break;
        case SYMENGINE_ACSCH: // asinh(t) = log1p(t + t^2/(1+sqrt(1+t^2))), t = 1/|x|
        {
            ld t = 1.0L / fabsl(x);
            ld u = log1pl(t + t * t / (1.0L + sqrtl(1.0L + t * t)));
            r = x < 0 ? -u : u;
            if (x == 0)
                r = std::numeric_limits<ld>::quiet_NaN();
            break;
        }
        case SYMENGINE_LOG: r = logl(x); break;
        case SYMENGINE_ABS: r = fabsl(x); break;
        case SYMENGINE_GAMMA:
        case SYMENGINE_LOGGAMMA:
            // poles at the non-positive integers: a rounded argument can sit on one; only x > 0 is tested
            if (!(x > 0)) {
                env.bad = true;
                return 0;
            }
            r = (b.get_type_code() == SYMENGINE_GAMMA) ? tgammal(x) : lgammal(x);
            env.gammas++;
            break;
        case SYMENGINE_ERF: r = erfl(x); break;
        case SYMENGINE_ERFC: r = erfcl(x); break;
        case SYMENGINE_ATAN2: r = atan2l(a[0], a[1]); break;
        case SYMENGINE_SIGN: return x == 0 ? 0.0L : (x < 0 ? -1.0L : 1.0L);
        case SYMENGINE_FLOOR:
        case SYMENGINE_CEILING:
        case SYMENGINE_TRUNCATE: {
            // discontinuous at the integers: an argument that is merely close to one is ill-conditioned
            ld n = roundl(x);
            if (x != n && fabsl(x - n) < 1.0e-12L * std::max((ld)1.0L, fabsl(x)))
                env.bad = true;
            return b.get_type_code() == SYMENGINE_FLOOR ? floorl(x)
                                                        : (b.get_type_code() == SYMENGINE_CEILING ? ceill(x) : truncl(x));
        }
        case SYMENGINE_MAX: {
            r = a[0];
            for (ld v : a)
                r = (r < v) ? v : r;
            return r;
        }
        case SYMENGINE_MIN: {
            r = a[0];
            for (ld v : a)
                r = (v < r) ? v : r;
            return r;
        }
        case SYMENGINE_EQUALITY:
        case SYMENGINE_UNEQUALITY:
        case SYMENGINE_LESSTHAN:
        case SYMENGINE_STRICTLESSTHAN: {
            // discontinuous where the two sides are equal: nearly equal sides are ill-conditioned
            if (fabsl(a[0] - a[1]) <= 1.0e-12L * std::max(fabsl(a[0]), fabsl(a[1])))
                env.bad = true;
            switch (b.get_type_code()) {
                case SYMENGINE_EQUALITY: return a[0] == a[1] ? 1.0L : 0.0L;
                case SYMENGINE_UNEQUALITY: return a[0] != a[1] ? 1.0L : 0.0L;
                case SYMENGINE_LESSTHAN: return a[0] <= a[1] ? 1.0L : 0.0L;
                default: return a[0] < a[1] ? 1.0L : 0.0L;
            }
        }
        case SYMENGINE_NOT: return x != 0 ? 0.0L : 1.0L;
        case SYMENGINE_AND: {
            bool t = true;
            for (ld v : a)
                t = t && (v != 0);
            return t ? 1.0L : 0.0L;
        }
        case SYMENGINE_OR: {
            bool t = false;
            for (ld v : a)
                t = t || (v != 0);
            return t ? 1.0L : 0.0L;
        }
        case SYMENGINE_XOR: {
            bool t = false;
            for (ld v : a)
                t = t != (v != 0);
            return t ? 1.0L : 0.0L;
        }
        case SYMENGINE_UNEVALUATED_EXPR: return x;
        default:
            env.bad = true;
            return 0;
    }
    return pert(env, r);
}

// is `got` the value of b (at the inputs) up to rounding?  returns "" when fine or when the case
// is outside the reference / ill-conditioned, else a description
static std::string accuracy(const Basic &b, const vec_basic *syms, const std::vector<double> *vals, double got,
                            bool *checked, ld *tol_out = nullptr)
{
    *checked = false;
    if (vals)
        for (double x : *vals)
            if (!std::isfinite(x))
                return ""; // the property is about finite inputs
    RefEnv e0 = {syms, vals, false, 0, false, 0};
    ld r0 = ref(b, e0);
    if (e0.bad)
        return "";
    if (std::isnan(r0) || std::isinf(r0)) {
        // the property is about finite results; NaN/inf are compared with the model only
        return "";
    }
    bool got_bad = std::isnan(got) || std::isinf(got);
    if (got_bad && fabsl(r0) > 1.0e300L)
        return "";
    ld spread = 0;
    for (int k = 0; k < 8; k++) {
        RefEnv ek = {syms, vals, true, 0x9e3779b97f4a7c15ULL * (uint64_t)(k + 1), false, 0};
        ld rk = ref(b, ek);
        if (std::isnan(rk) || std::isinf(rk))
            return "";
        spread = std::max(spread, fabsl(rk - r0));
    }
    ld ulp = fabsl(r0) * 2.220446049250313e-16L;
    if (fabsl(r0) < 2.3e-308L)
        ulp = 4.9e-324L;
    if (spread > 1.0e-6L * fabsl(r0) + 1.0e-300L)
        return ""; // ill-conditioned (or discontinuous) at this point: not covered by the property
    ld tol = 64.0L * spread + 8.0L * ulp;
    if (e0.gammas)
        tol *= 16.0L;
    *checked = true;
    if (tol_out)
        *tol_out = tol;
    if (got_bad) {
        char b2[160];
        snprintf(b2, sizeof b2, "got %s where the reference is %.21Lg", std::isnan(got) ? "nan" : "inf", r0);
        return b2;
    }
    if (fabsl((ld)got - r0) <= tol)
        return "";
    char buf[256];
    snprintf(buf, sizeof buf, "got %.17g reference %.21Lg (error %.3Lg ulp, allowed %.3Lg ulp)", got, r0,
             fabsl((ld)got - r0) / ulp, tol / ulp);
    return buf;
}

static bool close_ulps(double a, double b, double n)
{
    if (std::isnan(a) || std::isnan(b))
        return std::isnan(a) && std::isnan(b);
    if (a == b)
        return true;
    if (std::isinf(a) || std::isinf(b))
        return false;
    double m = std::max(std::fabs(a), std::fabs(b));
    return std::fabs(a - b) <= n * m * 2.220446049250313e-16 + 1e-300;
}

// ------------------------------------------------------------------ C12: one expression
static std::string guard(const std::function<std::string()> &f)
{
    try {
        return f();
    } catch (...) {
        return verif::exn_name();
    }
}

static void emit_fd(int fd, const std::string &s);

static void run_expr(const std::string &rec, int wfd)
{
    RCP<const Basic> e;
    try {
        e = recipe(rec);
    } catch (...) {
        emit_fd(wfd, "RECIPE-" + verif::exn_name());
        return;
    }
    std::string d = verif::dump(*e);
    emit_fd(wfd, d); // from here on a crash is the evaluators'
    std::ostringstream o;
    double v = 0, p = 0, s = 0, l = 0, f = 0;
    bool vok = false, pok = false, sok = false, lok = false, fok = false;
    std::string oracle;
    o << "\tV=" << guard([&]() { v = eval_double(*e); vok = true; return rbits(v); });
    o << "\tP=" << guard([&]() { p = eval_double_visitor_pattern(*e); pok = true; return rbits(p); });
    o << "\tS=" << guard([&]() { s = eval_double_single_dispatch(*e); sok = true; return rbits(s); });
    o << "\tL=" << guard([&]() {
        LambdaRealDoubleVisitor lv;
        lv.init({}, *e);
        l = lv.call({});
        lok = true;
        return rbits(l);
    });
    o << "\tF=" << guard([&]() {
        RCP<const Basic> r = evalf(*e, 53, EvalfDomain::Real);
        if (!is_a<RealDouble>(*r))
            return std::string("NOTDOUBLE");
        f = down_cast<const RealDouble &>(*r).i;
        fok = true;
        return rbits(f);
    });
    std::complex<double> c;
    bool cok = false;
    o << "\tC=" << guard([&]() {
        c = eval_complex_double(*e);
        cok = true;
        return rbits(c.real()) + "," + rbits(c.imag());
    });
    // ---- the property on the library's outputs
    if (vok && pok && rbits(v) != rbits(p))
        oracle += " pattern-visitor-differs";
    if (vok && (!fok || rbits(v) != rbits(f)))
        oracle += " evalf-differs";
    if (vok && !pok)
        oracle += " pattern-visitor-differs";
    if (vok != sok || (vok && sok && rbits(v) != rbits(s))) {
        // classes the single-dispatch table does not have are reported too: the visitor accepts them
        oracle += " dispatch:" + (sok ? rbits(s) : std::string("exn")) + "-vs-visitor:" + (vok ? rbits(v) : std::string("exn"));
    }
    if (vok && lok && !close_ulps(v, l, 64))
        oracle += " lambda-far-from-eval";
    if (vok) {
        bool checked;
        ld tol = 0;
        std::string a = accuracy(*e, nullptr, nullptr, v, &checked, &tol);
        // the complex evaluator uses other algorithms (complex pow = exp(y log x) ...): a sanity check
        // against gross formula errors only
        if (cok && checked && std::isfinite(v)
            && !(fabsl((ld)c.real() - (ld)v) <= 1e-9L * fabsl((ld)v) + 1024.0L * tol
                 && std::fabs(c.imag()) <= 1e-9 * std::max(1.0, std::fabs(v))))
            oracle += " complex-differs";
        o << (checked ? "\tA=1" : "\tA=0");
        if (!a.empty())
            oracle += " inaccurate(" + a + ")";
    } else {
        o << "\tA=0";
    }
    if (!oracle.empty())
        o << "\t#ORACLE:" << oracle.substr(1);
    emit_fd(wfd, o.str());
}

// ------------------------------------------------------------------ C13: a history
struct InitOp {
    bool cse;
    vec_basic ins, outs;
};

static std::string call_result(LambdaRealDoubleVisitor &v, const std::vector<double> &inp, std::vector<double> *outs)
{
    try {
        std::vector<double> o(v.results.size() + 1, 0.0);
        v.call(o.data(), inp.data());
        o.resize(v.results.size());
        if (outs)
            *outs = o;
        std::string s;
        for (size_t i = 0; i < o.size(); i++)
            s += (i ? " " : "") + rbits(o[i]);
        return s.empty() ? "-" : s;
    } catch (...) {
        return verif::exn_name();
    }
}

static std::string init_result(LambdaRealDoubleVisitor &v, const InitOp &op)
{
    try {
        v.init(op.ins, op.outs, op.cse);
        return "OK";
    } catch (...) {
        return verif::exn_name();
    }
}

static std::string run_history(const std::string &line, int wfd)
{
    // every finished op is written to wfd at once, so that a crash keeps the prefix
    auto emit = [&](const std::string &s) {
        size_t off = 0;
        while (off < s.size()) {
            ssize_t w = write(wfd, s.data() + off, s.size() - off);
            if (w <= 0)
                break;
            off += (size_t)w;
        }
    };
    std::vector<std::string> ops = split_sep(line, " || ");
    LambdaRealDoubleVisitor v;
    std::string oracle;
    bool have_init = false, last_ok = false;
    InitOp last;
    std::vector<std::vector<double>> calls_since; // inputs of the calls since the last init
    bool first = true;
    for (const std::string &op0 : ops) {
        std::string op = trim(op0);
        if (!first)
            emit(" || ");
        first = false;
        if (op.compare(0, 2, "I ") == 0) {
            std::vector<std::string> parts = split_sep(op.substr(2), " :: ");
            if (parts.size() != 3)
                return "BADCASE";
            InitOp io;
            io.cse = trim(parts[0]) == "1";
            try {
                for (auto &r : split_sep(parts[1], " ;; "))
                    if (!trim(r).empty())
                        io.ins.push_back(recipe(r));
                for (auto &r : split_sep(parts[2], " ;; "))
                    if (!trim(r).empty())
                        io.outs.push_back(recipe(r));
            } catch (...) {
                emit("RECIPE-" + verif::exn_name());
                return "";
            }
            std::string s = "I ::";
            for (size_t i = 0; i < io.ins.size(); i++)
                s += (i ? " ;; " : " ") + verif::dump(*io.ins[i]);
            s += " ::";
            for (size_t i = 0; i < io.outs.size(); i++)
                s += (i ? " ;; " : " ") + verif::dump(*io.outs[i]);
            s += " :: ";
            if (!io.cse) {
                s += "N";
            } else {
                try {
                    vec_pair reps;
                    vec_basic red;
                    SymEngine::cse(reps, red, io.outs);
                    s += "R";
                    for (size_t i = 0; i < reps.size(); i++)
                        s += (i ? " ;; " : " ") + verif::dump(*reps[i].first) + " ;; " + verif::dump(*reps[i].second);
                    s += " @@";
                    for (size_t i = 0; i < red.size(); i++)
                        s += (i ? " ;; " : " ") + verif::dump(*red[i]);
                } catch (...) {
                    s += "T" + verif::exn_name().substr(4);
                }
            }
            emit(s + " => ");
            std::string r = init_result(v, io);
            emit(r);
            have_init = true;
            last_ok = (r == "OK");
            last = io;
            calls_since.clear();
            // reinit oracle, part 1: a fresh object must accept / reject the same init
            // ("~" marks the start of oracle work: a crash after it is not the visitor's)
            emit("~");
            {
                LambdaRealDoubleVisitor fresh;
                std::string rf = init_result(fresh, io);
                if (rf != r)
                    oracle += " reinit(init gives " + r + ", a fresh object " + rf + ")";
            }
            emit(".");
        } else if (op.compare(0, 1, "C") == 0) {
            std::vector<double> inp;
            for (auto &h : verif::split_ws(op.substr(1)))
                inp.push_back(verif::dbl_of_hex(h));
            std::string s = "C";
            for (double x : inp)
                s += " " + verif::dblbits(x);
            emit(s + " => ");
            std::vector<double> outs;
            std::string r = call_result(v, inp, &outs);
            emit(r);
            if (have_init && last_ok) {
                calls_since.push_back(inp);
                emit("~");
                std::string part = [&]() {
                    std::string orc;
                    // reinit oracle, part 2: same init + same calls on a fresh object
                    LambdaRealDoubleVisitor fresh;
                    if (init_result(fresh, last) == "OK") {
                        std::string rf;
                        for (auto &ci : calls_since)
                            rf = call_result(fresh, ci, nullptr);
                        if (rf != r)
                            orc += " reinit(call gives " + r + ", a fresh object " + rf + ")";
                    }
                    if (r.compare(0, 3, "EXN") == 0 || inp.size() != last.ins.size())
                        return orc;
                    // value oracle (long double reference) and the tolerance it allows
                    std::vector<bool> checked(outs.size(), false);
                    std::vector<ld> tols(outs.size(), 0);
                    for (size_t i = 0; i < outs.size() && i < last.outs.size(); i++) {
                        bool ck;
                        ld tol = 0;
                        std::string a = accuracy(*last.outs[i], &last.ins, &inp, outs[i], &ck, &tol);
                        checked[i] = ck;
                        tols[i] = tol;
                        if (!a.empty())
                            orc += " value(output " + std::to_string(i) + ": " + a + ")";
                    }
                    // cse on/off
                    LambdaRealDoubleVisitor other;
                    InitOp oo = last;
                    oo.cse = !last.cse;
                    if (init_result(other, oo) == "OK") {
                        std::vector<double> o2;
                        std::string r2 = call_result(other, inp, &o2);
                        bool same = o2.size() == outs.size();
                        for (size_t i = 0; same && i < outs.size(); i++) {
                            if (!checked[i])
                                continue; // singular or ill-conditioned point: NaN handling / rounding may differ
                            if (std::isnan(outs[i]) || std::isnan(o2[i]))
                                same = std::isnan(outs[i]) && std::isnan(o2[i]);
                            else if (std::isinf(outs[i]) || std::isinf(o2[i]))
                                same = outs[i] == o2[i];
                            else
                                same = fabsl((ld)outs[i] - (ld)o2[i]) <= 2 * tols[i];
                        }
                        if (!same) {
                            // does a replacement symbol of cse() have the name of an input symbol?
                            bool shadow = false;
                            try {
                                vec_pair reps;
                                vec_basic red;
                                SymEngine::cse(reps, red, last.outs);
                                for (auto &rp : reps)
                                    for (auto &in : last.ins)
                                        if (eq(*rp.first, *in))
                                            shadow = true;
                            } catch (...) {
                            }
                            orc += std::string(shadow ? " cse-shadow(" : " cse(") + std::string(last.cse ? "on " : "off ") + r
                                   + " vs " + r2 + ")";
                        }
                    }
                    return orc;
                }();
                emit(".");
                oracle += part;
            }
        } else {
            return "BADCASE";
        }
    }
    if (!oracle.empty())
        emit("\t#ORACLE:" + oracle.substr(1));
    return "";
}

static void emit_fd(int fd, const std::string &s)
{
    size_t off = 0;
    while (off < s.size()) {
        ssize_t w = write(fd, s.data() + off, s.size() - off);
        if (w <= 0)
            break;
        off += (size_t)w;
    }
}

static void process_line(const std::string &line, int wfd)
{
    if (line.compare(0, 2, "E ") == 0) {
        try {
            run_expr(line.substr(2), wfd);
        } catch (...) {
            emit_fd(wfd, "UNCAUGHT");
        }
    } else if (line.compare(0, 2, "H ") == 0) {
        std::string s;
        try {
            s = run_history(line.substr(2), wfd);
        } catch (...) {
            s = "UNCAUGHT";
        }
        emit_fd(wfd, s);
    } else {
        emit_fd(wfd, "BADCASE");
    }
    emit_fd(wfd, "\n");
}

// One worker process handles consecutive cases and streams its output; when it dies (signal,
// timeout) the text written so far + CRASH:<sig>/HANG is the result of the case it was working on
// and a new worker continues with the next case.  (fork per case is too slow on a loaded machine.)
int main()
{
    std::vector<std::string> lines;
    std::string line;
    while (std::getline(std::cin, line))
        lines.push_back(line);
    size_t next = 0;
    while (next < lines.size()) {
        int fd[2];
        if (pipe(fd) != 0)
            return 3;
        fflush(stdout);
        pid_t pid = fork();
        if (pid == 0) {
            close(fd[0]);
            struct rlimit rl;
            rl.rlim_cur = rl.rlim_max = 0;
            setrlimit(RLIMIT_CORE, &rl);
            int devnull = open("/dev/null", O_WRONLY);
            if (devnull >= 0)
                dup2(devnull, 2);
            for (size_t i = next; i < lines.size(); i++) {
                alarm(30);
                process_line(lines[i], fd[1]);
            }
            close(fd[1]);
            _exit(0);
        }
        close(fd[1]);
        std::string cur;
        char buf[65536];
        ssize_t r;
        while ((r = read(fd[0], buf, sizeof buf)) > 0) {
            for (ssize_t k = 0; k < r; k++) {
                if (buf[k] == '\n') {
                    std::cout << cur << "\n";
                    cur.clear();
                    next++;
                } else {
                    cur += buf[k];
                }
            }
        }
        close(fd[0]);
        int status = 0;
        waitpid(pid, &status, 0);
        if (next < lines.size()) {
            if (WIFSIGNALED(status)) {
                int sig = WTERMSIG(status);
                std::cout << cur << (sig == SIGALRM ? std::string("HANG") : "CRASH:" + std::to_string(sig)) << "\n";
            } else {
                std::cout << cur << "DIED" << "\n";
            }
            next++;
        }
        std::cout.flush();
    }
    return 0;
}
