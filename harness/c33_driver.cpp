// C33 driver: runs a history of Sieve operations on the library and prints the
// same canonical line as the extracted model (ocaml/c33_main.ml), followed by a
// tab and "#ORACLE:<what>" when an output is not exactly the primes it should be.
#include "common.h"
#include <symengine/prime_sieve.h>
#include <map>
#include <memory>
using namespace SymEngine;

static const long long M61 = (1LL << 61) - 1;

static std::vector<bool> composite; // simple reference sieve for the oracle
static void ref_sieve(unsigned n)
{
    composite.assign(n + 1, false);
    composite[0] = composite[1] = true;
    for (unsigned i = 2; (unsigned long long)i * i <= n; i++)
        if (!composite[i])
            for (unsigned j = i * i; j <= n; j += i)
                composite[j] = true;
}
static bool ref_is_prime(unsigned n)
{
    if (n < composite.size())
        return !composite[n];
    if (n < 2)
        return false;
    for (unsigned d = 2; (unsigned long long)d * d <= n; d++)
        if (n % d == 0)
            return false;
    return true;
}

static std::string run_history(const std::string &line)
{
    std::vector<std::string> t = verif::split_ws(line);
    std::ostringstream o, oracle;
    std::map<long, std::unique_ptr<Sieve::iterator>> its;
    std::map<long, std::pair<unsigned, unsigned>> itstate; // last value, limit
    bool first = true;
    auto sep = [&]() {
        if (!first)
            o << ";";
        first = false;
    };
    for (size_t i = 0; i < t.size();) {
        const std::string &c = t[i];
        if (c == "S") {
            Sieve::set_sieve_size((unsigned)std::stoul(t[i + 1]));
            i += 2;
            sep();
            o << "u";
        } else if (c == "G") {
            unsigned limit = (unsigned)std::stoul(t[i + 1]);
            i += 2;
            std::vector<unsigned> p;
            Sieve::generate_primes(p, limit);
            long long cs = 0;
            for (size_t k = 0; k < p.size(); k++)
                cs = (cs + (long long)(p[k] % M61) * (long long)((k + 1) % 1000003)) % M61;
            sep();
            o << "P:" << p.size() << ":" << (p.empty() ? 0u : p.back()) << ":" << cs;
            // oracle: exactly the primes <= limit, increasing
            size_t k = 0;
            bool bad = false;
            for (unsigned n = 2; n <= limit && !bad; n++) {
                if (ref_is_prime(n)) {
                    if (k >= p.size() || p[k] != n)
                        bad = true;
                    k++;
                }
            }
            if (bad || k != p.size())
                oracle << " generate_primes(" << limit << ") is not the primes up to the limit";
        } else if (c == "C") {
            Sieve::clear();
            i += 1;
            sep();
            o << "u";
        } else if (c == "F") {
            Sieve::set_clear(t[i + 1] == "1");
            i += 2;
            sep();
            o << "u";
        } else if (c == "N") {
            long id = std::stol(t[i + 1]);
            unsigned limit = (unsigned)std::stoul(t[i + 2]);
            i += 3;
            its[id].reset(limit == 0 ? new Sieve::iterator() : new Sieve::iterator(limit));
            itstate[id] = std::make_pair(0u, limit);
            sep();
            o << "u";
        } else if (c == "X") {
            long id = std::stol(t[i + 1]);
            i += 2;
            sep();
            if (its.count(id) == 0) {
                o << "u";
                continue;
            }
            unsigned p = its[id]->next_prime();
            o << "p:" << p;
            // oracle: next prime after the previous one, or limit+1 when exhausted
            unsigned prev = itstate[id].first, limit = itstate[id].second;
            if (prev != 0xffffffffu) {
                unsigned expect = prev + 1;
                while (!ref_is_prime(expect))
                    expect++;
                if (limit > 0 && expect > limit) {
                    // callers loop `while ((p = it.next_prime()) <= limit)`: any value above
                    // the limit ends the sequence
                    if (p <= limit)
                        oracle << " iterator(" << limit << ") after " << prev << " gave " << p
                               << " although the next prime " << expect << " exceeds the limit";
                    itstate[id].first = 0xffffffffu;
                } else {
                    if (p != expect)
                        oracle << " iterator after " << prev << " gave " << p << " instead of "
                               << expect;
                    itstate[id].first = p;
                }
            }
        } else if (c == "D") {
            long id = std::stol(t[i + 1]);
            i += 2;
            its.erase(id);
            sep();
            o << "u";
        } else {
            return "BADTOKEN";
        }
    }
    std::string s = o.str();
    if (!oracle.str().empty())
        s += "\t#ORACLE:" + oracle.str();
    return s;
}

int main()
{
    ref_sieve(4000000);
    std::string line;
    while (std::getline(std::cin, line)) {
        std::string r = verif::run_forked([&]() { return run_history(line); }, 60);
        std::cout << r << "\n";
    }
    return 0;
}
