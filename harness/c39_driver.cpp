// C39 driver: structural queries (symengine/visitor.h, visitor.cpp).
// Input line (tab separated):
//   <recipe of e> \t <recipes of extra has_symbol arguments, " ;; "> \t
//   <coeff queries "recipe x ;; recipe n", " || "> \t <optional "POLY <recipe x> <maxdeg>">
// Output line:
//   <dump e> \t <dumps of the has_symbol arguments " ;; "> \t <coeff queries as dumps> \t=>\t
//   FS[..] HS[..] FN[..] A:<menu>[..]... CO[..]      [\t#ORACLE:<class>:<text>]...
// The text before "\t=>\t" is the model's input; the model prints the text after it.
// Recipes: harness/recipe.h plus the local ops
//   (Subs a k v k v ...)  = Subs::create(a, {k: v, ...})      (imageset sym expr base)
//   (condset sym cond)
// Oracles (evaluated on the library's own outputs, independent of the Coq model):
//   free-symbols   free_symbols(e) == binder-aware structural recomputation (Subs, ImageSet,
//                  ConditionSet bind), no memo set
//   has-symbol     has_symbol(e, s) == (s in free_symbols(e)) for every Symbol argument;
//                  has_symbol(e, f(..)) == "a node eq to f(..) is reachable through get_args"
//   occurs-subs    on binder-free trees: s in free_symbols(e) <=> renaming s to a fresh symbol
//                  changes the printed expression
//   atoms          atoms<...>(e), function_symbols(e) == naive closure over get_args
//   coeff          POLY: sum coeff(e,x,k) x^k over k = 0..maxdeg expands to expand(e), and no
//                  coefficient contains x
#include <symengine/basic.h>
#include <symengine/add.h>
#include <symengine/mul.h>
#include <symengine/pow.h>
#include <symengine/functions.h>
#include <symengine/logic.h>
#include <symengine/sets.h>
#include <symengine/complex.h>
#include <symengine/complex_double.h>
#include <symengine/real_double.h>
#include <symengine/infinity.h>
#include <symengine/nan.h>
#include <symengine/constants.h>
#include <symengine/visitor.h>
#include <symengine/symengine_exception.h>
#include "common.h"
#include "dump.h"
#include "recipe.h"
using namespace SymEngine;

// ---------------------------------------------------------------- dump with the two set binders
// Same text as verif::dump, plus (FN ImageSet sym expr base) / (FN ConditionSet sym cond);
// sorted = Add dictionaries sorted by the text of their entries.
static std::string dump39(const Basic &b, bool sorted);
static std::string dump39_args(const vec_basic &v, bool sorted)
{
    std::string s;
    for (const auto &a : v)
        s += " " + dump39(*a, sorted);
    return s;
}
static std::string dump39(const Basic &b, bool sorted)
{
    std::ostringstream o;
    const std::string name = type_code_name(b.get_type_code());
    if (is_a_Number(b)) {
        return verif::dump_num(down_cast<const Number &>(b));
    } else if (is_a<Dummy>(b) or is_a<Symbol>(b) or is_a<Constant>(b) or is_a<BooleanAtom>(b)) {
        return verif::dump(b);
    } else if (is_a<Add>(b)) {
        const Add &a = down_cast<const Add &>(b);
        std::vector<std::string> items;
        for (const auto &p : a.get_dict())
            items.push_back("(" + dump39(*p.first, sorted) + " " + verif::dump_num(*p.second) + ")");
        if (sorted)
            std::sort(items.begin(), items.end());
        o << "(Add " << verif::dump_num(*a.get_coef());
        for (auto &i : items)
            o << " " << i;
        o << ")";
    } else if (is_a<Mul>(b)) {
        const Mul &a = down_cast<const Mul &>(b);
        o << "(Mul " << verif::dump_num(*a.get_coef());
        for (const auto &p : a.get_dict())
            o << " (" << dump39(*p.first, sorted) << " " << dump39(*p.second, sorted) << ")";
        o << ")";
    } else if (is_a<Pow>(b)) {
        const Pow &p = down_cast<const Pow &>(b);
        o << "(Pow " << dump39(*p.get_base(), sorted) << " " << dump39(*p.get_exp(), sorted) << ")";
    } else if (is_a<FunctionSymbol>(b)) {
        const FunctionSymbol &f = down_cast<const FunctionSymbol &>(b);
        o << "(FunSym " << verif::hexbytes(f.get_name()) << dump39_args(f.get_vec(), sorted) << ")";
    } else if (is_a<Derivative>(b)) {
        const Derivative &d = down_cast<const Derivative &>(b);
        o << "(Deriv " << dump39(*d.get_arg(), sorted);
        for (const auto &x : d.get_symbols())
            o << " " << dump39(*x, sorted);
        o << ")";
    } else if (is_a<Subs>(b)) {
        const Subs &s = down_cast<const Subs &>(b);
        o << "(Subs " << dump39(*s.get_arg(), sorted);
        for (const auto &p : s.get_dict())
            o << " (" << dump39(*p.first, sorted) << " " << dump39(*p.second, sorted) << ")";
        o << ")";
    } else if (is_a<Piecewise>(b)) {
        const Piecewise &p = down_cast<const Piecewise &>(b);
        o << "(Pw";
        for (const auto &q : p.get_vec())
            o << " (" << dump39(*q.first, sorted) << " " << dump39(*q.second, sorted) << ")";
        o << ")";
    } else if (is_a<Interval>(b)) {
        const Interval &i = down_cast<const Interval &>(b);
        o << "(Interval " << dump39(*i.get_start(), sorted) << " " << dump39(*i.get_end(), sorted) << " "
          << (i.get_left_open() ? 1 : 0) << " " << (i.get_right_open() ? 1 : 0) << ")";
    } else if (is_a<Contains>(b) or is_a<Complement>(b)) {
        o << "(Lex " << name << dump39_args(b.get_args(), sorted) << ")";
    } else if (is_a<Not>(b)) {
        o << "(F1 " << name << dump39_args(b.get_args(), sorted) << ")";
    } else if (dynamic_cast<const OneArgFunction *>(&b) != nullptr) {
        o << "(F1 " << name << " " << dump39(*down_cast<const OneArgFunction &>(b).get_arg(), sorted) << ")";
    } else if (dynamic_cast<const TwoArgFunction *>(&b) != nullptr
               or dynamic_cast<const Relational *>(&b) != nullptr) {
        o << "(F2 " << name << dump39_args(b.get_args(), sorted) << ")";
    } else if (dynamic_cast<const MultiArgFunction *>(&b) != nullptr or is_a<And>(b) or is_a<Or>(b)
               or is_a<Xor>(b) or is_a<FiniteSet>(b) or is_a<Union>(b) or is_a<Intersection>(b)
               or is_a<ImageSet>(b) or is_a<ConditionSet>(b)) {
        o << "(FN " << name << dump39_args(b.get_args(), sorted) << ")";
    } else if (is_a<Reals>(b) or is_a<Rationals>(b) or is_a<Integers>(b) or is_a<Naturals>(b)
               or is_a<Naturals0>(b) or is_a<Complexes>(b) or is_a<EmptySet>(b)
               or is_a<UniversalSet>(b)) {
        o << "(Atom " << name << ")";
    } else {
        o << "(Opaque " << name << ")";
    }
    return o.str();
}

// ---------------------------------------------------------------- recipes with local ops
static bool is_local_op(const std::string &op)
{
    return op == "Subs" or op == "imageset" or op == "condset";
}
static bool has_local_op(const verif::Sexp &e)
{
    if (e.is_atom)
        return false;
    if (!e.kids.empty() && e.kids[0].is_atom && is_local_op(e.kids[0].atom))
        return true;
    for (const auto &k : e.kids)
        if (has_local_op(k))
            return true;
    return false;
}

static RCP<const Basic> eval39(const verif::Sexp &e)
{
    if (!has_local_op(e))
        return verif::eval_recipe(e);
    const std::string &op = e.kids.at(0).atom;
    auto arg = [&](size_t i) { return eval39(e.kids.at(i)); };
    auto args = [&](size_t from) {
        vec_basic v;
        for (size_t i = from; i < e.kids.size(); i++)
            v.push_back(eval39(e.kids[i]));
        return v;
    };
    if (op == "Subs") {
        map_basic_basic m;
        for (size_t i = 2; i + 1 < e.kids.size(); i += 2)
            m[arg(i)] = arg(i + 1);
        return Subs::create(arg(1), m);
    }
    if (op == "imageset")
        return imageset(arg(1), arg(2), verif::as_set(arg(3)));
    if (op == "condset")
        return conditionset(arg(1), verif::as_bool(arg(2)));
    // compositional ops that may contain a local op below them
    if (op == "add") return add(arg(1), arg(2));
    if (op == "sub") return sub(arg(1), arg(2));
    if (op == "mul") return mul(arg(1), arg(2));
    if (op == "div") return div(arg(1), arg(2));
    if (op == "pow") return pow(arg(1), arg(2));
    if (op == "neg") return neg(arg(1));
    if (op == "addv") return add(args(1));
    if (op == "mulv") return mul(args(1));
    if (op == "f1") {
        auto it = verif::f1_table().find(e.kids.at(1).atom);
        if (it == verif::f1_table().end())
            throw std::runtime_error("recipe: unknown f1");
        return it->second(arg(2));
    }
    if (op == "fs") return function_symbol(e.kids.at(1).atom, args(2));
    if (op == "f2") {
        auto it = verif::f2_table().find(e.kids.at(1).atom);
        if (it == verif::f2_table().end())
            throw std::runtime_error("recipe: unknown f2");
        return it->second(arg(2), arg(3));
    }
    if (op == "max") return max(args(1));
    if (op == "min") return min(args(1));
    if (op == "ne") return Ne(arg(1), arg(2));
    if (op == "gt") return Gt(arg(1), arg(2));
    if (op == "ge") return Ge(arg(1), arg(2));
    if (op == "eq") return Eq(arg(1), arg(2));
    if (op == "lt") return Lt(arg(1), arg(2));
    if (op == "le") return Le(arg(1), arg(2));
    if (op == "contains") return contains(arg(1), verif::as_set(arg(2)));
    if (op == "and" or op == "or") {
        set_boolean s;
        for (auto &x : args(1))
            s.insert(verif::as_bool(x));
        return op == "and" ? logical_and(s) : logical_or(s);
    }
    if (op == "not") return logical_not(verif::as_bool(arg(1)));
    if (op == "pw") {
        PiecewiseVec v;
        for (size_t i = 1; i + 1 < e.kids.size(); i += 2)
            v.push_back({arg(i), verif::as_bool(arg(i + 1))});
        return piecewise(std::move(v));
    }
    if (op == "fset") {
        set_basic s;
        for (auto &x : args(1))
            s.insert(x);
        return finiteset(s);
    }
    if (op == "union" or op == "isect") {
        set_set s;
        for (auto &x : args(1))
            s.insert(verif::as_set(x));
        return op == "union" ? set_union(s) : set_intersection(s);
    }
    if (op == "deriv") {
        multiset_basic xs;
        for (size_t i = 2; i < e.kids.size(); i++)
            xs.insert(arg(i));
        return Derivative::create(arg(1), xs);
    }
    if (op == "diff") {
        RCP<const Basic> x = arg(2);
        if (!is_a_sub<Symbol>(*x))
            throw std::runtime_error("recipe: diff wrt non-symbol");
        return arg(1)->diff(rcp_static_cast<const Symbol>(x));
    }
    if (op == "subs") {
        map_basic_basic m;
        for (size_t i = 2; i + 1 < e.kids.size(); i += 2)
            m[arg(i)] = arg(i + 1);
        return arg(1)->subs(m);
    }
    throw std::runtime_error("recipe: op " + op + " above a local op is not supported");
}
static RCP<const Basic> eval39(const std::string &s)
{
    return eval39(verif::parse_sexp(s));
}

static std::vector<std::string> split_sep(const std::string &s, const std::string &sep)
{
    std::vector<std::string> v;
    size_t st = 0;
    while (true) {
        size_t p = s.find(sep, st);
        if (p == std::string::npos) {
            v.push_back(s.substr(st));
            break;
        }
        v.push_back(s.substr(st, p - st));
        st = p + sep.size();
    }
    return v;
}
static bool blank(const std::string &s)
{
    for (char c : s)
        if (!isspace((unsigned char)c))
            return false;
    return true;
}

// ---------------------------------------------------------------- independent recomputations
static bool is_binder_class(const Basic &b)
{
    return is_a<Subs>(b) or is_a<ImageSet>(b) or is_a<ConditionSet>(b);
}
// all nodes reachable through get_args (no memo), pre-order, with repetitions
static void closure(const RCP<const Basic> &b, vec_basic &out, size_t limit = 200000)
{
    if (out.size() > limit)
        return;
    out.push_back(b);
    for (const auto &p : b->get_args())
        closure(p, out, limit);
}
// free symbols with binders: Subs binds its variables in arg, ImageSet binds sym in expr,
// ConditionSet binds sym in the condition
static set_basic spec_free(const RCP<const Basic> &b)
{
    set_basic s;
    if (is_a_sub<Symbol>(*b)) {
        s.insert(b);
    } else if (is_a<Subs>(*b)) {
        const Subs &x = down_cast<const Subs &>(*b);
        set_basic inner = spec_free(x.get_arg());
        for (const auto &p : inner) {
            bool bound = false;
            for (const auto &v : x.get_variables())
                if (eq(*v, *p))
                    bound = true;
            if (!bound)
                s.insert(p);
        }
        for (const auto &p : x.get_point()) {
            set_basic t = spec_free(p);
            s.insert(t.begin(), t.end());
        }
    } else if (is_a<ImageSet>(*b)) {
        const ImageSet &x = down_cast<const ImageSet &>(*b);
        for (const auto &p : spec_free(x.get_expr()))
            if (!eq(*p, *x.get_symbol()))
                s.insert(p);
        set_basic t = spec_free(x.get_baseset());
        s.insert(t.begin(), t.end());
    } else if (is_a<ConditionSet>(*b)) {
        const ConditionSet &x = down_cast<const ConditionSet &>(*b);
        for (const auto &p : spec_free(x.get_condition()))
            if (!eq(*p, *x.get_symbol()))
                s.insert(p);
    } else {
        for (const auto &p : b->get_args()) {
            set_basic t = spec_free(p);
            s.insert(t.begin(), t.end());
        }
    }
    return s;
}
static bool set_has(const set_basic &s, const RCP<const Basic> &x)
{
    for (const auto &p : s)
        if (eq(*p, *x))
            return true;
    return false;
}
static std::string dumps_of(const set_basic &s)
{
    std::string o;
    bool first = true;
    for (const auto &p : s) {
        o += (first ? "" : " ") + dump39(*p, false);
        first = false;
    }
    return o;
}
static bool same_set(const set_basic &a, const set_basic &b)
{
    if (a.size() != b.size())
        return false;
    for (const auto &p : a)
        if (!set_has(b, p))
            return false;
    for (const auto &p : b)
        if (!set_has(a, p))
            return false;
    return true;
}

// the atoms menu: template instantiation + the same selection by dynamic type
struct MenuItem {
    const char *name;
    set_basic (*lib)(const Basic &);
    bool (*sel)(const Basic &);
};
static const MenuItem MENU[] = {
    {"Symbol", [](const Basic &b) { return atoms<Symbol>(b); },
     [](const Basic &b) { return is_a_sub<Symbol>(b); }},
    {"Dummy", [](const Basic &b) { return atoms<Dummy>(b); }, [](const Basic &b) { return is_a<Dummy>(b); }},
    {"Mul", [](const Basic &b) { return atoms<Mul>(b); }, [](const Basic &b) { return is_a<Mul>(b); }},
    {"AddPow", [](const Basic &b) { return atoms<Add, Pow>(b); },
     [](const Basic &b) { return is_a<Add>(b) or is_a<Pow>(b); }},
    {"Number", [](const Basic &b) { return atoms<Number>(b); }, [](const Basic &b) { return is_a_Number(b); }},
    {"Integer", [](const Basic &b) { return atoms<Integer>(b); }, [](const Basic &b) { return is_a<Integer>(b); }},
    {"SymMul", [](const Basic &b) { return atoms<Symbol, Mul>(b); },
     [](const Basic &b) { return is_a_sub<Symbol>(b) or is_a<Mul>(b); }},
    {"SinDerivSubs", [](const Basic &b) { return atoms<Sin, Derivative, Subs>(b); },
     [](const Basic &b) { return is_a<Sin>(b) or is_a<Derivative>(b) or is_a<Subs>(b); }},
    {"Sets", [](const Basic &b) { return atoms<ImageSet, ConditionSet, Interval, FiniteSet>(b); },
     [](const Basic &b) {
         return is_a<ImageSet>(b) or is_a<ConditionSet>(b) or is_a<Interval>(b) or is_a<FiniteSet>(b);
     }},
};

static std::string coeff_text(const Basic &e, const Basic &x, const Basic &n, RCP<const Basic> *out = nullptr)
{
    try {
        RCP<const Basic> c = coeff(e, x, n);
        if (out)
            *out = c;
        return dump39(*c, true);
    } catch (...) {
        return verif::exn_name();
    }
}

static std::string run_case(const std::string &line, const std::function<void()> &recipe_ok)
{
    std::vector<std::string> f = split_sep(line, "\t");
    while (f.size() < 4)
        f.push_back("");
    RCP<const Basic> e;
    try {
        e = eval39(f[0]);
    } catch (...) {
        return "SKIP recipe";
    }
    recipe_ok();
    std::string de = dump39(*e, false);
    if (de.find("Opaque") != std::string::npos)
        return "SKIP opaque";
    std::ostringstream oracle;

    vec_basic nodes;
    closure(e, nodes);
    bool binder_free = true;
    // Basic::subs does not descend into Intersection / Complement and can crash on nested set
    // expressions (observed; matters of C11 / C27): the renaming oracle is used on set-free trees
    bool subs_reliable = true;
    for (const auto &p : nodes) {
        if (is_binder_class(*p))
            binder_free = false;
        if (is_a_Set(*p))
            subs_reliable = false;
    }

    // ---- has_symbol arguments: the palette, then the Symbol / FunctionSymbol nodes of e
    vec_basic qargs;
    auto add_q = [&](const RCP<const Basic> &x) {
        for (const auto &y : qargs)
            if (eq(*x, *y))
                return;
        if (dump39(*x, false).find("Opaque") == std::string::npos)
            qargs.push_back(x);
    };
    for (const auto &r : split_sep(f[1], " ;; "))
        if (!blank(r)) {
            try {
                add_q(eval39(r));
            } catch (...) {
            }
        }
    size_t found = 0;
    for (const auto &p : nodes)
        if ((is_a_sub<Symbol>(*p) or is_a<FunctionSymbol>(*p)) and found < 16) {
            size_t before = qargs.size();
            add_q(p);
            found += qargs.size() - before;
        }

    // ---- coeff queries
    std::vector<std::pair<RCP<const Basic>, RCP<const Basic>>> cqs;
    for (const auto &q : split_sep(f[2], " || "))
        if (!blank(q)) {
            std::vector<std::string> xn = split_sep(q, " ;; ");
            if (xn.size() != 2)
                continue;
            try {
                RCP<const Basic> x = eval39(xn[0]), n = eval39(xn[1]);
                if (dump39(*x, false).find("Opaque") == std::string::npos
                    and dump39(*n, false).find("Opaque") == std::string::npos)
                    cqs.push_back({x, n});
            } catch (...) {
            }
        }

    std::ostringstream o;
    o << de << "\t";
    for (size_t i = 0; i < qargs.size(); i++)
        o << (i ? " ;; " : "") << dump39(*qargs[i], false);
    o << "\t";
    for (size_t i = 0; i < cqs.size(); i++)
        o << (i ? " || " : "") << dump39(*cqs[i].first, false) << " ;; " << dump39(*cqs[i].second, false);
    o << "\t=>\t";

    // ---- free_symbols
    set_basic fs = free_symbols(*e);
    o << "FS[" << dumps_of(fs) << "]";
    {
        set_basic spec = spec_free(e);
        if (!same_set(fs, spec)) {
            set_basic extra, missing;
            for (const auto &p : fs)
                if (!set_has(spec, p))
                    extra.insert(p);
            for (const auto &p : spec)
                if (!set_has(fs, p))
                    missing.insert(p);
            // class: every extra symbol is the bound symbol of an ImageSet / ConditionSet of e
            bool all_set_bound = missing.empty();
            for (const auto &p : extra) {
                bool is_bound = false;
                for (const auto &q : nodes) {
                    if (is_a<ImageSet>(*q) and eq(*down_cast<const ImageSet &>(*q).get_symbol(), *p))
                        is_bound = true;
                    if (is_a<ConditionSet>(*q) and eq(*down_cast<const ConditionSet &>(*q).get_symbol(), *p))
                        is_bound = true;
                }
                if (!is_bound)
                    all_set_bound = false;
            }
            oracle << "\t#ORACLE:" << (all_set_bound ? "free-symbols-set-binder" : "free-symbols-wrong")
                   << ":free_symbols(e) reports [" << dumps_of(extra) << "] that do not occur free and misses ["
                   << dumps_of(missing) << "]";
        }
    }

    // ---- has_symbol
    o << " HS[";
    for (const auto &x : qargs) {
        bool h = has_symbol(*e, *x);
        o << (h ? "1" : "0");
        if (is_a<FunctionSymbol>(*x)) {
            // a FunctionSymbol argument: true iff a node reachable through get_args is eq to it
            bool present = false;
            for (const auto &q : nodes)
                if (eq(*q, *x))
                    present = true;
            if (h != present)
                oracle << "\t#ORACLE:has-symbol-function-symbol:has_symbol(e, " << dump39(*x, false) << ") = " << h
                       << " but a node eq to it is " << (present ? "" : "not ") << "reachable through get_args";
        }
        if (is_a_sub<Symbol>(*x)) {
            bool infs = set_has(fs, x);
            if (h != infs) {
                // class: x is a variable of a Subs node of e
                bool subs_var = false;
                for (const auto &q : nodes)
                    if (is_a<Subs>(*q))
                        for (const auto &v : down_cast<const Subs &>(*q).get_variables())
                            if (eq(*v, *x))
                                subs_var = true;
                oracle << "\t#ORACLE:" << ((h and !infs and subs_var) ? "has-symbol-subs-bound-variable" : "has-symbol-disagrees")
                       << ":has_symbol(e, " << dump39(*x, false) << ") = " << h << " but membership in free_symbols(e) = " << infs;
            }
            if (binder_free and subs_reliable) {
                // renaming x to a fresh symbol changes the printed text iff x occurs
                try {
                    map_basic_basic m;
                    m[x] = symbol("QQfresh39");
                    bool occurs = e->subs(m)->__str__().find("QQfresh39") != std::string::npos;
                    if (occurs != set_has(fs, x))
                        oracle << "\t#ORACLE:occurs-subs:renaming " << dump39(*x, false) << " "
                               << (occurs ? "changes" : "does not change") << " e, but membership in free_symbols(e) = "
                               << set_has(fs, x);
                } catch (...) {
                }
            }
        }
    }
    o << "]";

    // ---- function_symbols and atoms
    auto naive = [&](bool (*sel)(const Basic &)) {
        set_basic s;
        for (const auto &p : nodes)
            if (sel(*p))
                s.insert(p);
        return s;
    };
    {
        set_basic fn = function_symbols(*e);
        o << " FN[" << dumps_of(fn) << "]";
        if (!same_set(fn, naive([](const Basic &b) { return is_a<FunctionSymbol>(b); })))
            oracle << "\t#ORACLE:atoms:function_symbols(e) differs from the FunctionSymbol nodes reachable through get_args";
    }
    for (const auto &m : MENU) {
        set_basic a = m.lib(*e);
        o << " A:" << m.name << "[" << dumps_of(a) << "]";
        if (!same_set(a, naive(m.sel)))
            oracle << "\t#ORACLE:atoms:atoms<" << m.name << ">(e) differs from the matching nodes reachable through get_args";
    }

    // ---- coeff
    o << " CO[";
    for (size_t i = 0; i < cqs.size(); i++)
        o << (i ? " ; " : "") << coeff_text(*e, *cqs[i].first, *cqs[i].second);
    o << "]";
    if (!blank(f[3])) {
        // POLY <recipe x> <maxdeg>: e is (by construction) a polynomial in x of degree <= maxdeg
        try {
            verif::Sexp ps = verif::parse_sexp("(" + f[3] + ")");
            if (ps.kids.size() == 3 and ps.kids[0].atom == "POLY") {
                RCP<const Basic> x = eval39(ps.kids[1]);
                int maxdeg = std::stoi(ps.kids[2].atom);
                RCP<const Basic> sum = zero;
                bool ok = true;
                for (int k = 0; k <= maxdeg; k++) {
                    RCP<const Basic> c;
                    std::string t = coeff_text(*e, *x, *integer(k), &c);
                    if (c.is_null()) {
                        ok = false;
                        break;
                    }
                    if (has_symbol(*c, *x))
                        oracle << "\t#ORACLE:coeff-contains-x:coeff(e, x, " << k << ") = " << t << " contains x";
                    sum = add(sum, mul(c, pow(x, integer(k))));
                }
                if (ok and !eq(*expand(sum), *expand(e)))
                    oracle << "\t#ORACLE:coeff-reconstruct:sum of coeff(e,x,k)*x^k, k<=" << maxdeg << ", expands to "
                           << expand(sum)->__str__() << " but e expands to " << expand(e)->__str__();
            }
        } catch (...) {
        }
    }
    return o.str() + oracle.str();
}

// Cases are run in batches inside one forked child that streams its results through a pipe
// ("@" = the recipe of the current case has been evaluated; then the result line).  When the
// child dies, the case it was working on is reported (CRASH:<sig> / HANG when the recipe had
// been evaluated, SKIP otherwise: a crash inside a constructor belongs to that operation's
// property) and a fresh child resumes with the next case.
int main()
{
    std::vector<std::string> lines;
    std::string line;
    while (std::getline(std::cin, line))
        lines.push_back(line);
    size_t n = lines.size(), start = 0;
    std::vector<std::string> out(n);
    while (start < n) {
        int fd[2];
        if (pipe(fd) != 0)
            return 3;
        fflush(stdout);
        pid_t pid = fork();
        if (pid == 0) {
            close(fd[0]);
            struct rlimit rl;
            rl.rlim_cur = rl.rlim_max = 0;
            setrlimit(RLIMIT_CORE, &rl);
            auto send = [&](const std::string &s) {
                size_t off = 0;
                while (off < s.size()) {
                    ssize_t w = write(fd[1], s.data() + off, s.size() - off);
                    if (w <= 0)
                        _exit(4);
                    off += (size_t)w;
                }
            };
            for (size_t i = start; i < n; i++) {
                alarm(60);
                std::string r;
                try {
                    r = run_case(lines[i], [&]() { send("@\n"); });
                } catch (...) {
                    r = "UNCAUGHT";
                }
                for (auto &c : r)
                    if (c == '\n')
                        c = ' ';
                send(r + "\n");
            }
            _exit(0);
        }
        close(fd[1]);
        std::string buf;
        char tmp[65536];
        ssize_t r;
        while ((r = read(fd[0], tmp, sizeof tmp)) > 0)
            buf.append(tmp, (size_t)r);
        close(fd[0]);
        int status = 0;
        waitpid(pid, &status, 0);
        size_t i = start, pos = 0;
        bool recipe_ok = false;
        while (pos < buf.size() and i < n) {
            size_t nl = buf.find('\n', pos);
            if (nl == std::string::npos)
                break; // incomplete last line: the child died while writing
            std::string l = buf.substr(pos, nl - pos);
            pos = nl + 1;
            if (l == "@") {
                recipe_ok = true;
            } else {
                out[i++] = l;
                recipe_ok = false;
            }
        }
        if (i >= n)
            break;
        if (WIFSIGNALED(status)) {
            int sig = WTERMSIG(status);
            if (!recipe_ok)
                out[i] = "SKIP recipe-crash:" + std::to_string(sig);
            else
                out[i] = sig == SIGALRM ? "HANG" : "CRASH:" + std::to_string(sig);
        } else {
            out[i] = "SKIP child-exit";
        }
        start = i + 1;
    }
    for (const auto &l : out)
        std::cout << l << "\n";
    return 0;
}
