// C42 driver: runs a sequence of C API calls (symengine/cwrapper.h) on a fixed set of handles and, in lock step,
// the CORRESPONDING C++ API calls on a mirror state (RCP / std::vector / std::set / std::map), written by hand
// from the documentation in cwrapper.h -- the MIRROR table below.  Output (one line per case, records separated
// by " ## ", fields by " @ "):
//     MS @ k @ fname                         the mirror (C++ API) computation of call k starts
//     M  @ k @ tmpl @ n @ arg1 .. argn @ res the C++ API query of call k and its result (value or EXN<class>)
//     CS @ k @ fname                         the C call starts
//     C  @ k @ outcome @ h=value ...         outcome of the C call, then every handle argument after the call
//     F  @ h=value ...                       final state of all handles
// followed by "\t#ORACLE:<class>:<fname>:<detail>" when the C side and the mirror disagree (the property oracle,
// independent of the Coq model).  A child that dies leaves its partial line + CRASH:<sig> (or HANG).
// The extracted model (ocaml/c42_main.ml) reads the case and the M records (the C++ core as an oracle) and
// must print the same C / F records.
//
// Expression cases ("X <hex a> <hex b>"): every Expression operator of expression.h (XMIRROR table) against the
// core function it should forward to.
#include <symengine/basic.h>
#include <symengine/add.h>
#include <symengine/mul.h>
#include <symengine/pow.h>
#include <symengine/functions.h>
#include <symengine/constants.h>
#include <symengine/integer.h>
#include <symengine/rational.h>
#include <symengine/complex.h>
#include <symengine/real_double.h>
#include <symengine/complex_double.h>
#include <symengine/symbol.h>
#include <symengine/sets.h>
#include <symengine/logic.h>
#include <symengine/infinity.h>
#include <symengine/nan.h>
#include <symengine/ntheory.h>
#include <symengine/ntheory_funcs.h>
#include <symengine/visitor.h>
#include <symengine/derivative.h>
#include <symengine/subs.h>
#include <symengine/eval.h>
#include <symengine/parser.h>
#include <symengine/printers.h>
#include <symengine/lambda_double.h>
#include <symengine/expression.h>
#include <symengine/symengine_exception.h>
#include <symengine/cwrapper.h>
#include "common.h"
#include "dump.h"
#include <map>
#include <set>
#include <functional>
using namespace SymEngine;

// ------------------------------------------------------------------------------------------------ values
static std::string hexenc(const std::string &s)
{
    return verif::hexbytes(s);
}
static double dbl_of_hex(const std::string &h)
{
    uint64_t u = std::stoull(h, nullptr, 16);
    double d;
    std::memcpy(&d, &u, 8);
    return d;
}
static std::string hexdec(const std::string &h)
{
    std::string o;
    for (size_t i = 1; i + 1 < h.size(); i += 2)
        o += (char)std::stoi(h.substr(i, 2), nullptr, 16);
    return o;
}

struct CV {
    char k; // B V S P I D T N
    RCP<const Basic> b;
    vec_basic v;
    set_basic s;
    map_basic_basic p;
    std::string i; // decimal integer
    std::string t; // string / hex double bits
};
static CV RB(const RCP<const Basic> &x)
{
    CV c;
    c.k = 'B';
    c.b = x;
    return c;
}
static CV RV(const vec_basic &x)
{
    CV c;
    c.k = 'V';
    c.v = x;
    return c;
}
static CV RS(const set_basic &x)
{
    CV c;
    c.k = 'S';
    c.s = x;
    return c;
}
static CV RP(const map_basic_basic &x)
{
    CV c;
    c.k = 'P';
    c.p = x;
    return c;
}
static CV RI(long long x)
{
    CV c;
    c.k = 'I';
    c.i = std::to_string(x);
    return c;
}
static CV RU(unsigned long long x)
{
    CV c;
    c.k = 'I';
    c.i = std::to_string(x);
    return c;
}
static CV RT(const std::string &x)
{
    CV c;
    c.k = 'T';
    c.t = x;
    return c;
}
static CV RD(double x)
{
    CV c;
    c.k = 'D';
    c.t = verif::dblbits(x);
    return c;
}
static CV RN()
{
    CV c;
    c.k = 'N';
    return c;
}
static std::string show(const CV &c)
{
    std::string o;
    switch (c.k) {
        case 'B':
            return "B" + verif::dump(*c.b);
        case 'V':
            o = "V[";
            for (size_t i = 0; i < c.v.size(); i++)
                o += (i ? ";" : "") + verif::dump(*c.v[i]);
            return o + "]";
        case 'S':
            o = "S[";
            for (auto it = c.s.begin(); it != c.s.end(); ++it)
                o += (it != c.s.begin() ? ";" : "") + verif::dump(**it);
            return o + "]";
        case 'P':
            o = "P[";
            for (auto it = c.p.begin(); it != c.p.end(); ++it)
                o += (it != c.p.begin() ? ";" : "") + verif::dump(*it->first) + ":" + verif::dump(*it->second);
            return o + "]";
        case 'I':
            return "I" + c.i;
        case 'D':
            return "D" + c.t;
        case 'T':
            return "T" + hexenc(c.t);
        default:
            return "N";
    }
}

// ------------------------------------------------------------------------------------------------ calls
struct Arg {
    char k;        // b v s m i d t L
    int idx;       // handle index
    std::string s; // literal text (decimal / hex bits / decoded string)
};
struct Call {
    std::string fn;
    std::vector<Arg> a;
};

static const int NB = 6, NV = 2, NS = 2, NM = 2;
// C side
static basic cb[NB];
static CVecBasic *cv[NV];
static CSetBasic *cs[NS];
static CMapBasicBasic *cm[NM];
// mirror side
static RCP<const Basic> mb[NB];
static vec_basic mv[NV];
static set_basic ms[NS];
static map_basic_basic mm[NM];

static bool parse_call(const std::string &txt, Call &c)
{
    std::vector<std::string> t = verif::split_ws(txt);
    if (t.empty())
        return false;
    c.fn = t[0];
    for (size_t i = 1; i < t.size(); i++) {
        Arg a;
        const std::string &x = t[i];
        a.idx = 0;
        if (x.size() >= 2 && x[1] == ':') {
            a.k = x[0];
            a.s = x.substr(2);
            if (a.k == 't')
                a.s = hexdec(a.s);
            if (a.k != 'i' && a.k != 'd' && a.k != 't')
                return false;
        } else if (x == "L") {
            a.k = 'L';
        } else {
            a.k = x[0];
            a.idx = std::stoi(x.substr(1));
            int lim = a.k == 'b' ? NB : a.k == 'v' ? NV : a.k == 's' ? NS : a.k == 'm' ? NM : -1;
            if (a.idx < 0 || a.idx >= lim)
                return false;
        }
        c.a.push_back(a);
    }
    return true;
}

// accessors used by the mirror entries: the mirror value of the i-th C parameter
static const Call *CUR;
static const RCP<const Basic> &MB(int i)
{
    return mb[CUR->a.at(i).idx];
}
static vec_basic &MV(int i)
{
    return mv[CUR->a.at(i).idx];
}
static set_basic &MS(int i)
{
    return ms[CUR->a.at(i).idx];
}
static map_basic_basic &MM(int i)
{
    return mm[CUR->a.at(i).idx];
}
static long ML(int i)
{
    return std::stol(CUR->a.at(i).s);
}
static unsigned long MU(int i)
{
    return std::stoul(CUR->a.at(i).s);
}
static double MD(int i)
{
    return dbl_of_hex(CUR->a.at(i).s);
}
static const std::string &MT(int i)
{
    return CUR->a.at(i).s;
}
template <class T>
static RCP<const T> AS(const RCP<const Basic> &b)
{
    return rcp_static_cast<const T>(b);
}

// documented run-time type checks (the C function answers SYMENGINE_RUNTIME_ERROR)
template <class T>
static RCP<const T> need(const RCP<const Basic> &b)
{
    if (not is_a<T>(*b))
        throw SymEngineException("argument of the wrong type");
    return rcp_static_cast<const T>(b);
}

template <class T>
static T nonzero(T x)
{
    if (x == 0)
        throw DivisionByZeroError("zero denominator");
    return x;
}

// the value of argument i as the oracle sees it
static CV argval_mirror(const Call &c, int i)
{
    const Arg &a = c.a.at(i);
    switch (a.k) {
        case 'b':
            return RB(mb[a.idx]);
        case 'v':
            return RV(mv[a.idx]);
        case 's':
            return RS(ms[a.idx]);
        case 'm':
            return RP(mm[a.idx]);
        case 'i': {
            CV x;
            x.k = 'I';
            x.i = a.s;
            return x;
        }
        case 'd': {
            CV x;
            x.k = 'D';
            x.t = a.s;
            return x;
        }
        case 't':
            return RT(a.s);
        default:
            return RN();
    }
}

// ------------------------------------------------------------------------------------------------ mirror table
// MIRROR(c function, forwarded C++ expression with $ for parameters, (parameter standing at each $),
//        OUT(i) | RET | NOOUT, <the same computation written against the C++ API>)
// translators/tr_cwrapper.py reads the first four fields into coq/C42/Gen_CWrap.v (expected_table).
struct MirrorEntry {
    std::string tmpl;
    std::vector<int> order;
    int out; // >= 0: parameter index, -1: returned, -2: none
    std::function<CV()> fn;
};
static std::map<std::string, MirrorEntry> MIR;
#define UNPAREN(...) __VA_ARGS__
#define OUT(i) (i)
#define RET (-1)
#define NOOUT (-2)
#define MIRROR(name, tmpl, order, outspec, ...)                                                                        \
    MIR[name] = MirrorEntry{tmpl, std::vector<int>{UNPAREN order}, outspec, []() -> CV { return __VA_ARGS__; }};

static std::string _mstr(const Basic &a)
{
    return a.__str__();
}

static void init_mirror()
{
    // constants
    MIRROR("basic_const_set", "constant($)", (1), OUT(0), RB(constant(MT(1))))
    MIRROR("basic_const_zero", "zero", (), OUT(0), RB(zero))
    MIRROR("basic_const_one", "one", (), OUT(0), RB(one))
    MIRROR("basic_const_minus_one", "minus_one", (), OUT(0), RB(minus_one))
    MIRROR("basic_const_I", "I", (), OUT(0), RB(I))
    MIRROR("basic_const_pi", "pi", (), OUT(0), RB(pi))
    MIRROR("basic_const_E", "E", (), OUT(0), RB(E))
    MIRROR("basic_const_EulerGamma", "EulerGamma", (), OUT(0), RB(EulerGamma))
    MIRROR("basic_const_Catalan", "Catalan", (), OUT(0), RB(Catalan))
    MIRROR("basic_const_GoldenRatio", "GoldenRatio", (), OUT(0), RB(GoldenRatio))
    MIRROR("basic_const_infinity", "Inf", (), OUT(0), RB(Inf))
    MIRROR("basic_const_neginfinity", "NegInf", (), OUT(0), RB(NegInf))
    MIRROR("basic_const_complex_infinity", "ComplexInf", (), OUT(0), RB(ComplexInf))
    MIRROR("basic_const_nan", "Nan", (), OUT(0), RB(Nan))
    MIRROR("bool_set_true", "boolTrue", (), OUT(0), RB(boolTrue))
    MIRROR("bool_set_false", "boolFalse", (), OUT(0), RB(boolFalse))
    MIRROR("basic_set_emptyset", "emptyset()", (), OUT(0), RB(emptyset()))
    MIRROR("basic_set_universalset", "universalset()", (), OUT(0), RB(universalset()))
    MIRROR("basic_set_complexes", "complexes()", (), OUT(0), RB(complexes()))
    MIRROR("basic_set_reals", "reals()", (), OUT(0), RB(reals()))
    MIRROR("basic_set_rationals", "rationals()", (), OUT(0), RB(rationals()))
    MIRROR("basic_set_integers", "integers()", (), OUT(0), RB(integers()))
    // constructors from C scalars
    MIRROR("symbol_set", "symbol($)", (1), OUT(0), RB(symbol(MT(1))))
    MIRROR("integer_set_si", "integer(integer_class($))", (1), OUT(0), RB(integer(integer_class(ML(1)))))
    MIRROR("integer_set_ui", "integer(integer_class($))", (1), OUT(0), RB(integer(integer_class(MU(1)))))
    MIRROR("integer_set_str", "integer(integer_class($))", (1), OUT(0), RB(integer(integer_class(MT(1)))))
    MIRROR("real_double_set_d", "real_double($)", (1), OUT(0), RB(real_double(MD(1))))
    // a zero denominator is a division by zero (GMP itself would raise SIGFPE)
    MIRROR("rational_set_si", "Rational::from_mpq(rational_class($,$))", (1, 2), OUT(0),
           RB(Rational::from_mpq(rational_class(ML(1), nonzero(ML(2))))))
    MIRROR("rational_set_ui", "Rational::from_mpq(rational_class($,$))", (1, 2), OUT(0),
           RB(Rational::from_mpq(rational_class(MU(1), nonzero(MU(2))))))
    // cwrapper.h: "Returns SYMENGINE_RUNTIME_ERROR if either i or j is not an integer"
    MIRROR("rational_set", "Rational::from_two_ints($,$)", (1, 2), OUT(0),
           RB(Rational::from_two_ints(*need<Integer>(MB(1)), *need<Integer>(MB(2)))))
    MIRROR("complex_set", "Complex::from_two_nums($,$)", (1, 2), OUT(0),
           RB(Complex::from_two_nums(*AS<Number>(MB(1)), *AS<Number>(MB(2)))))
    MIRROR("basic_parse", "parse($)", (1), OUT(0), RB(parse(MT(1))))
    MIRROR("basic_assign", "$", (1), OUT(0), RB(MB(1)))
    MIRROR("function_symbol_set", "function_symbol($,$)", (1, 2), OUT(0), RB(function_symbol(MT(1), MV(2))))
    // accessors
    MIRROR("basic_get_type", "$.get_type_code()", (0), RET, RI((long long)MB(0)->get_type_code()))
    MIRROR("number_is_zero", "$.is_zero()", (0), RET, RI(AS<Number>(MB(0))->is_zero() ? 1 : 0))
    MIRROR("number_is_negative", "$.is_negative()", (0), RET, RI(AS<Number>(MB(0))->is_negative() ? 1 : 0))
    MIRROR("number_is_positive", "$.is_positive()", (0), RET, RI(AS<Number>(MB(0))->is_positive() ? 1 : 0))
    MIRROR("number_is_complex", "$.is_complex()", (0), RET, RI(AS<Number>(MB(0))->is_complex() ? 1 : 0))
    MIRROR("basic_has_symbol", "has_symbol($,$)", (0, 1), RET, RI(has_symbol(*MB(0), *MB(1)) ? 1 : 0))
    MIRROR("real_double_get_d", "$.as_double()", (0), RET, RD(AS<RealDouble>(MB(0))->as_double()))
    MIRROR("integer_get_si", "mp_get_si($.as_integer_class())", (0), RET,
           RI(mp_get_si(AS<Integer>(MB(0))->as_integer_class())))
    MIRROR("integer_get_ui", "mp_get_ui($.as_integer_class())", (0), RET,
           RU(mp_get_ui(AS<Integer>(MB(0))->as_integer_class())))
    MIRROR("complex_base_real_part", "$.real_part()", (1), OUT(0), RB(AS<ComplexBase>(MB(1))->real_part()))
    MIRROR("complex_base_imaginary_part", "$.imaginary_part()", (1), OUT(0), RB(AS<ComplexBase>(MB(1))->imaginary_part()))
    MIRROR("basic_eq", "eq($,$)?1:0", (0, 1), RET, RI(eq(*MB(0), *MB(1)) ? 1 : 0))
    MIRROR("basic_neq", "neq($,$)?1:0", (0, 1), RET, RI(neq(*MB(0), *MB(1)) ? 1 : 0))
    MIRROR("basic_hash", "$.hash()", (0), RET, RU(MB(0)->hash()))
    MIRROR("is_a_Number", "is_a_Number($)", (0), RET, RI(is_a_Number(*MB(0)) ? 1 : 0))
    MIRROR("is_a_Integer", "is_a<Integer>($)", (0), RET, RI(is_a<Integer>(*MB(0)) ? 1 : 0))
    MIRROR("is_a_Rational", "is_a<Rational>($)", (0), RET, RI(is_a<Rational>(*MB(0)) ? 1 : 0))
    MIRROR("is_a_Symbol", "is_a<Symbol>($)", (0), RET, RI(is_a<Symbol>(*MB(0)) ? 1 : 0))
    MIRROR("is_a_Complex", "is_a<Complex>($)", (0), RET, RI(is_a<Complex>(*MB(0)) ? 1 : 0))
    MIRROR("is_a_RealDouble", "is_a<RealDouble>($)", (0), RET, RI(is_a<RealDouble>(*MB(0)) ? 1 : 0))
    MIRROR("is_a_ComplexDouble", "is_a<ComplexDouble>($)", (0), RET, RI(is_a<ComplexDouble>(*MB(0)) ? 1 : 0))
    MIRROR("is_a_Set", "is_a_Set($)", (0), RET, RI(is_a_Set(*MB(0)) ? 1 : 0))
    // arithmetic
    // cwrapper.h: "Returns SYMENGINE_RUNTIME_ERROR if symbol is not a Symbol"
    MIRROR("basic_diff", "$.diff($)", (1, 2), OUT(0), RB(MB(1)->diff(need<Symbol>(MB(2)))))
    MIRROR("basic_add", "add($,$)", (1, 2), OUT(0), RB(add(MB(1), MB(2))))
    MIRROR("basic_sub", "sub($,$)", (1, 2), OUT(0), RB(sub(MB(1), MB(2))))
    MIRROR("basic_mul", "mul($,$)", (1, 2), OUT(0), RB(mul(MB(1), MB(2))))
    MIRROR("basic_pow", "pow($,$)", (1, 2), OUT(0), RB(pow(MB(1), MB(2))))
    MIRROR("basic_div", "div($,$)", (1, 2), OUT(0), RB(div(MB(1), MB(2))))
#define M1(f) MIRROR("basic_" #f, #f "($)", (1), OUT(0), RB(SymEngine::f(MB(1))))
    M1(expand) M1(neg) M1(abs) M1(erf) M1(erfc) M1(sin) M1(cos) M1(tan) M1(csc) M1(sec) M1(cot) M1(asin) M1(acos)
    M1(asec) M1(acsc) M1(atan) M1(acot) M1(sinh) M1(cosh) M1(tanh) M1(csch) M1(sech) M1(coth) M1(asinh) M1(acosh)
    M1(asech) M1(acsch) M1(atanh) M1(acoth) M1(lambertw) M1(zeta) M1(dirichlet_eta) M1(gamma) M1(loggamma) M1(sqrt)
    M1(cbrt) M1(exp) M1(log) M1(floor) M1(ceiling) M1(sign)
#define M2(f) MIRROR("basic_" #f, #f "($,$)", (1, 2), OUT(0), RB(SymEngine::f(MB(1), MB(2))))
    M2(atan2) M2(kronecker_delta) M2(lowergamma) M2(uppergamma) M2(beta) M2(polygamma)
    // printing
    MIRROR("basic_str", "_str($)", (0), RET, RT(_mstr(*MB(0))))
    MIRROR("basic_str_julia", "julia_str($)", (0), RET, RT(julia_str(*MB(0))))
    MIRROR("basic_str_mathml", "mathml($)", (0), RET, RT(mathml(*MB(0))))
    MIRROR("basic_str_latex", "latex($)", (0), RET, RT(latex(*MB(0))))
    MIRROR("basic_str_jscode", "jscode($)", (0), RET, RT(jscode(*MB(0))))
    MIRROR("basic_str_ccode", "ccode($)", (0), RET, RT(ccode(*MB(0))))
    // sets
    MIRROR("basic_set_interval", "interval($,$,$,$)", (1, 2, 3, 4), OUT(0),
           RB(interval(AS<Number>(MB(1)), AS<Number>(MB(2)), ML(3) != 0, ML(4) != 0)))
    MIRROR("basic_set_finiteset", "finiteset($)", (1), OUT(0), RB(finiteset(MS(1))))
    MIRROR("basic_set_union", "$.set_union($)", (1, 2), OUT(0), RB(AS<Set>(MB(1))->set_union(AS<Set>(MB(2)))))
    MIRROR("basic_set_intersection", "$.set_intersection($)", (1, 2), OUT(0),
           RB(AS<Set>(MB(1))->set_intersection(AS<Set>(MB(2)))))
    MIRROR("basic_set_complement", "$.set_complement($)", (1, 2), OUT(0),
           RB(AS<Set>(MB(1))->set_complement(AS<Set>(MB(2)))))
    MIRROR("basic_set_contains", "$.contains($)", (1, 2), OUT(0), RB(AS<Set>(MB(1))->contains(MB(2))))
    MIRROR("basic_set_is_subset", "$.is_subset($)", (0, 1), RET, RI(AS<Set>(MB(0))->is_subset(AS<Set>(MB(1))) ? 1 : 0))
    MIRROR("basic_set_is_proper_subset", "$.is_proper_subset($)", (0, 1), RET,
           RI(AS<Set>(MB(0))->is_proper_subset(AS<Set>(MB(1))) ? 1 : 0))
    MIRROR("basic_set_is_superset", "$.is_superset($)", (0, 1), RET,
           RI(AS<Set>(MB(0))->is_superset(AS<Set>(MB(1))) ? 1 : 0))
    MIRROR("basic_set_is_proper_superset", "$.is_proper_superset($)", (0, 1), RET,
           RI(AS<Set>(MB(0))->is_proper_superset(AS<Set>(MB(1))) ? 1 : 0))
    MIRROR("basic_set_inf", "inf($)", (1), OUT(0), RB(inf(*AS<Set>(MB(1)))))
    MIRROR("basic_set_sup", "sup($)", (1), OUT(0), RB(sup(*AS<Set>(MB(1)))))
    MIRROR("basic_set_boundary", "boundary($)", (1), OUT(0), RB(boundary(*AS<Set>(MB(1)))))
    MIRROR("basic_set_interior", "interior($)", (1), OUT(0), RB(interior(*AS<Set>(MB(1)))))
    MIRROR("basic_set_closure", "closure($)", (1), OUT(0), RB(closure(*AS<Set>(MB(1)))))
    // vectors as arguments / results
    MIRROR("basic_max", "max($)", (1), OUT(0), RB(max(MV(1))))
    MIRROR("basic_min", "min($)", (1), OUT(0), RB(min(MV(1))))
    MIRROR("basic_add_vec", "add($)", (1), OUT(0), RB(add(MV(1))))
    MIRROR("basic_mul_vec", "mul($)", (1), OUT(0), RB(mul(MV(1))))
    MIRROR("basic_get_args", "$.get_args()", (0), OUT(1), RV(MB(0)->get_args()))
    MIRROR("basic_free_symbols", "free_symbols($)", (0), OUT(1), RS(free_symbols(*MB(0))))
    MIRROR("basic_function_symbols", "atoms<FunctionSymbol>($)", (1), OUT(0), RS(atoms<FunctionSymbol>(*MB(1))))
    MIRROR("basic_subs", "$.subs($)", (1, 2), OUT(0), RB(MB(1)->subs(MM(2))))
    MIRROR("basic_subs2", "$.subs({{$,$}})", (1, 2, 3), OUT(0), RB(MB(1)->subs({{MB(2), MB(3)}})))
    MIRROR("basic_coeff", "coeff($,$,$)", (1, 2, 3), OUT(0), RB(coeff(*MB(1), *MB(2), *MB(3))))
    // number theory
    MIRROR("ntheory_gcd", "gcd($,$)", (1, 2), OUT(0), RB(gcd(*AS<Integer>(MB(1)), *AS<Integer>(MB(2)))))
    MIRROR("ntheory_lcm", "lcm($,$)", (1, 2), OUT(0), RB(lcm(*AS<Integer>(MB(1)), *AS<Integer>(MB(2)))))
    MIRROR("ntheory_nextprime", "nextprime($)", (1), OUT(0), RB(nextprime(*AS<Integer>(MB(1)))))
    MIRROR("ntheory_mod", "mod($,$)", (1, 2), OUT(0), RB(mod(*AS<Integer>(MB(1)), *AS<Integer>(MB(2)))))
    MIRROR("ntheory_quotient", "quotient($,$)", (1, 2), OUT(0), RB(quotient(*AS<Integer>(MB(1)), *AS<Integer>(MB(2)))))
    MIRROR("ntheory_mod_f", "mod_f($,$)", (1, 2), OUT(0), RB(mod_f(*AS<Integer>(MB(1)), *AS<Integer>(MB(2)))))
    MIRROR("ntheory_quotient_f", "quotient_f($,$)", (1, 2), OUT(0),
           RB(quotient_f(*AS<Integer>(MB(1)), *AS<Integer>(MB(2)))))
    MIRROR("ntheory_fibonacci", "fibonacci($)", (1), OUT(0), RB(fibonacci(MU(1))))
    MIRROR("ntheory_lucas", "lucas($)", (1), OUT(0), RB(lucas(MU(1))))
    MIRROR("ntheory_binomial", "binomial($,$)", (1, 2), OUT(0), RB(binomial(*AS<Integer>(MB(1)), MU(2))))
    MIRROR("ntheory_factorial", "factorial($)", (1), OUT(0), RB(factorial(MU(1))))
    MIRROR("basic_evalf", "evalf($,$,$)", (1, 2, 3), OUT(0), RB(evalf(*MB(1), MU(2), (EvalfDomain)ML(3))))
    // numerical evaluation object: a fresh visitor per call (not part of the state)
    MIRROR("lambda_real_double_visitor_init", "$.init($,$,$)", (0, 1, 2, 3), NOOUT,
           (LambdaRealDoubleVisitor().init(MV(1), MV(2), ML(3) != 0), RN()))
}

// functions whose bodies are not a single forwarded expression: the mirror is the std container operation
// (with the range checks the property asks for: an out-of-range index is an error, not undefined behaviour)
static bool container_mirror(const Call &c, CV &res, int &out)
{
    const std::string &f = c.fn;
    out = -2;
    if (f == "vecbasic_push_back") {
        MV(0).push_back(MB(1));
        res = RN();
    } else if (f == "vecbasic_get") {
        res = RB(MV(0).at(MU(1)));
        out = 2;
    } else if (f == "vecbasic_set") {
        MV(0).at(MU(1)) = MB(2);
        res = RN();
    } else if (f == "vecbasic_erase") {
        (void)MV(0).at(MU(1));
        MV(0).erase(MV(0).begin() + MU(1));
        res = RN();
    } else if (f == "vecbasic_size") {
        res = RU(MV(0).size());
        out = -1;
    } else if (f == "setbasic_insert") {
        res = RI(MS(0).insert(MB(1)).second ? 1 : 0);
        out = -1;
    } else if (f == "setbasic_get") {
        long n = ML(1);
        if (n < 0 || (size_t)n >= MS(0).size())
            throw std::out_of_range("setbasic_get");
        res = RB(*std::next(MS(0).begin(), n));
        out = 2;
    } else if (f == "setbasic_find") {
        res = RI(MS(0).find(MB(1)) != MS(0).end() ? 1 : 0);
        out = -1;
    } else if (f == "setbasic_erase") {
        res = RI(MS(0).erase(MB(1)) ? 1 : 0);
        out = -1;
    } else if (f == "setbasic_size") {
        res = RU(MS(0).size());
        out = -1;
    } else if (f == "mapbasicbasic_insert") {
        MM(0)[MB(1)] = MB(2);
        res = RN();
    } else if (f == "mapbasicbasic_get") {
        auto it = MM(0).find(MB(1));
        if (it != MM(0).end()) {
            mb[c.a.at(2).idx] = it->second;
            res = RI(1);
        } else
            res = RI(0);
        out = -1;
    } else if (f == "mapbasicbasic_size") {
        res = RU(MM(0).size());
        out = -1;
    } else if (f == "basic_dumps") {
        res = RU(MB(0)->dumps().length());
        out = -1;
    } else if (f == "basic_parse2") {
        res = RB(ML(2) > 0 ? parse(MT(1)) : parse(MT(1), false));
        out = 0;
    } else
        return false;
    return true;
}

// ------------------------------------------------------------------------------------------------ C side
struct COut {
    char k; // R (error code) I (integer) S (string or null) V (void) D (double) E (escape)
    long rc;
    std::string i;
    std::string s;
    bool null;
};
static basic_struct *CB(const Call &c, int i)
{
    return cb[c.a.at(i).idx];
}
typedef void (*f_v_b)(basic);
typedef CWRAPPER_OUTPUT_TYPE (*f_r_bb)(basic, const basic);
typedef CWRAPPER_OUTPUT_TYPE (*f_r_bbb)(basic, const basic, const basic);
typedef int (*f_i_b)(const basic);
typedef int (*f_i_bb)(const basic, const basic);
typedef char *(*f_s_b)(const basic);
typedef CWRAPPER_OUTPUT_TYPE (*f_r_bv)(basic, const CVecBasic *);
typedef CWRAPPER_OUTPUT_TYPE (*f_r_bu)(basic, unsigned long);
static std::map<std::string, f_v_b> F_V_B;
static std::map<std::string, f_r_bb> F_R_BB;
static std::map<std::string, f_r_bbb> F_R_BBB;
static std::map<std::string, f_i_b> F_I_B;
static std::map<std::string, f_i_bb> F_I_BB;
static std::map<std::string, f_s_b> F_S_B;
static std::map<std::string, f_r_bv> F_R_BV;
static std::map<std::string, f_r_bu> F_R_BU;
static int c_basic_get_type(const basic b)
{
    return (int)basic_get_type(b);
}
static CWRAPPER_OUTPUT_TYPE c_basic_diff(basic s, const basic e, const basic x)
{
    return basic_diff(s, e, x);
}
static void init_c()
{
#define V(f) F_V_B[#f] = f;
    V(basic_const_zero) V(basic_const_one) V(basic_const_minus_one) V(basic_const_I) V(basic_const_pi) V(basic_const_E)
    V(basic_const_EulerGamma) V(basic_const_Catalan) V(basic_const_GoldenRatio) V(basic_const_infinity)
    V(basic_const_neginfinity) V(basic_const_complex_infinity) V(basic_const_nan) V(bool_set_true) V(bool_set_false)
    V(basic_set_emptyset) V(basic_set_universalset) V(basic_set_complexes) V(basic_set_reals) V(basic_set_rationals)
    V(basic_set_integers)
#define R1(f) F_R_BB["basic_" #f] = basic_##f;
    R1(expand) R1(neg) R1(abs) R1(erf) R1(erfc) R1(sin) R1(cos) R1(tan) R1(csc) R1(sec) R1(cot) R1(asin) R1(acos)
    R1(asec) R1(acsc) R1(atan) R1(acot) R1(sinh) R1(cosh) R1(tanh) R1(csch) R1(sech) R1(coth) R1(asinh) R1(acosh)
    R1(asech) R1(acsch) R1(atanh) R1(acoth) R1(lambertw) R1(zeta) R1(dirichlet_eta) R1(gamma) R1(loggamma) R1(sqrt)
    R1(cbrt) R1(exp) R1(log) R1(floor) R1(ceiling) R1(sign) R1(assign) R1(set_inf) R1(set_sup) R1(set_boundary)
    R1(set_interior) R1(set_closure)
    F_R_BB["complex_base_real_part"] = complex_base_real_part;
    F_R_BB["complex_base_imaginary_part"] = complex_base_imaginary_part;
    F_R_BB["ntheory_nextprime"] = ntheory_nextprime;
#define R2(f) F_R_BBB["basic_" #f] = basic_##f;
    R2(add) R2(sub) R2(mul) R2(pow) R2(div) R2(atan2) R2(kronecker_delta) R2(lowergamma) R2(uppergamma) R2(beta)
    R2(polygamma) R2(set_union) R2(set_intersection) R2(set_complement) R2(set_contains)
    F_R_BBB["basic_diff"] = c_basic_diff;
    F_R_BBB["rational_set"] = rational_set;
    F_R_BBB["complex_set"] = complex_set;
#define N2(f) F_R_BBB["ntheory_" #f] = ntheory_##f;
    N2(gcd) N2(lcm) N2(mod) N2(quotient) N2(mod_f) N2(quotient_f)
#define IB(f) F_I_B[#f] = f;
    IB(number_is_zero) IB(number_is_negative) IB(number_is_positive) IB(number_is_complex) IB(is_a_Number)
    IB(is_a_Integer) IB(is_a_Rational) IB(is_a_Symbol) IB(is_a_Complex) IB(is_a_RealDouble) IB(is_a_ComplexDouble)
    IB(is_a_Set)
    F_I_B["basic_get_type"] = c_basic_get_type;
#define IBB(f) F_I_BB[#f] = f;
    IBB(basic_has_symbol) IBB(basic_eq) IBB(basic_neq) IBB(basic_set_is_subset) IBB(basic_set_is_proper_subset)
    IBB(basic_set_is_superset) IBB(basic_set_is_proper_superset)
#define SB(f) F_S_B[#f] = f;
    SB(basic_str) SB(basic_str_julia) SB(basic_str_mathml) SB(basic_str_latex) SB(basic_str_jscode) SB(basic_str_ccode)
#define RBV(f) F_R_BV[#f] = f;
    RBV(basic_max) RBV(basic_min) RBV(basic_add_vec) RBV(basic_mul_vec)
#define RBU(f) F_R_BU[#f] = f;
    RBU(ntheory_fibonacci) RBU(ntheory_lucas) RBU(ntheory_factorial)
}

static COut rc_out(CWRAPPER_OUTPUT_TYPE r)
{
    COut o;
    o.k = 'R';
    o.rc = (long)r;
    return o;
}
static COut int_out(long long v)
{
    COut o;
    o.k = 'I';
    o.i = std::to_string(v);
    return o;
}
static COut uint_out(unsigned long long v)
{
    COut o;
    o.k = 'I';
    o.i = std::to_string(v);
    return o;
}
static COut void_out()
{
    COut o;
    o.k = 'V';
    return o;
}
static COut str_out(char *s)
{
    COut o;
    o.k = 'S';
    o.null = (s == nullptr);
    if (s) {
        o.s = s;
        basic_str_free(s);
    }
    return o;
}

static bool c_call(const Call &c, COut &o)
{
    const std::string &f = c.fn;
    auto L = [&](int i) { return std::stol(c.a.at(i).s); };
    auto U = [&](int i) { return std::stoul(c.a.at(i).s); };
    auto T = [&](int i) { return c.a.at(i).s.c_str(); };
    if (F_V_B.count(f)) {
        F_V_B[f](CB(c, 0));
        o = void_out();
    } else if (F_R_BB.count(f)) {
        o = rc_out(F_R_BB[f](CB(c, 0), CB(c, 1)));
    } else if (F_R_BBB.count(f)) {
        o = rc_out(F_R_BBB[f](CB(c, 0), CB(c, 1), CB(c, 2)));
    } else if (F_I_B.count(f)) {
        o = int_out(F_I_B[f](CB(c, 0)));
    } else if (F_I_BB.count(f)) {
        o = int_out(F_I_BB[f](CB(c, 0), CB(c, 1)));
    } else if (F_S_B.count(f)) {
        o = str_out(F_S_B[f](CB(c, 0)));
    } else if (F_R_BV.count(f)) {
        o = rc_out(F_R_BV[f](CB(c, 0), cv[c.a.at(1).idx]));
    } else if (F_R_BU.count(f)) {
        o = rc_out(F_R_BU[f](CB(c, 0), U(1)));
    } else if (f == "basic_const_set") {
        basic_const_set(CB(c, 0), T(1));
        o = void_out();
    } else if (f == "symbol_set") {
        o = rc_out(symbol_set(CB(c, 0), T(1)));
    } else if (f == "integer_set_si") {
        o = rc_out(integer_set_si(CB(c, 0), L(1)));
    } else if (f == "integer_set_ui") {
        o = rc_out(integer_set_ui(CB(c, 0), U(1)));
    } else if (f == "integer_set_str") {
        o = rc_out(integer_set_str(CB(c, 0), T(1)));
    } else if (f == "real_double_set_d") {
        o = rc_out(real_double_set_d(CB(c, 0), dbl_of_hex(c.a.at(1).s)));
    } else if (f == "rational_set_si") {
        o = rc_out(rational_set_si(CB(c, 0), L(1), L(2)));
    } else if (f == "rational_set_ui") {
        o = rc_out(rational_set_ui(CB(c, 0), U(1), U(2)));
    } else if (f == "basic_parse") {
        o = rc_out(basic_parse(CB(c, 0), T(1)));
    } else if (f == "basic_parse2") {
        o = rc_out(basic_parse2(CB(c, 0), T(1), (int)L(2)));
    } else if (f == "function_symbol_set") {
        o = rc_out(function_symbol_set(CB(c, 0), T(1), cv[c.a.at(2).idx]));
    } else if (f == "real_double_get_d") {
        o.k = 'D';
        o.s = verif::dblbits(real_double_get_d(CB(c, 0)));
    } else if (f == "integer_get_si") {
        o = int_out(integer_get_si(CB(c, 0)));
    } else if (f == "integer_get_ui") {
        o = uint_out(integer_get_ui(CB(c, 0)));
    } else if (f == "basic_hash") {
        o = uint_out(basic_hash(CB(c, 0)));
    } else if (f == "basic_dumps") {
        unsigned long n = 0;
        char *d = basic_dumps(CB(c, 0), &n);
        if (d == nullptr) {
            o.k = 'S';
            o.null = true;
        } else {
            o = uint_out(n);
            basic_str_free(d);
        }
    } else if (f == "basic_set_interval") {
        o = rc_out(basic_set_interval(CB(c, 0), CB(c, 1), CB(c, 2), (int)L(3), (int)L(4)));
    } else if (f == "basic_set_finiteset") {
        o = rc_out(basic_set_finiteset(CB(c, 0), cs[c.a.at(1).idx]));
    } else if (f == "basic_get_args") {
        o = rc_out(basic_get_args(CB(c, 0), cv[c.a.at(1).idx]));
    } else if (f == "basic_free_symbols") {
        o = rc_out(basic_free_symbols(CB(c, 0), cs[c.a.at(1).idx]));
    } else if (f == "basic_function_symbols") {
        o = rc_out(basic_function_symbols(cs[c.a.at(0).idx], CB(c, 1)));
    } else if (f == "basic_subs") {
        o = rc_out(basic_subs(CB(c, 0), CB(c, 1), cm[c.a.at(2).idx]));
    } else if (f == "basic_subs2") {
        o = rc_out(basic_subs2(CB(c, 0), CB(c, 1), CB(c, 2), CB(c, 3)));
    } else if (f == "basic_coeff") {
        o = rc_out(basic_coeff(CB(c, 0), CB(c, 1), CB(c, 2), CB(c, 3)));
    } else if (f == "ntheory_binomial") {
        o = rc_out(ntheory_binomial(CB(c, 0), CB(c, 1), U(2)));
    } else if (f == "basic_evalf") {
        o = rc_out(basic_evalf(CB(c, 0), CB(c, 1), U(2), (int)L(3)));
    } else if (f == "lambda_real_double_visitor_init") {
        CLambdaRealDoubleVisitor *l = lambda_real_double_visitor_new();
        lambda_real_double_visitor_init(l, cv[c.a.at(1).idx], cv[c.a.at(2).idx], (int)L(3));
        lambda_real_double_visitor_free(l);
        o = void_out();
    } else if (f == "vecbasic_push_back") {
        o = rc_out(vecbasic_push_back(cv[c.a.at(0).idx], CB(c, 1)));
    } else if (f == "vecbasic_get") {
        o = rc_out(vecbasic_get(cv[c.a.at(0).idx], U(1), CB(c, 2)));
    } else if (f == "vecbasic_set") {
        o = rc_out(vecbasic_set(cv[c.a.at(0).idx], U(1), CB(c, 2)));
    } else if (f == "vecbasic_erase") {
        o = rc_out(vecbasic_erase(cv[c.a.at(0).idx], U(1)));
    } else if (f == "vecbasic_size") {
        o = uint_out(vecbasic_size(cv[c.a.at(0).idx]));
    } else if (f == "setbasic_insert") {
        o = int_out(setbasic_insert(cs[c.a.at(0).idx], CB(c, 1)));
    } else if (f == "setbasic_get") {
        setbasic_get(cs[c.a.at(0).idx], (int)L(1), CB(c, 2));
        o = void_out();
    } else if (f == "setbasic_find") {
        o = int_out(setbasic_find(cs[c.a.at(0).idx], CB(c, 1)));
    } else if (f == "setbasic_erase") {
        o = int_out(setbasic_erase(cs[c.a.at(0).idx], CB(c, 1)));
    } else if (f == "setbasic_size") {
        o = uint_out(setbasic_size(cs[c.a.at(0).idx]));
    } else if (f == "mapbasicbasic_insert") {
        mapbasicbasic_insert(cm[c.a.at(0).idx], CB(c, 1), CB(c, 2));
        o = void_out();
    } else if (f == "mapbasicbasic_get") {
        o = int_out(mapbasicbasic_get(cm[c.a.at(0).idx], CB(c, 1), CB(c, 2)));
    } else if (f == "mapbasicbasic_size") {
        o = uint_out(mapbasicbasic_size(cm[c.a.at(0).idx]));
    } else
        return false;
    return true;
}

// value of a handle on the C side, read back through the C API only
static CV c_handle(const Arg &a)
{
    basic t;
    switch (a.k) {
        case 'b':
            return RB(*reinterpret_cast<RCP<const Basic> *>(cb[a.idx]));
        case 'v': {
            vec_basic v;
            size_t n = vecbasic_size(cv[a.idx]);
            basic_new_stack(t);
            for (size_t i = 0; i < n; i++) {
                vecbasic_get(cv[a.idx], i, t);
                v.push_back(*reinterpret_cast<RCP<const Basic> *>(t));
            }
            basic_free_stack(t);
            return RV(v);
        }
        case 's': {
            // in iteration order (setbasic_get): printed as a vector so that the ORDER is compared
            vec_basic v;
            size_t n = setbasic_size(cs[a.idx]);
            basic_new_stack(t);
            for (size_t i = 0; i < n; i++) {
                setbasic_get(cs[a.idx], (int)i, t);
                v.push_back(*reinterpret_cast<RCP<const Basic> *>(t));
            }
            basic_free_stack(t);
            CV r = RV(v);
            r.k = 'W';
            return r;
        }
        case 'm': {
            // the C API offers no iteration over a map: look inside (the struct holds one map_basic_basic)
            return RP(*reinterpret_cast<map_basic_basic *>(cm[a.idx]));
        }
        default:
            return RN();
    }
}
static std::string show_handle(const CV &c)
{
    if (c.k == 'W') {
        std::string o = "S[";
        for (size_t i = 0; i < c.v.size(); i++)
            o += (i ? ";" : "") + verif::dump(*c.v[i]);
        return o + "]";
    }
    return show(c);
}
static std::string hname(const Arg &a)
{
    return std::string(1, a.k) + std::to_string(a.idx);
}
static CV m_handle(const Arg &a)
{
    switch (a.k) {
        case 'b':
            return RB(mb[a.idx]);
        case 'v':
            return RV(mv[a.idx]);
        case 's':
            return RS(ms[a.idx]);
        case 'm':
            return RP(mm[a.idx]);
        default:
            return RN();
    }
}

static int code_of_exn(const std::string &e)
{
    // EXN:k (harness/common.h) -> symengine_exceptions_t the wrapper must return
    if (e == "EXN:1")
        return SYMENGINE_NOT_IMPLEMENTED;
    if (e == "EXN:2")
        return SYMENGINE_DOMAIN_ERROR;
    if (e == "EXN:3")
        return SYMENGINE_DIV_BY_ZERO;
    if (e == "EXN:4")
        return SYMENGINE_PARSE_ERROR;
    if (e == "EXN:5")
        return SYMENGINE_SERIALIZATION_ERROR;
    return SYMENGINE_RUNTIME_ERROR;
}

static int OUTFD = -1;
static void emit(const std::string &s)
{
    size_t off = 0;
    while (off < s.size()) {
        ssize_t w = write(OUTFD, s.data() + off, s.size() - off);
        if (w <= 0)
            break;
        off += (size_t)w;
    }
}

static std::string str_of_c(int idx)
{
    char *s = basic_str(cb[idx]);
    std::string r = s ? s : "<null>";
    if (s)
        basic_str_free(s);
    return r;
}

static void run_case(const std::string &line)
{
    // fresh handles
    for (int i = 0; i < NB; i++) {
        basic_new_stack(cb[i]);
        basic_const_zero(cb[i]);
        mb[i] = zero;
    }
    for (int i = 0; i < NV; i++) {
        cv[i] = vecbasic_new();
        mv[i].clear();
    }
    for (int i = 0; i < NS; i++) {
        cs[i] = setbasic_new();
        ms[i].clear();
    }
    for (int i = 0; i < NM; i++) {
        cm[i] = mapbasicbasic_new();
        mm[i].clear();
    }
    std::vector<std::string> calls;
    {
        size_t pos = 0;
        while (true) {
            size_t q = line.find(" ; ", pos);
            calls.push_back(line.substr(pos, q == std::string::npos ? std::string::npos : q - pos));
            if (q == std::string::npos)
                break;
            pos = q + 3;
        }
    }
    std::string oracle;
    bool stop = false;
    for (size_t k = 0; k < calls.size() && !stop; k++) {
        Call c;
        if (!parse_call(calls[k], c)) {
            emit("BADCALL @ " + std::to_string(k) + " ## ");
            return;
        }
        CUR = &c;
        std::string ks = std::to_string(k);
        // ---- the C++ API side
        emit("MS @ " + ks + " @ " + c.fn + " ## ");
        bool have_m = false, m_exn = false;
        std::string m_exn_name;
        CV mres = RN();
        int mout = -2;
        auto it = MIR.find(c.fn);
        if (it != MIR.end()) {
            const MirrorEntry &e = it->second;
            std::string rec = "M @ " + ks + " @ " + e.tmpl + " @ " + std::to_string(e.order.size());
            for (int p : e.order)
                rec += " @ " + show(argval_mirror(c, p));
            try {
                mres = e.fn();
                rec += " @ " + show(mres);
            } catch (...) {
                m_exn = true;
                m_exn_name = verif::exn_name();
                rec += " @ EXN" + m_exn_name.substr(4);
            }
            emit(rec + " ## ");
            have_m = true;
            mout = e.out;
        } else {
            try {
                have_m = container_mirror(c, mres, mout);
            } catch (...) {
                m_exn = true;
                m_exn_name = verif::exn_name();
                have_m = true;
            }
        }
        if (!have_m) {
            emit("NOMIRROR @ " + ks + " ## ");
            return;
        }
        if (!m_exn && mout >= 0) {
            const Arg &oa = c.a.at(mout);
            if (oa.k == 'b' && mres.k == 'B')
                mb[oa.idx] = mres.b;
            else if (oa.k == 'v' && mres.k == 'V')
                mv[oa.idx] = mres.v;
            else if (oa.k == 's' && mres.k == 'S')
                ms[oa.idx] = mres.s;
            else {
                emit("BADMIRROROUT @ " + ks + " ## ");
                return;
            }
        }
        // ---- the C side
        emit("CS @ " + ks + " @ " + c.fn + " ## ");
        COut o;
        std::string rec = "C @ " + ks + " @ ";
        bool escaped = false;
        try {
            if (!c_call(c, o)) {
                emit("NOCFUN @ " + ks + " ## ");
                return;
            }
        } catch (...) {
            escaped = true;
            rec += "ESCAPE" + verif::exn_name().substr(4);
        }
        if (!escaped) {
            switch (o.k) {
                case 'R':
                    rec += "rc=" + std::to_string(o.rc);
                    break;
                case 'I':
                    rec += "int=" + o.i;
                    break;
                case 'S':
                    rec += o.null ? std::string("str=null") : "str=" + hexenc(o.s);
                    break;
                case 'D':
                    rec += "dbl=" + o.s;
                    break;
                default:
                    rec += "void";
            }
        }
        // every handle argument after the call
        for (const Arg &a : c.a)
            if (a.k == 'b' || a.k == 'v' || a.k == 's' || a.k == 'm')
                rec += " @ " + hname(a) + "=" + (escaped ? std::string("?") : show_handle(c_handle(a)));
        emit(rec + " ## ");
        // ---- the property oracle: C outcome against the C++ API outcome
        std::string why;
        if (escaped) {
            why = "escape:" + c.fn + ":a C++ exception left the extern C function";
            stop = true;
        } else if (m_exn) {
            // the C++ side threw: the C function must report an error (and leave its arguments alone)
            if (o.k == 'R') {
                if (o.rc == 0)
                    why = "code:" + c.fn + ":returned SYMENGINE_NO_EXCEPTION although the C++ API throws " + m_exn_name;
                else if (o.rc != code_of_exn(m_exn_name))
                    why = "code:" + c.fn + ":returned " + std::to_string(o.rc) + " for " + m_exn_name;
            } else if (o.k == 'S') {
                if (!o.null)
                    why = "code:" + c.fn + ":returned a string although the C++ API throws " + m_exn_name;
            } else {
                why = "noerror:" + c.fn + ":no way to report " + m_exn_name + " (returned normally)";
            }
        } else {
            if (o.k == 'R' && o.rc != 0)
                why = "code:" + c.fn + ":returned error " + std::to_string(o.rc) + " although the C++ API succeeds";
            else if (o.k == 'I' && (mres.k != 'I' || mres.i != o.i))
                why = "result:" + c.fn + ":returned " + o.i + ", C++ API gives " + (mres.k == 'I' ? mres.i : "?");
            else if (o.k == 'S' && (o.null || mres.k != 'T' || mres.t != o.s))
                why = "result:" + c.fn + ":string differs from the C++ API result";
            else if (o.k == 'D' && (mres.k != 'D' || mres.t != o.s))
                why = "result:" + c.fn + ":double differs from the C++ API result";
        }
        if (why.empty() && !escaped) {
            for (const Arg &a : c.a) {
                if (a.k == 'b' || a.k == 'v' || a.k == 's' || a.k == 'm') {
                    std::string x = show_handle(c_handle(a)), y = show(m_handle(a));
                    if (x != y) {
                        why = "result:" + c.fn + ":" + hname(a) + " is " + x.substr(0, 120) + " but the C++ API gives "
                              + y.substr(0, 120);
                        break;
                    }
                    if (a.k == 'b' && str_of_c(a.idx) != mb[a.idx]->__str__()) {
                        why = "result:" + c.fn + ":basic_str(" + hname(a) + ") differs from str of the C++ result";
                        break;
                    }
                }
            }
        }
        if (!why.empty() && oracle.empty())
            oracle = why + " (call " + ks + ": " + calls[k] + ")";
    }
    if (!stop) {
        std::string rec = "F";
        Arg a;
        for (int i = 0; i < NB; i++) {
            a.k = 'b';
            a.idx = i;
            rec += " @ " + hname(a) + "=" + show_handle(c_handle(a));
        }
        for (int i = 0; i < NV; i++) {
            a.k = 'v';
            a.idx = i;
            rec += " @ " + hname(a) + "=" + show_handle(c_handle(a));
        }
        for (int i = 0; i < NS; i++) {
            a.k = 's';
            a.idx = i;
            rec += " @ " + hname(a) + "=" + show_handle(c_handle(a));
        }
        for (int i = 0; i < NM; i++) {
            a.k = 'm';
            a.idx = i;
            rec += " @ " + hname(a) + "=" + show_handle(c_handle(a));
        }
        emit(rec);
    }
    if (!oracle.empty())
        emit("\t#ORACLE:" + oracle);
}

// ------------------------------------------------------------------------------------------------ Expression
// XMIRROR(operator, variant, expected core expression, (operand at each $): 0 = left / object, 1 = right, ...)
struct XEntry {
    std::string op, variant, tmpl;
    std::vector<int> order;
    std::function<std::string(const RCP<const Basic> &, const RCP<const Basic> &)> viaexpr, viacore;
};
static std::vector<XEntry> XMIR;
static std::string xs(const RCP<const Basic> &r)
{
    return verif::dump(*r) + " | " + r->__str__();
}
static std::string xs(const Expression &e)
{
    return xs(e.get_basic());
}
static std::string xs(bool b)
{
    return b ? "true" : "false";
}
static std::string xs(int i)
{
    return std::to_string(i);
}
#define XMIRROR(op, variant, tmpl, order, viaexpr, viacore)                                                            \
    XMIR.push_back(XEntry{op, variant, tmpl, std::vector<int>{UNPAREN order},                                         \
                          [](const RCP<const Basic> &a, const RCP<const Basic> &b) -> std::string {                  \
                              Expression A(a), B(b);                                                                 \
                              (void)A;                                                                               \
                              (void)B;                                                                               \
                              return xs(viaexpr);                                                                    \
                          },                                                                                         \
                          [](const RCP<const Basic> &a, const RCP<const Basic> &b) -> std::string {                  \
                              return xs(viacore);                                                                    \
                          }});
static void init_x()
{
    XMIRROR("operator+", "FEE", "add($,$)", (0, 1), A + B, add(a, b))
    XMIRROR("operator+", "FBE", "add($,$)", (0, 1), a + B, add(a, b))
    XMIRROR("operator+", "FEB", "add($,$)", (0, 1), A + b, add(a, b))
    XMIRROR("operator+=", "ME", "add($,$)", (0, 1), A += B, add(a, b))
    XMIRROR("operator+=", "MB", "add($,$)", (0, 1), A += b, add(a, b))
    XMIRROR("operator-", "FEE", "sub($,$)", (0, 1), A - B, sub(a, b))
    XMIRROR("operator-", "FBE", "sub($,$)", (0, 1), a - B, sub(a, b))
    XMIRROR("operator-", "FEB", "sub($,$)", (0, 1), A - b, sub(a, b))
    XMIRROR("operator-", "M", "mul($,-1)", (0), -A, mul(a, integer(-1)))
    XMIRROR("operator-=", "ME", "sub($,$)", (0, 1), A -= B, sub(a, b))
    XMIRROR("operator-=", "MB", "sub($,$)", (0, 1), A -= b, sub(a, b))
    XMIRROR("operator*", "FEE", "mul($,$)", (0, 1), A * B, mul(a, b))
    XMIRROR("operator*", "FBE", "mul($,$)", (0, 1), a * B, mul(a, b))
    XMIRROR("operator*", "FEB", "mul($,$)", (0, 1), A * b, mul(a, b))
    XMIRROR("operator*=", "ME", "mul($,$)", (0, 1), A *= B, mul(a, b))
    XMIRROR("operator*=", "MB", "mul($,$)", (0, 1), A *= b, mul(a, b))
    XMIRROR("operator/", "FEE", "div($,$)", (0, 1), A / B, div(a, b))
    XMIRROR("operator/", "FBE", "div($,$)", (0, 1), a / B, div(a, b))
    XMIRROR("operator/", "FEB", "div($,$)", (0, 1), A / b, div(a, b))
    XMIRROR("operator/=", "ME", "div($,$)", (0, 1), A /= B, div(a, b))
    XMIRROR("operator/=", "MB", "div($,$)", (0, 1), A /= b, div(a, b))
    XMIRROR("operator==", "ME", "eq($,$)", (0, 1), A == B, eq(*a, *b))
    XMIRROR("operator==", "MB", "eq($,$)", (0, 1), A == b, eq(*a, *b))
    XMIRROR("operator!=", "ME", "not($==$)", (0, 1), A != B, !eq(*a, *b))
    XMIRROR("operator!=", "MB", "not($==$)", (0, 1), A != b, !eq(*a, *b))
    XMIRROR("pow", "FEE", "pow($,$)", (0, 1), pow(A, B), pow(a, b))
    XMIRROR("expand", "FE", "expand($)", (0), expand(A), expand(a))
    XMIRROR("unified_eq", "FEE", "$==$", (0, 1), unified_eq(A, B), eq(*a, *b))
    XMIRROR("unified_compare", "FEE", "unified_compare($,$)", (0, 1), unified_compare(A, B), unified_compare(a, b))
}

static void run_xcase(const std::string &line)
{
    std::vector<std::string> t = verif::split_ws(line);
    if (t.size() != 3) {
        emit("BADX");
        return;
    }
    RCP<const Basic> a, b;
    try {
        a = parse(hexdec(t[1]));
        b = parse(hexdec(t[2]));
    } catch (...) {
        emit("X @ unparsable");
        return;
    }
    std::string oracle;
    int n = 0, thrown = 0;
    // unary minus agrees with the core neg up to eq (mul(a,-1) vs mul(-1,a))
    try {
        Expression A(a);
        if (!eq(*(-A).get_basic(), *neg(a)))
            oracle = "expr-op:operator-:-Expression(a) is not eq to neg(a)";
    } catch (...) {
    }
    for (const XEntry &e : XMIR) {
        std::string r1, r2;
        try {
            r1 = e.viaexpr(a, b);
        } catch (...) {
            r1 = verif::exn_name();
        }
        try {
            r2 = e.viacore(a, b);
        } catch (...) {
            r2 = verif::exn_name();
        }
        n++;
        if (r1.compare(0, 4, "EXN:") == 0)
            thrown++;
        if (r1 != r2 && oracle.empty())
            oracle = "expr-op:" + e.op + ":" + e.variant + " gives " + r1.substr(0, 150) + " but " + e.tmpl + " gives "
                     + r2.substr(0, 150);
    }
    // implicit conversions / constructors
    try {
        if (!eq(*Expression(5).get_basic(), *integer(5)) || !eq(*Expression().get_basic(), *zero)
            || !eq(*Expression(hexdec(t[1])).get_basic(), *a))
            oracle = "expr-op:constructor:Expression(int / string) differs from integer() / parse()";
    } catch (...) {
    }
    emit("X @ ops=" + std::to_string(n) + " @ thrown=" + std::to_string(thrown));
    if (!oracle.empty())
        emit("\t#ORACLE:" + oracle);
}

// ------------------------------------------------------------------------------------------------ main
// cases run in forked children, many per child; a child that dies is replaced and the scan resumes
int main(int argc, char **argv)
{
    init_mirror();
    init_c();
    init_x();
    if (argc > 1 && std::string(argv[1]) == "--tables") {
        for (auto &p : MIR) {
            std::cout << p.first << "\t" << p.second.tmpl << "\t";
            for (int o : p.second.order)
                std::cout << o << ",";
            std::cout << "\t" << p.second.out << "\n";
        }
        return 0;
    }
    std::vector<std::string> lines;
    std::string line;
    while (std::getline(std::cin, line))
        lines.push_back(line);
    size_t start = 0;
    const unsigned per_case_timeout = 40;
    while (start < lines.size()) {
        int fd[2];
        if (pipe(fd) != 0)
            return 2;
        fflush(stdout);
        pid_t pid = fork();
        if (pid == 0) {
            close(fd[0]);
            OUTFD = fd[1];
            struct rlimit rl;
            rl.rlim_cur = rl.rlim_max = 0;
            setrlimit(RLIMIT_CORE, &rl);
            int devnull = open("/dev/null", O_WRONLY);
            if (devnull >= 0)
                dup2(devnull, 2);
            for (size_t i = start; i < lines.size(); i++) {
                alarm(per_case_timeout);
                if (lines[i].compare(0, 2, "X ") == 0)
                    run_xcase(lines[i]);
                else
                    run_case(lines[i]);
                emit("\n");
            }
            _exit(0);
        }
        close(fd[1]);
        std::string out;
        char buf[65536];
        ssize_t r;
        while ((r = read(fd[0], buf, sizeof buf)) > 0)
            out.append(buf, (size_t)r);
        close(fd[0]);
        int status = 0;
        waitpid(pid, &status, 0);
        // complete lines
        size_t done = 0, pos = 0;
        while (true) {
            size_t q = out.find('\n', pos);
            if (q == std::string::npos)
                break;
            std::cout << out.substr(pos, q - pos) << "\n";
            pos = q + 1;
            done++;
        }
        if (start + done >= lines.size())
            break;
        // the child died in case start+done
        std::string partial = out.substr(pos);
        std::string how = "CRASH:?";
        if (WIFSIGNALED(status))
            how = WTERMSIG(status) == SIGALRM ? std::string("HANG") : "CRASH:" + std::to_string(WTERMSIG(status));
        else if (WIFEXITED(status))
            how = "EXIT:" + std::to_string(WEXITSTATUS(status));
        std::cout << partial << how << "\n";
        start = start + done + 1;
    }
    return 0;
}
