// C36 driver: value-preserving rewriting transformations
//   as_numer_denom, as_real_imag (numer_denom.cpp, as_real_imag.cpp), rewrite_as_exp / _sin / _cos
//   (rewrite.cpp), trig_to_sqrt, conjugate (functions.cpp), Basic::expand_as_exp (basic.h).
//
// Two kinds of input line.
//   A <recipe of e>
//      -> <dump e> \t ND:<dump n> ;; <dump d> \t RI:<dump re> ;; <dump im> \t XE:<EXN:k | dump> \t CH:<7 flags>
//         [\t#ORACLE:<op>:<class>:<text>]...
//      (the text before the first tab is the model's input; ND / RI / XE are compared with the
//       model's trees; an exception is printed as EXN:<k>)
//   V <recipe of e> \t <op>=<model recipe> \t ...      op in EXP SIN COS T2S CONJ
//      -> one field per op:  <op>==   |  <op>!=lib:<dump> model:<dump>  |  <op>!exn lib:<..> model:<..>
//      The model's recipes (coq/C36/RewriteModel.v [recipe]) are evaluated through the library on the
//      sub-objects of e and compared with the library's own answer by eq.
// Model recipe syntax: numbers as in recipe.h, I, pi, (ref i j ...) = sub-object reached through
//   get_args() indices, (add a b) (sub a b) (mul a b) (div a b) (pow a b) (neg a) (exp a) (sqrt a)
//   (addv a...) (mulv a...) (f1 <Class> a) (uneval a) (keeppow (p i...) a b) (keepcreate (p i...) a)
//   (keepcreate2 (p i...) a b) (create (p i...) a...) (rawconj a) (datnmul <coef> exp t exp t ...).
//
// Oracles (on the library's own outputs, independent of the Coq model), numeric at fixed sample
// points (symbols by name -> positive reals; for the rewriting family also non-real complex points):
//   nd-value   n/d == e at positive real symbol values (exact when everything is an exact number)
//   nd-negexp  no could_extract_minus exponent at the top level of n and d
//   ri-value   re + I*im == e;   ri-real  re and im have no imaginary part
//   exp/sin/cos/t2s-value   output == input wherever both evaluate to finite values
//   conj-value conjugate(e) evaluates to the complex conjugate of e
#include <symengine/basic.h>
#include <symengine/add.h>
#include <symengine/mul.h>
#include <symengine/pow.h>
#include <symengine/functions.h>
#include <symengine/logic.h>
#include <symengine/sets.h>
#include <symengine/complex.h>
#include <symengine/complex_double.h>
#include <symengine/real_double.h>
#include <symengine/infinity.h>
#include <symengine/nan.h>
#include <symengine/constants.h>
#include <symengine/visitor.h>
#include <symengine/eval_double.h>
#include <symengine/symengine_exception.h>
#include <complex>
#include <cmath>
#include "common.h"
#include "dump.h"
#include "recipe.h"
using namespace SymEngine;
typedef std::complex<double> cplx;

// ---------------------------------------------------------------- model recipes
static RCP<const Basic> resolve(const RCP<const Basic> &root, const verif::Sexp &p, size_t from)
{
    RCP<const Basic> cur = root;
    for (size_t i = from; i < p.kids.size(); i++) {
        vec_basic a = cur->get_args();
        cur = a.at(std::stoul(p.kids[i].atom));
    }
    return cur;
}

typedef RCP<const Basic> (*ctor1)(const RCP<const Basic> &);
static ctor1 class_ctor(const std::string &n)
{
    if (n == "Sin") return sin;
    if (n == "Cos") return cos;
    throw std::runtime_error("mrecipe: class " + n);
}

static RCP<const Basic> ev(const verif::Sexp &e, const RCP<const Basic> &root)
{
    if (e.is_atom)
        return verif::eval_recipe(e);
    const std::string &op = e.kids.at(0).atom;
    auto arg = [&](size_t i) { return ev(e.kids.at(i), root); };
    auto args = [&](size_t from) {
        vec_basic v;
        for (size_t i = from; i < e.kids.size(); i++)
            v.push_back(ev(e.kids[i], root));
        return v;
    };
    if (op == "ref") return resolve(root, e, 1);
    if (op == "add") return add(arg(1), arg(2));
    if (op == "sub") return sub(arg(1), arg(2));
    if (op == "mul") return mul(arg(1), arg(2));
    if (op == "div") return div(arg(1), arg(2));
    if (op == "pow") return pow(arg(1), arg(2));
    if (op == "neg") return neg(arg(1));
    if (op == "exp") return exp(arg(1));
    if (op == "sqrt") return sqrt(arg(1));
    if (op == "addv") return add(args(1));
    if (op == "mulv") return mul(args(1));
    if (op == "f1") return class_ctor(e.kids.at(1).atom)(arg(2));
    if (op == "uneval") return unevaluated_expr(arg(1));
    if (op == "rawconj") return make_rcp<const Conjugate>(arg(1));
    if (op == "keeppow") {
        RCP<const Basic> x = resolve(root, e.kids.at(1), 1);
        const Pow &p = down_cast<const Pow &>(*x);
        RCP<const Basic> base_ = p.get_base(), exp_ = p.get_exp();
        RCP<const Basic> a = arg(2), b = arg(3);
        if (base_ != a or exp_ != b)
            return pow(a, b);
        return x;
    }
    if (op == "keepcreate") {
        RCP<const Basic> x = resolve(root, e.kids.at(1), 1);
        const OneArgFunction &f = dynamic_cast<const OneArgFunction &>(*x);
        RCP<const Basic> a = arg(2);
        if (eq(*a, *f.get_arg()))
            return x;
        return f.create(a);
    }
    if (op == "keepcreate2") {
        RCP<const Basic> x = resolve(root, e.kids.at(1), 1);
        RCP<const Basic> a = arg(2), b = arg(3);
        if (auto f = dynamic_cast<const TwoArgBasic<Function> *>(x.get())) {
            if (f->get_arg1() != a or f->get_arg2() != b)
                return f->create(a, b);
            return x;
        }
        if (auto r = dynamic_cast<const TwoArgBasic<Relational> *>(x.get())) {
            if (r->get_arg1() != a or r->get_arg2() != b)
                return r->create(a, b);
            return x;
        }
        throw std::runtime_error("mrecipe: keepcreate2 on a non-TwoArgBasic");
    }
    if (op == "datnmul") {
        RCP<const Number> coef = rcp_static_cast<const Number>(verif::eval_recipe(e.kids.at(1)));
        map_basic_basic d;
        for (size_t i = 2; i + 1 < e.kids.size(); i += 2) {
            RCP<const Basic> x = arg(i), t = arg(i + 1);
            Mul::dict_add_term_new(outArg(coef), d, x, t);
        }
        return Mul::from_dict(coef, std::move(d));
    }
    if (op == "create") {
        RCP<const Basic> x = resolve(root, e.kids.at(1), 1);
        vec_basic v = args(2);
        if (auto f1 = dynamic_cast<const OneArgFunction *>(x.get()))
            return f1->create(v.at(0));
        if (auto f2 = dynamic_cast<const TwoArgFunction *>(x.get()))
            return f2->create(v.at(0), v.at(1));
        if (auto fn = dynamic_cast<const MultiArgFunction *>(x.get()))
            return fn->create(v);
        throw std::runtime_error("mrecipe: create on a non-function");
    }
    // literal numbers
    return verif::eval_recipe(e);
}

// ---------------------------------------------------------------- the operations
struct Out {
    bool ok = false;
    std::string exn;
    RCP<const Basic> a, b;
};

template <typename F>
static Out guarded(F f)
{
    Out o;
    try {
        f(o);
        o.ok = true;
    } catch (...) {
        o.exn = verif::exn_name();
    }
    return o;
}

static Out run_op(const std::string &op, const RCP<const Basic> &e)
{
    if (op == "ND") return guarded([&](Out &o) { as_numer_denom(e, outArg(o.a), outArg(o.b)); });
    if (op == "RI") return guarded([&](Out &o) { as_real_imag(e, outArg(o.a), outArg(o.b)); });
    if (op == "EXP") return guarded([&](Out &o) { o.a = rewrite_as_exp(e); });
    if (op == "SIN") return guarded([&](Out &o) { o.a = rewrite_as_sin(e); });
    if (op == "COS") return guarded([&](Out &o) { o.a = rewrite_as_cos(e); });
    if (op == "T2S") return guarded([&](Out &o) { o.a = trig_to_sqrt(e); });
    if (op == "CONJ") return guarded([&](Out &o) { o.a = conjugate(e); });
    if (op == "XE") return guarded([&](Out &o) { o.a = e->expand_as_exp(); });
    throw std::runtime_error("unknown op " + op);
}

// ---------------------------------------------------------------- numeric oracle
static const double REALS_A[] = {0.7, 1.3, 2.9, 0.35, 1.9, 0.55, 3.4};
static const double REALS_B[] = {2.2, 0.45, 1.15, 3.1, 0.8, 1.6, 0.25};
static const cplx CPLX_A[] = {cplx(0.3, 0.4), cplx(-0.6, 0.2), cplx(1.1, -0.7), cplx(0.25, -0.3),
                              cplx(-0.45, -0.5), cplx(0.8, 0.6), cplx(-1.2, 0.35)};
static const cplx CPLX_B[] = {cplx(-0.2, 0.9), cplx(0.5, -0.15), cplx(0.15, 0.65), cplx(-0.9, -0.4),
                              cplx(0.7, 0.3), cplx(-0.35, 0.45), cplx(1.4, 0.2)};

static unsigned name_slot(const std::string &s)
{
    unsigned h = 0;
    for (unsigned char c : s)
        h = h * 31 + c;
    return h % 7;
}

// point k: 0, 1 positive reals; 2, 3 non-real complex
static map_basic_basic make_point(const RCP<const Basic> &e, int k)
{
    map_basic_basic m;
    for (const auto &s : free_symbols(*e)) {
        unsigned slot = name_slot(down_cast<const Symbol &>(*s).get_name());
        if (k == 0) m[s] = real_double(REALS_A[slot]);
        else if (k == 1) m[s] = real_double(REALS_B[slot]);
        else if (k == 2) m[s] = complex_double(CPLX_A[slot]);
        else m[s] = complex_double(CPLX_B[slot]);
    }
    return m;
}

static map_basic_basic perturbed(const map_basic_basic &pt)
{
    map_basic_basic m;
    for (const auto &p : pt)
        m[p.first] = mul(p.second, real_double(1.0 + 1e-10));
    return m;
}

static bool numval(const RCP<const Basic> &e, const map_basic_basic &pt, cplx &out)
{
    try {
        RCP<const Basic> s = e->subs(pt);
        out = eval_complex_double(*s);
        return std::isfinite(out.real()) and std::isfinite(out.imag()) and std::abs(out) < 1e6;
    } catch (...) {
        return false;
    }
}

static bool close_to(cplx a, cplx b)
{
    double scale = std::max(1.0, std::max(std::abs(a), std::abs(b)));
    return std::abs(a - b) <= 1e-7 * scale;
}

static std::string show(cplx z)
{
    char buf[96];
    snprintf(buf, sizeof buf, "(%.12g,%.12g)", z.real(), z.imag());
    return buf;
}

// symbols -> exact positive rationals; true when e becomes an exact number
static const char *RATS_A[][2] = {{"2", "3"}, {"5", "7"}, {"3", "1"}, {"1", "4"}, {"7", "2"}, {"9", "5"}, {"4", "3"}};
static bool exactval(const RCP<const Basic> &e, RCP<const Basic> &out)
{
    try {
        map_basic_basic m;
        for (const auto &s : free_symbols(*e)) {
            unsigned slot = name_slot(down_cast<const Symbol &>(*s).get_name());
            m[s] = Rational::from_two_ints(*integer(integer_class(RATS_A[slot][0])),
                                           *integer(integer_class(RATS_A[slot][1])));
        }
        out = e->subs(m);
        return is_a<Integer>(*out) or is_a<Rational>(*out) or is_a<Complex>(*out);
    } catch (...) {
        return false;
    }
}

static bool no_neg_exp_top(const RCP<const Basic> &e)
{
    if (is_a<Pow>(*e))
        return not could_extract_minus(*down_cast<const Pow &>(*e).get_exp());
    if (is_a<Mul>(*e)) {
        for (const auto &p : down_cast<const Mul &>(*e).get_dict())
            if (could_extract_minus(*p.second))
                return false;
    }
    return true;
}

// does the tree contain a Pow whose exponent is not an Integer (class of the nd / ri findings)
static bool has_nonint_pow(const RCP<const Basic> &e)
{
    if (is_a<Pow>(*e) and not is_a<Integer>(*down_cast<const Pow &>(*e).get_exp()))
        return true;
    for (const auto &a : e->get_args())
        if (has_nonint_pow(a))
            return true;
    return false;
}

static bool has_class(const RCP<const Basic> &e, TypeID id)
{
    if (e->get_type_code() == id)
        return true;
    for (const auto &a : e->get_args())
        if (has_class(a, id))
            return true;
    return false;
}

// a Pow with a Rational exponent and a base that is not a Number: RealImagVisitor's sqrt / atan2 / cos / sin rule
static bool has_rational_pow(const RCP<const Basic> &e)
{
    if (is_a<Pow>(*e) and is_a<Rational>(*down_cast<const Pow &>(*e).get_exp())
        and not is_a_Number(*down_cast<const Pow &>(*e).get_base()))
        return true;
    for (const auto &a : e->get_args())
        if (has_rational_pow(a))
            return true;
    return false;
}

static bool has_index_function(const RCP<const Basic> &e)
{
    if (is_a<KroneckerDelta>(*e) or is_a<LeviCivita>(*e))
        return true;
    for (const auto &a : e->get_args())
        if (has_index_function(a))
            return true;
    return false;
}

static std::string oracle_analyse(const RCP<const Basic> &e, const Out &nd, const Out &ri)
{
    std::string o;
    const std::string cls = has_nonint_pow(e) ? "nonint-pow" : "int-pow";
    if (nd.ok) {
        if (not no_neg_exp_top(nd.a) or not no_neg_exp_top(nd.b))
            o += "\t#ORACLE:nd-negexp:" + cls + ":a could_extract_minus exponent is left on the top level";
        bool decided = false;
        RCP<const Basic> ev_e, ev_n, ev_d;
        if (exactval(e, ev_e) and exactval(nd.a, ev_n) and exactval(nd.b, ev_d)) {
            try {
                if (not down_cast<const Number &>(*ev_d).is_zero()) {
                    decided = true;
                    if (not eq(*div(ev_n, ev_d), *ev_e))
                        o += "\t#ORACLE:nd-value:" + cls + ":exact n/d = " + div(ev_n, ev_d)->__str__()
                             + " but e = " + ev_e->__str__() + " at the rational sample point";
                }
            } catch (...) {
            }
        }
        if (not decided) {
            for (int k = 0; k < 2; k++) {
                map_basic_basic pt = make_point(e, k);
                cplx ve, vn, vd;
                if (numval(e, pt, ve) and numval(nd.a, pt, vn) and numval(nd.b, pt, vd) and std::abs(vd) > 1e-9) {
                    if (not close_to(vn / vd, ve)) {
                        o += "\t#ORACLE:nd-value:" + cls + ":n/d = " + show(vn / vd) + " but e = " + show(ve)
                             + " at positive real point " + std::to_string(k);
                        break;
                    }
                }
            }
        }
    }
    if (ri.ok) {
        // class of a wrong value: the Cot rule (known finding), else by the presence of non-integer powers
        const std::string vcls = has_class(e, SYMENGINE_COT) ? "cot"
                                 : has_rational_pow(e)      ? "rational-pow"
                                 : has_nonint_pow(e)        ? "nonint-pow"
                                                            : "other";
        for (int k = 0; k < 2; k++) {
            map_basic_basic pt = make_point(e, k);
            cplx ve, vr, vi;
            if (numval(e, pt, ve) and numval(ri.a, pt, vr) and numval(ri.b, pt, vi)) {
                if (std::abs(vr.imag()) > 1e-9 * std::max(1.0, std::abs(vr))
                    or std::abs(vi.imag()) > 1e-9 * std::max(1.0, std::abs(vi))) {
                    o += "\t#ORACLE:ri-real:" + cls + ":re = " + show(vr) + " im = " + show(vi) + " are not real";
                    break;
                }
                if (not close_to(vr + cplx(0, 1) * vi, ve)) {
                    o += "\t#ORACLE:ri-value:" + vcls + ":re + I*im = " + show(vr + cplx(0, 1) * vi) + " but e = " + show(ve);
                    break;
                }
            }
        }
    }
    return o;
}

// the 12 classes the rewrite visitors replace
static bool is_trig_hyp(const Basic &b)
{
    switch (b.get_type_code()) {
        case SYMENGINE_SIN: case SYMENGINE_COS: case SYMENGINE_TAN: case SYMENGINE_COT: case SYMENGINE_CSC:
        case SYMENGINE_SEC: case SYMENGINE_SINH: case SYMENGINE_COSH: case SYMENGINE_TANH: case SYMENGINE_COTH:
        case SYMENGINE_CSCH: case SYMENGINE_SECH:
            return true;
        default:
            return false;
    }
}
static bool contains_trig_hyp(const RCP<const Basic> &e)
{
    if (is_trig_hyp(*e))
        return true;
    for (const auto &a : e->get_args())
        if (contains_trig_hyp(a))
            return true;
    return false;
}
// a function with a branch cut (non-integer power, log, inverse functions) applied to something that is
// rewritten: a value ON the cut (e.g. csc(5)**y, csc(5) < 0) is reached from either side after rewriting,
// so "both sides defined" does not make them comparable numerically; such inputs are left to the tie
static bool cut_over_rewritten(const RCP<const Basic> &e)
{
    bool cut = false;
    switch (e->get_type_code()) {
        case SYMENGINE_POW:
            cut = not is_a<Integer>(*down_cast<const Pow &>(*e).get_exp());
            break;
        case SYMENGINE_LOG: case SYMENGINE_ASIN: case SYMENGINE_ACOS: case SYMENGINE_ASEC: case SYMENGINE_ACSC:
        case SYMENGINE_ATAN: case SYMENGINE_ACOT: case SYMENGINE_ATAN2: case SYMENGINE_ASINH: case SYMENGINE_ACSCH:
        case SYMENGINE_ACOSH: case SYMENGINE_ATANH: case SYMENGINE_ACOTH: case SYMENGINE_ASECH:
        case SYMENGINE_LAMBERTW: case SYMENGINE_SIGN: case SYMENGINE_FLOOR: case SYMENGINE_CEILING:
        case SYMENGINE_MAX: case SYMENGINE_MIN: // no order on complex values: the choice flips with rounding
            cut = true;
            break;
        default:
            break;
    }
    for (const auto &a : e->get_args()) {
        if (cut and contains_trig_hyp(a))
            return true;
        if (cut_over_rewritten(a))
            return true;
    }
    return false;
}

static bool has_zero_base_pow(const RCP<const Basic> &e)
{
    if (is_a<Pow>(*e) and eq(*down_cast<const Pow &>(*e).get_base(), *zero))
        return true;
    if (is_a<Mul>(*e))
        for (const auto &p : down_cast<const Mul &>(*e).get_dict())
            if (eq(*p.first, *zero))
                return true;
    for (const auto &a : e->get_args())
        if (has_zero_base_pow(a))
            return true;
    return false;
}

static std::string oracle_rewrite(const std::string &op, const RCP<const Basic> &e, const Out &r)
{
    if (not r.ok)
        return "";
    if ((op == "EXP" or op == "SIN" or op == "COS") and cut_over_rewritten(e))
        return "";
    // 0**w with a symbolic w is 0, 1 or infinite depending on the point: nothing to compare
    if (has_zero_base_pow(e))
        return "";
    // a symbol-free input is a single point, typically on the branch cuts of the inverse functions
    if (free_symbols(*e).empty())
        return "";
    bool conj = op == "CONJ";
    // KroneckerDelta / LeviCivita are returned unchanged (real for the intended integer arguments)
    if (conj and has_index_function(e))
        return "";
    for (int k = 2; k < 4; k++) {
        map_basic_basic pt = make_point(e, k);
        cplx ve, vr, ve2;
        if (numval(e, pt, ve) and numval(r.a, pt, vr)) {
            // conditioning: the input itself must be stable under a relative perturbation of 1e-10 of the point
            // (sec((12 + |x|)**15) is not: the argument is of the order 1e16)
            if (not numval(e, perturbed(pt), ve2) or std::abs(ve - ve2) > 1e-6 * std::max(1.0, std::abs(ve)))
                continue;
            cplx want = conj ? std::conj(ve) : ve;
            if (not close_to(vr, want))
                return "\t#ORACLE:" + op + "-value:" + ":output = " + show(vr) + " but expected " + show(want)
                       + " at complex point " + std::to_string(k);
        }
    }
    return "";
}

// ---------------------------------------------------------------- cases
static std::string show_pair(const Out &o)
{
    if (not o.ok)
        return o.exn;
    return verif::dump(*o.a) + " ;; " + verif::dump(*o.b);
}

static std::string run_case(const std::string &line, const std::function<void()> &recipe_done,
                            const std::function<void(const std::string &)> &partial)
{
    if (line.size() < 3)
        return "SKIP empty";
    char mode = line[0];
    std::vector<std::string> fields;
    {
        size_t st = 2;
        while (true) {
            size_t t = line.find('\t', st);
            if (t == std::string::npos) {
                fields.push_back(line.substr(st));
                break;
            }
            fields.push_back(line.substr(st, t - st));
            st = t + 1;
        }
    }
    RCP<const Basic> e;
    try {
        e = verif::eval_recipe(fields[0]);
    } catch (...) {
        recipe_done();
        return "SKIP recipe:" + verif::exn_name();
    }
    recipe_done();
    if (mode == 'A') {
        Out nd = run_op("ND", e), ri = run_op("RI", e), xe = run_op("XE", e);
        std::string o = verif::dump(*e) + "\tND:" + show_pair(nd) + "\tRI:" + show_pair(ri) + "\tXE:"
                        + (xe.ok ? verif::dump(*xe.a) : xe.exn);
        // CH: which operations changed the expression (nd: denominator not 1, ri: imaginary part not 0)
        std::string ch, orc;
        ch += (nd.ok and not eq(*nd.b, *one)) ? "1" : "0";
        ch += (ri.ok and not eq(*ri.b, *zero)) ? "1" : "0";
        std::vector<Out> outs;
        for (const char *op : {"EXP", "SIN", "COS", "T2S", "CONJ"}) {
            outs.push_back(run_op(op, e));
            ch += (outs.back().ok and not eq(*outs.back().a, *e)) ? "1" : "0";
        }
        o += "\tCH:" + ch;
        // the numeric oracle substitutes doubles and evaluates: a crash in there (e.g. a libstdc++ assertion on
        // a NaN inside std::pow) is not a crash of the operations under test; the line without oracle survives
        partial(o);
        orc = oracle_analyse(e, nd, ri);
        size_t k = 0;
        for (const char *op : {"EXP", "SIN", "COS", "T2S", "CONJ"})
            orc += oracle_rewrite(op, e, outs[k++]);
        return o + orc;
    }
    if (mode == 'V') {
        std::string o;
        for (size_t i = 1; i < fields.size(); i++) {
            size_t eqp = fields[i].find('=');
            if (eqp == std::string::npos)
                continue;
            std::string op = fields[i].substr(0, eqp), rec = fields[i].substr(eqp + 1);
            Out lib = run_op(op, e);
            Out mod;
            if (rec.compare(0, 4, "EXN:") == 0) {
                mod.exn = rec;
            } else {
                mod = guarded([&](Out &m) { m.a = ev(verif::parse_sexp(rec), e); });
            }
            if (i > 1)
                o += "\t";
            if (lib.ok and mod.ok) {
                if (eq(*lib.a, *mod.a))
                    o += op + "==";
                else
                    o += op + "!=lib:" + verif::dump(*lib.a) + " model:" + verif::dump(*mod.a);
            } else if (not lib.ok and not mod.ok and lib.exn == mod.exn) {
                o += op + "==";
            } else {
                o += op + "!exn lib:" + (lib.ok ? "ok" : lib.exn) + " model:" + (mod.ok ? "ok" : mod.exn);
            }
        }
        return o;
    }
    return "SKIP mode";
}

int main()
{
    std::vector<std::string> lines;
    std::string line;
    while (std::getline(std::cin, line))
        lines.push_back(line);
    size_t n = lines.size(), start = 0;
    std::vector<std::string> out(n);
    while (start < n) {
        int fd[2];
        if (pipe(fd) != 0)
            return 3;
        fflush(stdout);
        pid_t pid = fork();
        if (pid == 0) {
            close(fd[0]);
            struct rlimit rl;
            rl.rlim_cur = rl.rlim_max = 0;
            setrlimit(RLIMIT_CORE, &rl);
            auto send = [&](const std::string &s) {
                size_t off = 0;
                while (off < s.size()) {
                    ssize_t w = write(fd[1], s.data() + off, s.size() - off);
                    if (w <= 0)
                        _exit(4);
                    off += (size_t)w;
                }
            };
            for (size_t i = start; i < n; i++) {
                alarm(120);
                std::string r;
                try {
                    r = run_case(lines[i], [&]() { send("@\n"); },
                                 [&](const std::string &p) {
                                     std::string q = p;
                                     for (auto &c : q)
                                         if (c == '\n')
                                             c = ' ';
                                     send("@P" + q + "\n");
                                 });
                } catch (...) {
                    r = "UNCAUGHT";
                }
                for (auto &c : r)
                    if (c == '\n')
                        c = ' ';
                send(r + "\n");
            }
            _exit(0);
        }
        close(fd[1]);
        std::string buf;
        char tmp[65536];
        ssize_t r;
        while ((r = read(fd[0], tmp, sizeof tmp)) > 0)
            buf.append(tmp, (size_t)r);
        close(fd[0]);
        int status = 0;
        waitpid(pid, &status, 0);
        size_t i = start, pos = 0;
        bool recipe_ok = false;
        std::string part;
        while (pos < buf.size() and i < n) {
            size_t nl = buf.find('\n', pos);
            if (nl == std::string::npos)
                break;
            std::string l = buf.substr(pos, nl - pos);
            pos = nl + 1;
            if (l == "@") {
                recipe_ok = true;
            } else if (l.compare(0, 2, "@P") == 0) {
                part = l.substr(2);
            } else {
                out[i++] = l;
                recipe_ok = false;
                part.clear();
            }
        }
        if (i >= n)
            break;
        if (WIFSIGNALED(status)) {
            int sig = WTERMSIG(status);
            if (!recipe_ok)
                out[i] = "SKIP recipe-crash:" + std::to_string(sig);
            else if (!part.empty())
                out[i] = part + "\t#NOTE:oracle-evaluation-died:" + std::to_string(sig);
            else
                out[i] = sig == SIGALRM ? "HANG" : "CRASH:" + std::to_string(sig);
        } else {
            out[i] = "SKIP child-exit";
        }
        start = i + 1;
    }
    for (const auto &l : out)
        std::cout << l << "\n";
    return 0;
}
