// C28 driver: boolean simplification preserves truth value.
// Input line: ONE recipe (grammar of recipe.h) whose top-level operation is the operation under
// test:  (and a...) (or a...) (nand a...) (nor a...) (xor a...) (xnor a...) (not a)
//        (contains e s) (pw e c e c ...) (eq a b) (ne a b) (lt a b) (le a b) (gt a b) (ge a b)
//        (subs f x v)
// The arguments are evaluated through the public API, then the operation is applied.
// Output line:  <op> \t <dumps of the arguments, " ;; " separated> \t <dump of the result | EXN:k>
//               \t#ROWS:<n> [\t#ORACLE:<what>]
// The model (ocaml/c28_main.ml) reads the first two fields and must reproduce the third.
//
// Property oracle (independent of the model): the truth table of the UNSIMPLIFIED recipe, computed
// by a small evaluator of this file over the recipe text with exact rationals, is compared with
//   (a) the truth value of the library's result tree, computed by a second small evaluator that
//       walks the result tree, and
//   (b) the library's own evaluation result->subs(assignment), which must be the BooleanAtom (or,
//       for piecewise, the number) of the same value.
// The assignments range over a value set that realises every order type of the symbols relative
// to the numeric constants of the recipe (each constant, and as many distinct points in every gap
// as there are symbols): for this fragment the table is a decision procedure for equivalence.
#include <symengine/basic.h>
#include <symengine/add.h>
#include <symengine/mul.h>
#include <symengine/pow.h>
#include <symengine/functions.h>
#include <symengine/logic.h>
#include <symengine/sets.h>
#include <symengine/complex.h>
#include <symengine/complex_double.h>
#include <symengine/real_double.h>
#include <symengine/infinity.h>
#include <symengine/nan.h>
#include <symengine/constants.h>
#include <symengine/rational.h>
#include <symengine/integer.h>
#include <symengine/visitor.h>
#include <symengine/symengine_exception.h>
#include <set>
#include "common.h"
#include "dump.h"
#include "recipe.h"
using namespace SymEngine;
using verif::Sexp;

typedef rational_class Q;
typedef std::map<std::string, Q> Env;

struct Unsup : std::runtime_error {
    Unsup(const std::string &s) : std::runtime_error(s) {}
};

static std::string qstr(const Q &q)
{
    std::ostringstream o;
    o << get_num(q);
    if (get_den(q) != 1)
        o << "/" << get_den(q);
    return o.str();
}

static bool is_int_atom(const std::string &a)
{
    return !a.empty() && (isdigit((unsigned char)a[0]) || (a[0] == '-' && a.size() > 1));
}

static const std::set<std::string> &keywords()
{
    static const std::set<std::string> k = {"true", "false", "emptyset", "universalset", "oo", "-oo", "zoo",
                                            "nan", "pi", "E", "I", "reals", "rationals", "integers",
                                            "naturals", "naturals0", "complexes", "EulerGamma", "Catalan",
                                            "GoldenRatio"};
    return k;
}

// ---------------------------------------------------------------- scanning the recipe
static void scan(const Sexp &e, std::set<std::string> &syms, std::set<Q> &consts, bool head = false)
{
    if (e.is_atom) {
        if (head)
            return;
        if (is_int_atom(e.atom))
            consts.insert(Q(integer_class(e.atom)));
        else if (!keywords().count(e.atom))
            syms.insert(e.atom);
        return;
    }
    if (e.kids.empty())
        return;
    const std::string &op = e.kids[0].atom;
    if (op == "i") {
        consts.insert(Q(integer_class(e.kids.at(1).atom)));
        return;
    }
    if (op == "q") {
        Q q(integer_class(e.kids.at(1).atom), integer_class(e.kids.at(2).atom));
        canonicalize(q);
        consts.insert(q);
        return;
    }
    if (op == "s") {
        syms.insert(e.kids.at(1).atom);
        return;
    }
    if (op == "interval") { // the two flags are not constants
        scan(e.kids.at(1), syms, consts);
        scan(e.kids.at(2), syms, consts);
        return;
    }
    for (size_t i = 1; i < e.kids.size(); i++)
        scan(e.kids[i], syms, consts);
}

// ---------------------------------------------------------------- evaluator 1: over the recipe
static Q termR(const Sexp &e, const Env &rho)
{
    if (e.is_atom) {
        if (is_int_atom(e.atom))
            return Q(integer_class(e.atom));
        auto it = rho.find(e.atom);
        if (it == rho.end())
            throw Unsup("term atom " + e.atom);
        return it->second;
    }
    const std::string &op = e.kids.at(0).atom;
    if (op == "i")
        return Q(integer_class(e.kids.at(1).atom));
    if (op == "q") {
        Q q(integer_class(e.kids.at(1).atom), integer_class(e.kids.at(2).atom));
        canonicalize(q);
        return q;
    }
    if (op == "s") {
        auto it = rho.find(e.kids.at(1).atom);
        if (it == rho.end())
            throw Unsup("symbol");
        return it->second;
    }
    throw Unsup("term " + op);
}

static bool memberR(const Sexp &s, const Q &v, const Env &rho)
{
    if (s.is_atom) {
        if (s.atom == "emptyset")
            return false;
        if (s.atom == "universalset")
            return true;
        throw Unsup("set atom " + s.atom);
    }
    const std::string &op = s.kids.at(0).atom;
    if (op == "interval") {
        Q a = termR(s.kids.at(1), rho), b = termR(s.kids.at(2), rho);
        bool lo = s.kids.at(3).atom == "1", ro = s.kids.at(4).atom == "1";
        // interval(a, b, lo, ro) of sets.h: a > b, or a == b with an open end, is the empty set;
        // a == b closed is {a}; the membership conditions below give the same answers
        bool left = lo ? (a < v) : (a <= v);
        bool right = ro ? (v < b) : (v <= b);
        return left && right;
    }
    if (op == "fset") {
        for (size_t i = 1; i < s.kids.size(); i++)
            if (termR(s.kids[i], rho) == v)
                return true;
        return false;
    }
    throw Unsup("set " + op);
}

static bool boolR(const Sexp &e, const Env &rho)
{
    if (e.is_atom) {
        if (e.atom == "true")
            return true;
        if (e.atom == "false")
            return false;
        throw Unsup("bool atom " + e.atom);
    }
    const std::string &op = e.kids.at(0).atom;
    auto n = e.kids.size();
    if (op == "eq" || op == "ne" || op == "lt" || op == "le" || op == "gt" || op == "ge") {
        Q a = termR(e.kids.at(1), rho), b = termR(e.kids.at(2), rho);
        if (op == "eq") return a == b;
        if (op == "ne") return a != b;
        if (op == "lt") return a < b;
        if (op == "le") return a <= b;
        if (op == "gt") return a > b;
        return a >= b;
    }
    if (op == "and" || op == "nand") {
        bool r = true;
        for (size_t i = 1; i < n; i++)
            r = boolR(e.kids[i], rho) && r;
        return op == "and" ? r : !r;
    }
    if (op == "or" || op == "nor") {
        bool r = false;
        for (size_t i = 1; i < n; i++)
            r = boolR(e.kids[i], rho) || r;
        return op == "or" ? r : !r;
    }
    if (op == "xor" || op == "xnor") {
        bool r = false;
        for (size_t i = 1; i < n; i++)
            r = (r != boolR(e.kids[i], rho));
        return op == "xor" ? r : !r;
    }
    if (op == "not")
        return !boolR(e.kids.at(1), rho);
    if (op == "contains")
        return memberR(e.kids.at(2), termR(e.kids.at(1), rho), rho);
    if (op == "subs") {
        Env r2 = rho;
        const Sexp &x = e.kids.at(2);
        std::string name = x.is_atom ? x.atom : x.kids.at(1).atom;
        r2[name] = termR(e.kids.at(3), rho);
        return boolR(e.kids.at(1), r2);
    }
    throw Unsup("bool " + op);
}

// value of the whole case: kind 0 = bool, 1 = number, 2 = undefined (piecewise without a true branch)
struct Val {
    int kind;
    bool b;
    Q q;
    bool operator==(const Val &o) const
    {
        return kind == o.kind && (kind != 0 || b == o.b) && (kind != 1 || q == o.q);
    }
    std::string str() const
    {
        return kind == 0 ? (b ? "true" : "false") : kind == 1 ? qstr(q) : "undefined";
    }
};

static Val caseR(const Sexp &e, const Env &rho)
{
    if (!e.is_atom && e.kids.at(0).atom == "pw") {
        for (size_t i = 1; i + 1 < e.kids.size(); i += 2)
            if (boolR(e.kids[i + 1], rho))
                return Val{1, false, termR(e.kids[i], rho)};
        return Val{2, false, Q(0)};
    }
    return Val{0, boolR(e, rho), Q(0)};
}

// ---------------------------------------------------------------- evaluator 2: over the result tree
static Q termT(const Basic &b, const Env &rho)
{
    if (is_a<Integer>(b))
        return Q(down_cast<const Integer &>(b).as_integer_class());
    if (is_a<Rational>(b))
        return down_cast<const Rational &>(b).as_rational_class();
    if (is_a<Symbol>(b)) {
        auto it = rho.find(down_cast<const Symbol &>(b).get_name());
        if (it == rho.end())
            throw Unsup("tree symbol");
        return it->second;
    }
    throw Unsup("tree term " + b.__str__());
}

static bool memberT(const Basic &s, const Q &v, const Env &rho)
{
    if (is_a<EmptySet>(s))
        return false;
    if (is_a<UniversalSet>(s))
        return true;
    if (is_a<Interval>(s)) {
        const Interval &i = down_cast<const Interval &>(s);
        Q a = termT(*i.get_start(), rho), b = termT(*i.get_end(), rho);
        bool left = i.get_left_open() ? (a < v) : (a <= v);
        bool right = i.get_right_open() ? (v < b) : (v <= b);
        return left && right;
    }
    if (is_a<FiniteSet>(s)) {
        for (const auto &x : down_cast<const FiniteSet &>(s).get_container())
            if (termT(*x, rho) == v)
                return true;
        return false;
    }
    throw Unsup("tree set " + s.__str__());
}

static bool boolT(const Basic &b, const Env &rho)
{
    if (is_a<BooleanAtom>(b))
        return down_cast<const BooleanAtom &>(b).get_val();
    if (is_a_Relational(b)) {
        vec_basic a = b.get_args();
        Q x = termT(*a[0], rho), y = termT(*a[1], rho);
        if (is_a<Equality>(b)) return x == y;
        if (is_a<Unequality>(b)) return x != y;
        if (is_a<LessThan>(b)) return x <= y;
        return x < y;
    }
    if (is_a<Contains>(b)) {
        const Contains &c = down_cast<const Contains &>(b);
        return memberT(*c.get_set(), termT(*c.get_expr(), rho), rho);
    }
    if (is_a<Not>(b))
        return !boolT(*down_cast<const Not &>(b).get_arg(), rho);
    if (is_a<And>(b)) {
        bool r = true;
        for (const auto &x : down_cast<const And &>(b).get_container())
            r = boolT(*x, rho) && r;
        return r;
    }
    if (is_a<Or>(b)) {
        bool r = false;
        for (const auto &x : down_cast<const Or &>(b).get_container())
            r = boolT(*x, rho) || r;
        return r;
    }
    if (is_a<Xor>(b)) {
        bool r = false;
        for (const auto &x : down_cast<const Xor &>(b).get_container())
            r = (r != boolT(*x, rho));
        return r;
    }
    throw Unsup("tree bool " + b.__str__());
}

static Val caseT(const Basic &b, const Env &rho, bool value_typed)
{
    if (!value_typed)
        return Val{0, boolT(b, rho), Q(0)};
    if (is_a<Piecewise>(b)) {
        for (const auto &p : down_cast<const Piecewise &>(b).get_vec())
            if (boolT(*p.second, rho))
                return Val{1, false, termT(*p.first, rho)};
        return Val{2, false, Q(0)};
    }
    return Val{1, false, termT(b, rho)};
}

// evaluation (b): through the library's own subs
static Val caseSubs(const RCP<const Basic> &b, const Env &rho, bool value_typed)
{
    map_basic_basic m;
    for (const auto &p : rho)
        m[symbol(p.first)] = Rational::from_mpq(p.second);
    RCP<const Basic> r;
    try {
        r = b->subs(m);
    } catch (const DomainError &) {
        return Val{2, false, Q(0)};
    }
    if (!value_typed) {
        if (!is_a<BooleanAtom>(*r))
            throw Unsup("subs result not a BooleanAtom: " + r->__str__());
        return Val{0, down_cast<const BooleanAtom &>(*r).get_val(), Q(0)};
    }
    if (is_a<Integer>(*r) || is_a<Rational>(*r))
        return Val{1, false, termT(*r, rho)};
    throw Unsup("subs result not a number: " + r->__str__());
}

// ---------------------------------------------------------------- assignments
static std::vector<Q> value_set(size_t nsyms, const std::set<Q> &consts, size_t per_gap)
{
    std::vector<Q> cs(consts.begin(), consts.end());
    std::vector<Q> v;
    if (cs.empty()) {
        for (size_t j = 0; j < std::max<size_t>(per_gap, 1); j++)
            v.push_back(Q(integer_class((long)j)));
        return v;
    }
    for (size_t j = per_gap; j >= 1; j--)
        v.push_back(cs.front() - Q(integer_class((long)j)));
    for (size_t i = 0; i < cs.size(); i++) {
        v.push_back(cs[i]);
        if (i + 1 < cs.size()) {
            for (size_t j = 1; j <= per_gap; j++) {
                Q t(integer_class((long)j), integer_class((long)(per_gap + 1)));
                canonicalize(t);
                v.push_back(cs[i] + (cs[i + 1] - cs[i]) * t);
            }
        }
    }
    for (size_t j = 1; j <= per_gap; j++)
        v.push_back(cs.back() + Q(integer_class((long)j)));
    (void)nsyms;
    return v;
}

static std::string env_str(const Env &rho)
{
    std::string s;
    for (const auto &p : rho)
        s += (s.empty() ? "" : ",") + p.first + "=" + qstr(p.second);
    return s;
}

static std::string oracle(const Sexp &recipe, const RCP<const Basic> &result, bool value_typed, size_t &rows)
{
    std::set<std::string> symset;
    std::set<Q> consts;
    scan(recipe, symset, consts);
    std::vector<std::string> syms(symset.begin(), symset.end());
    size_t n = syms.size();
    size_t per_gap = std::max<size_t>(n, 1);
    std::vector<Q> vals;
    while (true) {
        vals = value_set(n, consts, per_gap);
        double total = 1;
        for (size_t i = 0; i < n; i++)
            total *= (double)vals.size();
        if (total <= 6000 || per_gap == 1)
            break;
        per_gap--;
    }
    std::vector<size_t> idx(n, 0);
    rows = 0;
    std::string complete = (per_gap >= std::max<size_t>(n, 1)) ? "" : "(reduced table) ";
    while (true) {
        Env rho;
        for (size_t i = 0; i < n; i++)
            rho[syms[i]] = vals[idx[i]];
        rows++;
        try {
            Val want = caseR(recipe, rho);
            Val got = caseT(*result, rho, value_typed);
            if (!(want == got))
                return "truth " + complete + "at " + env_str(rho) + ": unsimplified = " + want.str()
                       + ", result " + result->__str__() + " = " + got.str();
            Val got2 = caseSubs(result, rho, value_typed);
            if (!(want == got2))
                return "subs-eval " + complete + "at " + env_str(rho) + ": unsimplified = " + want.str()
                       + ", result " + result->__str__() + " evaluates by subs to " + got2.str();
        } catch (const Unsup &u) {
            return std::string("unsupported ") + u.what();
        }
        size_t k = 0;
        while (k < n && ++idx[k] == vals.size()) {
            idx[k] = 0;
            k++;
        }
        if (k == n)
            break;
        if (rows > 20000)
            break;
    }
    return "";
}

// ---------------------------------------------------------------- the operation under test
static std::string run_case(const std::string &line)
{
    Sexp e;
    try {
        e = verif::parse_sexp(line);
    } catch (...) {
        return "SKIP:parse";
    }
    if (e.is_atom || e.kids.empty() || !e.kids[0].is_atom)
        return "SKIP:form";
    const std::string op = e.kids[0].atom;
    vec_basic args;
    try {
        for (size_t i = 1; i < e.kids.size(); i++)
            args.push_back(verif::eval_recipe(e.kids[i]));
    } catch (...) {
        return "SKIP:arg-" + verif::exn_name();
    }
    std::ostringstream o;
    o << op << "\t";
    for (size_t i = 0; i < args.size(); i++) {
        std::string d = verif::dump(*args[i]);
        if (d.find("Opaque") != std::string::npos)
            return "SKIP:opaque";
        o << (i ? " ;; " : "") << d;
    }
    o << "\t";
    RCP<const Basic> r;
    std::string exn;
    try {
        if (op == "and" || op == "or" || op == "nand" || op == "nor") {
            set_boolean s;
            for (auto &x : args)
                s.insert(verif::as_bool(x));
            r = op == "and" ? logical_and(s) : op == "or" ? logical_or(s) : op == "nand" ? logical_nand(s) : logical_nor(s);
        } else if (op == "xor" || op == "xnor") {
            vec_boolean s;
            for (auto &x : args)
                s.push_back(verif::as_bool(x));
            r = op == "xor" ? logical_xor(s) : logical_xnor(s);
        } else if (op == "not") {
            r = logical_not(verif::as_bool(args.at(0)));
        } else if (op == "contains") {
            r = contains(args.at(0), verif::as_set(args.at(1)));
        } else if (op == "pw") {
            PiecewiseVec v;
            for (size_t i = 0; i + 1 < args.size(); i += 2)
                v.push_back({args[i], verif::as_bool(args[i + 1])});
            r = piecewise(std::move(v));
        } else if (op == "eq") {
            r = Eq(args.at(0), args.at(1));
        } else if (op == "ne") {
            r = Ne(args.at(0), args.at(1));
        } else if (op == "lt") {
            r = Lt(args.at(0), args.at(1));
        } else if (op == "le") {
            r = Le(args.at(0), args.at(1));
        } else if (op == "gt") {
            r = Gt(args.at(0), args.at(1));
        } else if (op == "ge") {
            r = Ge(args.at(0), args.at(1));
        } else if (op == "subs") {
            map_basic_basic m;
            m[args.at(1)] = args.at(2);
            r = args.at(0)->subs(m);
        } else {
            return "SKIP:op";
        }
    } catch (const std::runtime_error &x) {
        if (std::string(x.what()).find("recipe:") == 0)
            return "SKIP:type";
        exn = "EXN:7";
    } catch (...) {
        exn = verif::exn_name();
    }
    if (!exn.empty()) {
        o << exn;
        // piecewise with no reachable branch: the unsimplified value must be undefined everywhere
        if (op == "pw" && exn == "EXN:2") {
            std::set<std::string> symset;
            std::set<Q> consts;
            scan(e, symset, consts);
            std::vector<std::string> syms(symset.begin(), symset.end());
            std::vector<Q> vals = value_set(syms.size(), consts, std::max<size_t>(syms.size(), 1));
            std::vector<size_t> idx(syms.size(), 0);
            size_t rows = 0;
            while (true) {
                Env rho;
                for (size_t i = 0; i < syms.size(); i++)
                    rho[syms[i]] = vals[idx[i]];
                rows++;
                try {
                    Val want = caseR(e, rho);
                    if (want.kind != 2) {
                        o << "\t#ROWS:" << rows << "\t#ORACLE:truth piecewise threw although the value at "
                          << env_str(rho) << " is " << want.str();
                        return o.str();
                    }
                } catch (const Unsup &) {
                    break;
                }
                size_t k = 0;
                while (k < syms.size() && ++idx[k] == vals.size()) {
                    idx[k] = 0;
                    k++;
                }
                if (k == syms.size() || rows > 6000)
                    break;
            }
            o << "\t#ROWS:" << rows;
        }
        return o.str();
    }
    std::string d = verif::dump(*r);
    o << d;
    size_t rows = 0;
    std::string bad = oracle(e, r, op == "pw", rows);
    o << "\t#ROWS:" << rows;
    if (!bad.empty())
        o << "\t#ORACLE:" << bad;
    return o.str();
}

// Cases run in forked children so that a crash or a hang is an observable result of that case
// (CRASH:<sig> / HANG) -- but one child handles consecutive cases until it dies: it writes one
// result line per case to a pipe; when it is killed while working on case k the parent records that
// and starts a fresh child at case k + 1.
static void run_batch(const std::vector<std::string> &lines, std::vector<std::string> &out)
{
    size_t start = 0;
    out.assign(lines.size(), "");
    while (start < lines.size()) {
        int fd[2];
        if (pipe(fd) != 0) {
            for (size_t i = start; i < lines.size(); i++)
                out[i] = "PIPEFAIL";
            return;
        }
        fflush(stdout);
        pid_t pid = fork();
        if (pid == 0) {
            close(fd[0]);
            struct rlimit rl;
            rl.rlim_cur = rl.rlim_max = 0;
            setrlimit(RLIMIT_CORE, &rl);
            for (size_t i = start; i < lines.size(); i++) {
                alarm(60);
                std::string s;
                try {
                    s = run_case(lines[i]);
                } catch (...) {
                    s = "UNCAUGHT";
                }
                for (auto &ch : s)
                    if (ch == '\n')
                        ch = ' ';
                s += "\n";
                size_t off = 0;
                while (off < s.size()) {
                    ssize_t w = write(fd[1], s.data() + off, s.size() - off);
                    if (w <= 0)
                        _exit(1);
                    off += (size_t)w;
                }
            }
            _exit(0);
        }
        close(fd[1]);
        std::string buf;
        char tmp[65536];
        ssize_t r;
        while ((r = read(fd[0], tmp, sizeof tmp)) > 0)
            buf.append(tmp, (size_t)r);
        close(fd[0]);
        int status = 0;
        waitpid(pid, &status, 0);
        size_t pos = 0, k = start;
        while (k < lines.size()) {
            size_t nl = buf.find('\n', pos);
            if (nl == std::string::npos)
                break;
            out[k++] = buf.substr(pos, nl - pos);
            pos = nl + 1;
        }
        if (k >= lines.size())
            return;
        // the child died while working on case k
        std::string partial = buf.substr(pos);
        if (WIFSIGNALED(status)) {
            int sig = WTERMSIG(status);
            out[k] = "?\t?\t" + (sig == SIGALRM ? std::string("HANG") : "CRASH:" + std::to_string(sig));
        } else {
            out[k] = "?\t?\tCRASH:exit";
        }
        start = k + 1;
    }
}

int main()
{
    std::vector<std::string> lines, out;
    std::string line;
    while (std::getline(std::cin, line))
        lines.push_back(line);
    run_batch(lines, out);
    for (auto &o : out)
        std::cout << o << "\n";
    return 0;
}
