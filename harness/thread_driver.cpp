// C41 driver (ts configuration: WITH_SYMENGINE_THREAD_SAFE + -fsanitize=thread).
// Several threads work concurrently on shared immutable expressions; the per-thread result
// strings are compared with a sequential run of the same programs on freshly built equal
// expressions, and the observable state of the two lazily written fields (hash_, refcount_) is
// printed in the format of the extracted interleaving model (ocaml/rcp_main.ml, `T` lines).
//
// Input line:  T <seed> <reps> <maindrop 0|1> | recipe ;; recipe ;; ... | prog ;; prog ;; ...
//   one prog per worker thread, ops separated by blanks (k, j: indices of shared expressions):
//     h<k> hash()          c<k> copy a handle       d<k> drop a copied handle
//     s<k> __str__         q<k>,<j> eq and __cmp__  D<k> diff wrt x     S<k> subs x -> y+1
//     X<k> expand          A<k>,<j> add             M<k>,<j> mul
//   every worker owns one handle to every shared expression from the start and drops all its
//   handles at the end; with maindrop=1 the main thread drops its own handles concurrently.
// Output: res=ok|DIFF... | k: rc=<use_count after join> cache=0|H|other rets=<n:allH,...> freed=0|1 | ...
//         | live=<objects alive at the end - baseline> tsan=<reports>   [\t#ORACLE:...]
#include <cstdio>
#include <cstdlib>
#include <string>
#include <vector>
#include <map>
#include <set>
#include <sstream>
#include <iostream>
#include <algorithm>
#include <thread>
#include <atomic>
#include <mutex>
#include <random>
#include <functional>
#include <memory>
#include <unordered_map>
#include <unordered_set>
#include <cmath>
#include <complex>
#include <typeinfo>
#include <cassert>
#include <sched.h>
#define private public
#define protected public
#include <symengine/basic.h>
#undef private
#undef protected
#include <symengine/add.h>
#include <symengine/mul.h>
#include <symengine/pow.h>
#include <symengine/symbol.h>
#include <symengine/integer.h>
#include <symengine/rational.h>
#include <symengine/complex.h>
#include <symengine/complex_double.h>
#include <symengine/real_double.h>
#include <symengine/functions.h>
#include <symengine/logic.h>
#include <symengine/sets.h>
#include <symengine/infinity.h>
#include <symengine/nan.h>
#include <symengine/constants.h>
#include <symengine/visitor.h>
#include <symengine/symengine_exception.h>
#include "common.h"
#include "dump.h"
#include "recipe.h"
using namespace SymEngine;

static long live_now()
{
#ifdef SYMENGINE_VERIF_LIVE_OBJECTS
    return SymEngine::verif_live_objects();
#else
    return 0;
#endif
}

static std::vector<std::string> split_sep(const std::string &s, const std::string &sep)
{
    std::vector<std::string> v;
    size_t st = 0;
    while (true) {
        size_t p = s.find(sep, st);
        if (p == std::string::npos) {
            v.push_back(s.substr(st));
            break;
        }
        v.push_back(s.substr(st, p - st));
        st = p + sep.size();
    }
    return v;
}

struct Worker {
    std::vector<std::string> ops;
    std::vector<std::string> results;
    std::vector<RCP<const Basic>> mine;
    std::vector<std::vector<RCP<const Basic>>> stack;
    std::vector<std::vector<hash_t>> hashes;
};

static void perturb(std::mt19937 &rng)
{
    unsigned r = rng() % 16;
    if (r < 4)
        sched_yield();
    else if (r < 6) {
        volatile unsigned x = 0;
        for (unsigned i = 0; i < (rng() % 2000); i++)
            x += i;
    }
}

static void run_ops(Worker &w, unsigned seed, bool noisy)
{
    std::mt19937 rng(seed);
    RCP<const Symbol> x = symbol("x");
    RCP<const Basic> y1 = add(symbol("y"), integer(1));
    for (const std::string &op : w.ops) {
        if (op.empty())
            continue;
        char c = op[0];
        size_t comma = op.find(',');
        size_t k = (size_t)std::stoul(op.substr(1, comma == std::string::npos ? std::string::npos : comma - 1));
        size_t j = comma == std::string::npos ? 0 : (size_t)std::stoul(op.substr(comma + 1));
        if (k >= w.mine.size() || j >= w.mine.size())
            continue;
        try {
            switch (c) {
                case 'h':
                    w.hashes[k].push_back(w.mine[k]->hash());
                    break;
                case 'c':
                    w.stack[k].push_back(w.mine[k]);
                    break;
                case 'd':
                    if (!w.stack[k].empty())
                        w.stack[k].pop_back();
                    break;
                case 's':
                    w.results.push_back(w.mine[k]->__str__());
                    break;
                case 'q':
                    w.results.push_back(std::to_string(eq(*w.mine[k], *w.mine[j])) + ":"
                                        + std::to_string(w.mine[k]->__cmp__(*w.mine[j])));
                    break;
                case 'D':
                    w.results.push_back(w.mine[k]->diff(x)->__str__());
                    break;
                case 'S': {
                    map_basic_basic d;
                    d[x] = y1;
                    w.results.push_back(w.mine[k]->subs(d)->__str__());
                    break;
                }
                case 'X':
                    w.results.push_back(expand(w.mine[k])->__str__());
                    break;
                case 'A':
                    w.results.push_back(add(w.mine[k], w.mine[j])->__str__());
                    break;
                case 'M':
                    w.results.push_back(mul(w.mine[k], w.mine[j])->__str__());
                    break;
                default:
                    break;
            }
        } catch (const std::exception &) {
            w.results.push_back("EXN");
        }
        if (noisy)
            perturb(rng);
    }
    w.stack.clear();
    w.mine.clear();
}

static std::vector<RCP<const Basic>> build(const std::vector<std::string> &recipes)
{
    std::vector<RCP<const Basic>> v;
    for (const std::string &r : recipes)
        v.push_back(verif::eval_recipe(r));
    return v;
}

static void setup(std::vector<Worker> &ws, const std::vector<std::string> &progs,
                  const std::vector<RCP<const Basic>> &shared)
{
    ws.clear();
    ws.resize(progs.size());
    for (size_t t = 0; t < progs.size(); t++) {
        ws[t].ops = verif::split_ws(progs[t]);
        ws[t].mine = shared; // one handle per shared expression, copied by the main thread
        ws[t].stack.resize(shared.size());
        ws[t].hashes.resize(shared.size());
    }
}

static int count_tsan(const char *path, std::string &first)
{
    FILE *f = fopen(path, "r");
    if (!f)
        return 0;
    int n = 0;
    char buf[4096];
    while (fgets(buf, sizeof buf, f)) {
        std::string s(buf);
        if (s.find("WARNING: ThreadSanitizer") != std::string::npos)
            n++;
        if (first.empty() && s.find("SUMMARY: ThreadSanitizer") != std::string::npos) {
            first = s.substr(0, 200);
            while (!first.empty() && (first.back() == '\n' || first.back() == '\r'))
                first.pop_back();
        }
    }
    fclose(f);
    return n;
}

static std::string run_case(const std::string &line)
{
    std::vector<std::string> parts = split_sep(line, "|");
    if (parts.size() != 3)
        return "BADLINE";
    std::vector<std::string> head = verif::split_ws(parts[0]);
    if (head.size() != 4 || head[0] != "T")
        return "BADLINE";
    unsigned seed = (unsigned)std::stoul(head[1]);
    unsigned reps = (unsigned)std::stoul(head[2]);
    bool maindrop = head[3] == "1";
    std::vector<std::string> recipes = split_sep(parts[1], ";;"), progs = split_sep(parts[2], ";;");
    std::ostringstream out, oracle;

    // sequential reference run on its own objects (and warm-up of every lazily built table)
    std::vector<std::vector<std::string>> ref;
    {
        std::vector<RCP<const Basic>> shared = build(recipes);
        std::vector<Worker> ws;
        setup(ws, progs, shared);
        for (size_t t = 0; t < ws.size(); t++) {
            run_ops(ws[t], seed + (unsigned)t, false);
            ref.push_back(ws[t].results);
        }
    }
    char errname[] = "/tmp/thr_drv_XXXXXX";
    int efd = mkstemp(errname);
    int saved = dup(2);
    if (efd >= 0)
        dup2(efd, 2);
    std::string res = "ok";
    std::string last_fields;
    long live_end = 0;
    for (unsigned rep = 0; rep < reps; rep++) {
        long base = live_now();
        std::vector<RCP<const Basic>> shared = build(recipes);
        // __hash__() of every shared expression, from an equal object (does not fill the cache)
        std::vector<hash_t> H;
        {
            std::vector<RCP<const Basic>> twin = build(recipes);
            for (auto &e : twin)
                H.push_back(e->__hash__());
        }
        std::vector<Worker> ws;
        setup(ws, progs, shared);
        std::atomic<int> ready(0);
        std::atomic<bool> go(false);
        std::vector<std::thread> th;
        for (size_t t = 0; t < ws.size(); t++)
            th.emplace_back([&, t]() {
                ready++;
                while (!go.load())
                    ;
                run_ops(ws[t], seed * 7919u + rep * 104729u + (unsigned)t, true);
            });
        while (ready.load() < (int)ws.size())
            sched_yield();
        go.store(true);
        if (maindrop) {
            std::mt19937 rng(seed + rep);
            for (auto &e : shared) {
                perturb(rng);
                e.reset();
            }
        }
        for (auto &t : th)
            t.join();
        // results against the sequential run
        for (size_t t = 0; t < ws.size(); t++)
            if (ws[t].results != ref[t] && res == "ok") {
                size_t i = 0;
                while (i < ref[t].size() && i < ws[t].results.size() && ref[t][i] == ws[t].results[i])
                    i++;
                res = "DIFF:thread" + std::to_string(t) + ":op" + std::to_string(i);
                oracle << " thread " << t << " result " << i << " differs from the sequential run: `"
                       << (i < ws[t].results.size() ? ws[t].results[i].substr(0, 80) : "<none>") << "` vs `"
                       << (i < ref[t].size() ? ref[t][i].substr(0, 80) : "<none>") << "`;";
            }
        std::ostringstream fields;
        for (size_t k = 0; k < shared.size(); k++) {
            fields << " | " << k << ":";
            std::ostringstream rets;
            bool allok = true;
            for (size_t t = 0; t < ws.size(); t++) {
                bool ok = true;
                for (hash_t h : ws[t].hashes[k])
                    if (h != H[k])
                        ok = false;
                rets << (t ? "," : "") << ws[t].hashes[k].size() << ":" << (ok ? 1 : 0);
                if (!ok)
                    allok = false;
            }
            if (!allok)
                oracle << " a concurrent hash() of expression " << k << " did not return __hash__();";
            if (!maindrop) {
                unsigned rc = shared[k]->use_count();
                hash_t c = shared[k]->hash_;
                std::string cs = c == 0 ? "0" : (c == H[k] ? "H" : "other");
                if (cs == "other")
                    oracle << " the hash cache of expression " << k << " holds a value that is neither 0 nor __hash__();";
                long before = live_now();
                shared[k].reset();
                long after = live_now();
                fields << " rc=" << rc << " cache=" << cs << " rets=" << rets.str() << " freed="
#ifdef SYMENGINE_VERIF_LIVE_OBJECTS
                       << (after < before ? 1 : 0);
#else
                       << "?";
#endif
                if (rc != 1)
                    oracle << " use_count of expression " << k << " is " << rc
                           << " after all threads dropped their handles (expected 1);";
            } else {
                fields << " rc=0 cache=- rets=" << rets.str() << " freed=" << "1";
            }
        }
        shared.clear();
        ws.clear();
        live_end = live_now() - base;
#ifdef SYMENGINE_VERIF_LIVE_OBJECTS
        if (live_end != 0)
            oracle << " " << live_end << " objects alive (or freed twice) after every handle was dropped;";
#endif
        last_fields = fields.str();
    }
    if (efd >= 0) {
        fflush(stderr);
        dup2(saved, 2);
        close(efd);
    }
    close(saved);
    std::string first;
    int ntsan = count_tsan(errname, first);
    unlink(errname);
    out << "res=" << res << last_fields << " | live=" << live_end << " tsan=" << ntsan;
    if (ntsan > 0)
        out << " " << first;
    std::string o = oracle.str();
    if (ntsan > 0)
        o += " TSAN:" + std::to_string(ntsan) + " ThreadSanitizer report(s): " + first + ";";
    std::string s = out.str();
    if (!o.empty())
        s += "\t#ORACLE:" + o;
    return s;
}

int main()
{
    std::string line;
    while (std::getline(std::cin, line)) {
        std::string r = verif::run_forked([&]() { return run_case(line); }, 600);
        std::cout << r << "\n";
        std::cout.flush();
    }
    return 0;
}
