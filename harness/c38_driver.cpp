// C38 driver: runs generate_fdiff_weights_vector on the library and prints the same
// canonical line as the extracted model (ocaml/c38_main.ml), followed by a tab and
// "#ORACLE:<what>" when the weights are not exact on some monomial.
//
// case lines
//   R <max_deriv> <around> <g0> <g1> ...          rational grid (p or p/q)
//   Y <max_deriv> <around> <g0> ... | s=v s=v ...  symbolic grid: every point is a sum of terms
//        q | NAME | q*NAME  joined by '+' (no blanks); after '|' a rational value per symbol.
//        The symbolic weights are computed, then the values are substituted; the line
//        printed is that of the substituted weights (so it can be compared with the model
//        run on the substituted grid) and the oracle is evaluated on them.
// output
//   W:<w0>,<w1>,...   weights in storage order (index j + k*len_g), each  p | p/q | zoo | nan
//   CRASH:<sig> (appended by run_forked) when the library aborts, EXN:<n> on an exception
#include <symengine/finitediff.h>
#include <symengine/rational.h>
#include <symengine/integer.h>
#include <symengine/symbol.h>
#include <symengine/add.h>
#include <symengine/mul.h>
#include <symengine/constants.h>
#include <symengine/nan.h>
#include <symengine/infinity.h>
#include <symengine/symengine_exception.h>
#include "common.h"
#include <gmp.h>
#include <map>
#include <set>
using namespace SymEngine;

// ---- a minimal exact rational on raw GMP (the oracle does not use SymEngine arithmetic)
struct Q {
    mpq_t v;
    Q()
    {
        mpq_init(v);
    }
    Q(const Q &o)
    {
        mpq_init(v);
        mpq_set(v, o.v);
    }
    Q &operator=(const Q &o)
    {
        mpq_set(v, o.v);
        return *this;
    }
    ~Q()
    {
        mpq_clear(v);
    }
    explicit Q(long n)
    {
        mpq_init(v);
        mpq_set_si(v, n, 1);
    }
    static bool parse(const std::string &s, Q &out)
    {
        if (s.empty())
            return false;
        if (mpq_set_str(out.v, s[0] == '+' ? s.c_str() + 1 : s.c_str(), 10) != 0)
            return false;
        if (mpz_sgn(mpq_denref(out.v)) == 0)
            return false;
        mpq_canonicalize(out.v);
        return true;
    }
    std::string str() const
    {
        char *c = mpq_get_str(nullptr, 10, v);
        std::string s(c);
        void (*freefunc)(void *, size_t);
        mp_get_memory_functions(nullptr, nullptr, &freefunc);
        freefunc(c, s.size() + 1);
        return s;
    }
};
static Q operator+(const Q &a, const Q &b)
{
    Q r;
    mpq_add(r.v, a.v, b.v);
    return r;
}
static Q operator*(const Q &a, const Q &b)
{
    Q r;
    mpq_mul(r.v, a.v, b.v);
    return r;
}
static bool operator==(const Q &a, const Q &b)
{
    return mpq_equal(a.v, b.v) != 0;
}
static bool operator<(const Q &a, const Q &b)
{
    return mpq_cmp(a.v, b.v) < 0;
}

static RCP<const Number> to_number(const Q &q)
{
    integer_class n, d;
    mpz_set(get_mpz_t(n), mpq_numref(q.v));
    mpz_set(get_mpz_t(d), mpq_denref(q.v));
    return Rational::from_two_ints(*integer(std::move(n)), *integer(std::move(d)));
}

// canonical text of one weight; fills q when it is an exact rational
static std::string show(const RCP<const Basic> &w, Q &q, bool &isq)
{
    isq = false;
    if (w.is_null())
        return "null";
    if (is_a<Integer>(*w)) {
        mpq_set_z(q.v, get_mpz_t(down_cast<const Integer &>(*w).as_integer_class()));
        isq = true;
        return q.str();
    }
    if (is_a<Rational>(*w)) {
        const rational_class &r = down_cast<const Rational &>(*w).as_rational_class();
        mpz_set(mpq_numref(q.v), get_mpz_t(get_num(r)));
        mpz_set(mpq_denref(q.v), get_mpz_t(get_den(r)));
        isq = true;
        // as stored (a non-canonical stored value would show as a disagreement)
        return q.str();
    }
    if (is_a<NaN>(*w))
        return "nan";
    if (is_a<Infty>(*w) and down_cast<const Infty &>(*w).is_unsigned_infinity())
        return "zoo";
    return "?" + w->__str__();
}

// term := q | NAME | q*NAME ; point := term(+term)*
static RCP<const Basic> parse_point(const std::string &s, bool &ok)
{
    RCP<const Basic> acc = zero;
    size_t pos = 0;
    while (pos <= s.size()) {
        size_t nx = s.find('+', pos);
        if (nx == std::string::npos)
            nx = s.size();
        std::string t = s.substr(pos, nx - pos);
        if (t.empty()) {
            ok = false;
            return acc;
        }
        size_t st = t.find('*');
        RCP<const Basic> term;
        if (st != std::string::npos) {
            Q c;
            if (!Q::parse(t.substr(0, st), c)) {
                ok = false;
                return acc;
            }
            term = mul(to_number(c), symbol(t.substr(st + 1)));
        } else if (isalpha((unsigned char)t[0])) {
            term = symbol(t);
        } else {
            Q c;
            if (!Q::parse(t, c)) {
                ok = false;
                return acc;
            }
            term = to_number(c);
        }
        acc = add(acc, term);
        pos = nx + 1;
        if (nx == s.size())
            break;
    }
    return acc;
}

static std::string run_case(const std::string &line)
{
    std::vector<std::string> t = verif::split_ws(line);
    if (t.size() < 3 || (t[0] != "R" && t[0] != "Y"))
        return "BADCASE";
    bool symbolic = (t[0] == "Y");
    unsigned max_deriv = (unsigned)std::stoul(t[1]);
    size_t bar = t.size();
    for (size_t i = 0; i < t.size(); i++)
        if (t[i] == "|")
            bar = i;
    map_basic_basic subst;
    for (size_t i = bar + 1; i < t.size(); i++) {
        size_t eq = t[i].find('=');
        Q v;
        if (eq == std::string::npos || !Q::parse(t[i].substr(eq + 1), v))
            return "BADCASE";
        subst[symbol(t[i].substr(0, eq))] = to_number(v);
    }
    bool ok = true;
    RCP<const Basic> around = parse_point(t[2], ok);
    vec_basic grid;
    for (size_t i = 3; i < bar; i++)
        grid.push_back(parse_point(t[i], ok));
    if (!ok)
        return "BADCASE";
    // numeric values of the points (after substitution), for the oracle
    std::vector<Q> xs(grid.size());
    Q a;
    bool numeric_pts = true;
    {
        bool isq;
        show(symbolic ? around->subs(subst) : around, a, isq);
        numeric_pts = numeric_pts && isq;
        for (size_t i = 0; i < grid.size(); i++) {
            show(symbolic ? grid[i]->subs(subst) : grid[i], xs[i], isq);
            numeric_pts = numeric_pts && isq;
        }
    }
    vec_basic w;
    try {
        w = generate_fdiff_weights_vector(grid, max_deriv, around);
    } catch (...) {
        return verif::exn_name();
    }
    std::ostringstream o, oracle;
    std::vector<Q> wq(w.size());
    bool allq = true;
    o << "W:";
    for (size_t i = 0; i < w.size(); i++) {
        bool isq;
        RCP<const Basic> wi = w[i];
        if (symbolic && !wi.is_null()) {
            try {
                wi = wi->subs(subst);
            } catch (...) {
                return "SUBS-" + verif::exn_name();
            }
        }
        o << (i ? "," : "") << show(wi, wq[i], isq);
        allq = allq && isq;
    }
    // ---- property oracle: exact on the monomials x^d, d < n, for every order k <= max_deriv
    size_t n = grid.size();
    std::set<Q> seen(xs.begin(), xs.end());
    bool distinct = seen.size() == n;
    unsigned long long want = (unsigned long long)n * ((unsigned long long)max_deriv + 1ULL);
    if (n >= 1 && numeric_pts && distinct && want < 4294967296ULL) {
        if (w.size() != want) {
            oracle << " " << w.size() << " weights returned instead of " << want;
        } else if (!allq) {
            oracle << " a weight is not a rational number although the grid points are distinct";
        } else {
            bool bad = false;
            for (unsigned k = 0; k <= max_deriv && !bad; k++) {
                for (size_t d = 0; d < n && !bad; d++) {
                    // lhs = sum_j w[j + k n] x_j^d
                    Q lhs(0);
                    for (size_t j = 0; j < n; j++) {
                        Q p(1);
                        for (size_t e = 0; e < d; e++)
                            p = p * xs[j];
                        lhs = lhs + wq[j + (size_t)k * n] * p;
                    }
                    // rhs = d (d-1) ... (d-k+1) a^(d-k)
                    Q rhs(0);
                    if (k <= d) {
                        rhs = Q(1);
                        for (unsigned e = 0; e < k; e++)
                            rhs = rhs * Q((long)(d - e));
                        for (size_t e = 0; e < d - k; e++)
                            rhs = rhs * a;
                    }
                    if (!(lhs == rhs)) {
                        oracle << " order " << k << " weights applied to x^" << d << " give "
                               << lhs.str() << " instead of " << rhs.str();
                        bad = true;
                    }
                }
            }
        }
    }
    std::string s = o.str();
    if (!oracle.str().empty())
        s += "\t#ORACLE:" + oracle.str();
    return s;
}

int main()
{
    std::string line;
    while (std::getline(std::cin, line)) {
        std::string r = verif::run_forked([&]() { return run_case(line); }, 60);
        std::cout << r << "\n";
    }
    return 0;
}
