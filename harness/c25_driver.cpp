// C25 driver: runs a program of CSRMatrix operations (one per line, same syntax and same
// canonical output fields as the extracted model, ocaml/c25_main.ml) on the library.
// Each line runs in a forked child that streams its fields, so a crash keeps the fields
// printed before it ("...;CRASH:<sig>").  Independently of the model the driver keeps a
// dense mirror of every register (own Gaussian-integer arithmetic on integer_class) and
// appends "\t#ORACLE: <op>:<class> ..." when a result is not canonical, has the wrong
// dimensions, or disagrees with the dense computation (entry-wise from the raw arrays and
// through CSRMatrix::get).
#include <numeric>
#include <map>
#include <set>
#include <unordered_map>
#include <unordered_set>
#include <algorithm>
#include <memory>
#include <atomic>
#include <tuple>
#include <stdexcept>
#include <gmp.h>
#include <symengine/symengine_exception.h>
#include "common.h"
#define private public
#define protected public
#include <symengine/matrix.h>
#undef private
#undef protected
#include <symengine/integer.h>
#include <symengine/complex.h>
#include <symengine/add.h>
#include <symengine/mul.h>
#include <symengine/symbol.h>
#include <symengine/symengine_exception.h>
using namespace SymEngine;

// ------------------------------------------------------------------ elements
struct GI {
    integer_class re, im;
    GI() : re(0), im(0) {}
    GI(const integer_class &a, const integer_class &b) : re(a), im(b) {}
};
static GI operator+(const GI &a, const GI &b)
{
    return GI(a.re + b.re, a.im + b.im);
}
static GI operator-(const GI &a, const GI &b)
{
    return GI(a.re - b.re, a.im - b.im);
}
static GI operator*(const GI &a, const GI &b)
{
    return GI(a.re * b.re - a.im * b.im, a.re * b.im + a.im * b.re);
}
static bool operator==(const GI &a, const GI &b)
{
    return a.re == b.re && a.im == b.im;
}
static GI gconj(const GI &a)
{
    return GI(a.re, -a.im);
}
static bool gzero(const GI &a)
{
    return a.re == 0 && a.im == 0;
}

static GI parse_gi(const std::string &s)
{
    size_t k = s.find('_');
    if (k == std::string::npos)
        return GI(integer_class(s), integer_class(0));
    return GI(integer_class(s.substr(0, k)), integer_class(s.substr(k + 1)));
}
static RCP<const Basic> to_basic(const GI &g)
{
    if (g.im == 0)
        return integer(g.re);
    return Complex::from_two_nums(*integer(g.re), *integer(g.im));
}
static RCP<const Basic> parse_elt(const std::string &s)
{
    return to_basic(parse_gi(s));
}
// returns false when the element is not a Gaussian integer
static bool from_basic(const RCP<const Basic> &b, GI &g)
{
    if (b.is_null())
        return false;
    if (is_a<Integer>(*b)) {
        g = GI(down_cast<const Integer &>(*b).as_integer_class(), integer_class(0));
        return true;
    }
    if (is_a<Complex>(*b)) {
        const Complex &c = down_cast<const Complex &>(*b);
        RCP<const Number> re = c.real_part(), im = c.imaginary_part();
        if (is_a<Integer>(*re) && is_a<Integer>(*im)) {
            g = GI(down_cast<const Integer &>(*re).as_integer_class(),
                   down_cast<const Integer &>(*im).as_integer_class());
            return true;
        }
    }
    return false;
}
static std::string show_gi(const GI &g)
{
    std::ostringstream o;
    o << g.re;
    if (g.im != 0)
        o << "_" << g.im;
    return o.str();
}
static std::string show_elt(const RCP<const Basic> &b)
{
    GI g;
    if (from_basic(b, g))
        return show_gi(g);
    if (b.is_null())
        return "null";
    return "?" + b->__str__();
}
static std::string show_mat(const CSRMatrix &m)
{
    std::ostringstream o;
    o << "M:" << m.row_ << "x" << m.col_ << "|";
    for (size_t i = 0; i < m.p_.size(); i++)
        o << (i ? "," : "") << m.p_[i];
    o << "|";
    for (size_t i = 0; i < m.j_.size(); i++)
        o << (i ? "," : "") << m.j_[i];
    o << "|";
    for (size_t i = 0; i < m.x_.size(); i++)
        o << (i ? "," : "") << show_elt(m.x_[i]);
    return o.str();
}

// ------------------------------------------------------------------ the dense mirror
struct Mirror {
    bool wf = false;    // p_ well formed, entries Gaussian integers: the dense meaning d is known
    bool canon = false; // and rows strictly increasing, columns < c
    unsigned r = 0, c = 0;
    std::vector<GI> d; // r*c entries; duplicates summed
    const GI &at(unsigned i, unsigned j) const
    {
        return d[(size_t)i * c + j];
    }
    GI &at(unsigned i, unsigned j)
    {
        return d[(size_t)i * c + j];
    }
};

// independent reading of the raw arrays
static bool arrays_wf(const CSRMatrix &m)
{
    if (m.p_.size() != (size_t)m.row_ + 1 || m.p_[0] != 0)
        return false;
    for (unsigned i = 0; i < m.row_; i++)
        if (m.p_[i] > m.p_[i + 1])
            return false;
    if (m.p_[m.row_] != m.j_.size() || m.j_.size() != m.x_.size())
        return false;
    for (size_t k = 0; k < m.j_.size(); k++) {
        GI g;
        if (m.j_[k] >= m.col_ || !from_basic(m.x_[k], g))
            return false;
    }
    return true;
}
static bool arrays_canon(const CSRMatrix &m)
{
    if (!arrays_wf(m))
        return false;
    for (unsigned i = 0; i < m.row_; i++)
        for (unsigned k = m.p_[i]; k + 1 < m.p_[i + 1]; k++)
            if (m.j_[k] >= m.j_[k + 1])
                return false;
    return true;
}
// the format alone (no column bound, any element type): what is_canonical() has to decide
static bool format_canonical(const CSRMatrix &m)
{
    if (m.p_.size() != (size_t)m.row_ + 1 || m.p_[0] != 0)
        return false;
    for (unsigned i = 0; i < m.row_; i++)
        if (m.p_[i] > m.p_[i + 1])
            return false;
    if (m.p_[m.row_] != m.j_.size() || m.j_.size() != m.x_.size())
        return false;
    for (unsigned i = 0; i < m.row_; i++)
        for (unsigned k = m.p_[i]; k + 1 < m.p_[i + 1]; k++)
            if (m.j_[k] >= m.j_[k + 1])
                return false;
    return true;
}
static bool arrays_sorted(const CSRMatrix &m)
{
    for (unsigned i = 0; i < m.row_; i++)
        for (unsigned k = m.p_[i]; k + 1 < m.p_[i + 1]; k++)
            if (m.j_[k] > m.j_[k + 1])
                return false;
    return true;
}
static Mirror mirror_of(const CSRMatrix &m)
{
    Mirror mi;
    mi.r = m.row_;
    mi.c = m.col_;
    mi.wf = arrays_wf(m);
    mi.canon = mi.wf && arrays_canon(m);
    if (mi.wf) {
        mi.d.assign((size_t)mi.r * mi.c, GI());
        for (unsigned i = 0; i < m.row_; i++)
            for (unsigned k = m.p_[i]; k < m.p_[i + 1]; k++) {
                GI g;
                from_basic(m.x_[k], g);
                mi.at(i, m.j_[k]) = mi.at(i, m.j_[k]) + g;
            }
    }
    return mi;
}
static bool has_stored_zero(const CSRMatrix &m)
{
    for (auto &e : m.x_) {
        GI g;
        if (from_basic(e, g) && gzero(g))
            return true;
    }
    return false;
}

// ------------------------------------------------------------------ streaming fork runner
static int out_fd = -1;
static bool first_field = true;
static void emit(const std::string &s)
{
    std::string t = (first_field ? "" : ";") + s;
    first_field = false;
    size_t off = 0;
    while (off < t.size()) {
        ssize_t w = write(out_fd, t.data() + off, t.size() - off);
        if (w <= 0)
            break;
        off += (size_t)w;
    }
}
static void emit_raw(const std::string &t)
{
    size_t off = 0;
    while (off < t.size()) {
        ssize_t w = write(out_fd, t.data() + off, t.size() - off);
        if (w <= 0)
            break;
        off += (size_t)w;
    }
}

static std::ostringstream oracle;

// compare the library's result R with the expected dense matrix `e`
// want_canon: the property demands canonical format for this result
static void check(const std::string &op, const CSRMatrix &R, const Mirror &e, bool want_canon)
{
    if (R.row_ != e.r || R.col_ != e.c) {
        oracle << " " << op << ":dims result is " << R.row_ << "x" << R.col_ << ", expected " << e.r << "x"
               << e.c << ";";
        return;
    }
    if (!arrays_wf(R)) {
        oracle << " " << op << ":canon result arrays are not well formed (sizes / row pointers / column range);";
        return;
    }
    if (want_canon && !arrays_canon(R)) {
        oracle << " " << op << ":canon result has unsorted or duplicate column indices;";
    }
    if (want_canon && !R.is_canonical()) {
        oracle << " " << op << ":canon is_canonical() is false;";
    }
    Mirror got = mirror_of(R);
    for (unsigned i = 0; i < e.r; i++)
        for (unsigned j = 0; j < e.c; j++) {
            if (!(got.at(i, j) == e.at(i, j))) {
                oracle << " " << op << ":value entry (" << i << "," << j << ") is " << show_gi(got.at(i, j))
                       << ", dense computation gives " << show_gi(e.at(i, j)) << ";";
                return;
            }
        }
    if (want_canon) {
        for (unsigned i = 0; i < e.r; i++)
            for (unsigned j = 0; j < e.c; j++) {
                GI g;
                RCP<const Basic> v = R.get(i, j);
                if (!from_basic(v, g) || !(g == e.at(i, j))) {
                    oracle << " " << op << ":get get(" << i << "," << j << ") returns " << show_elt(v)
                           << ", dense computation gives " << show_gi(e.at(i, j)) << ";";
                    return;
                }
            }
    }
}

struct Reg {
    CSRMatrix m;
    Mirror mi;
};

static void run_program(const std::string &line)
{
    std::vector<std::string> t = verif::split_ws(line);
    std::map<std::string, Reg> regs;
    size_t pos = 0;
    auto next = [&]() -> std::string {
        if (pos >= t.size())
            throw std::out_of_range("tokens");
        return t[pos++];
    };
    auto nextu = [&]() -> unsigned { return (unsigned)std::stoul(next()); };
    auto reg = [&](const std::string &r) -> Reg & {
        auto it = regs.find(r);
        if (it == regs.end())
            throw std::invalid_argument("NOREG");
        return it->second;
    };
    // store a result and stream its dump; expected mirror e (valid when have_e)
    auto setreg = [&](const std::string &op, const std::string &r, CSRMatrix &&m, bool have_e, const Mirror &e,
                      bool want_canon) {
        Reg &dst = regs[r];
        dst.m = std::move(m);
        emit(show_mat(dst.m));
        dst.mi = mirror_of(dst.m);
        if (have_e) {
            size_t before = oracle.str().size();
            emit_raw("\x02"); // entering the oracle: a crash from here on is the oracle's use of get()/is_canonical()
            check(op, dst.m, e, want_canon);
            emit_raw("\x03");
            if (oracle.str().size() != before) {
                // do not let one failure cascade
                dst.mi.wf = dst.mi.canon = false;
            }
        }
    };
    try {
        while (pos < t.size()) {
            std::string c = next();
            if (c == ";")
                continue;
            if (c == "zero") {
                std::string r = next();
                unsigned a = nextu(), b = nextu();
                Mirror e;
                e.wf = e.canon = true;
                e.r = a;
                e.c = b;
                e.d.assign((size_t)a * b, GI());
                setreg(c, r, CSRMatrix(a, b), true, e, true);
            } else if (c == "raw") {
                std::string r = next();
                unsigned a = nextu(), b = nextu();
                std::vector<unsigned> p, j;
                vec_basic x;
                unsigned np = nextu();
                for (unsigned k = 0; k < np; k++)
                    p.push_back(nextu());
                unsigned nj = nextu();
                for (unsigned k = 0; k < nj; k++)
                    j.push_back(nextu());
                unsigned nx = nextu();
                for (unsigned k = 0; k < nx; k++)
                    x.push_back(parse_elt(next()));
                setreg(c, r, CSRMatrix(a, b, p, j, x), false, Mirror(), false);
            } else if (c == "coo") {
                std::string r = next();
                unsigned a = nextu(), b = nextu(), n = nextu();
                std::vector<unsigned> is, js;
                vec_basic xs;
                std::vector<GI> gs;
                for (unsigned k = 0; k < n; k++)
                    is.push_back(nextu());
                for (unsigned k = 0; k < n; k++)
                    js.push_back(nextu());
                for (unsigned k = 0; k < n; k++) {
                    gs.push_back(parse_gi(next()));
                    xs.push_back(to_basic(gs.back()));
                }
                bool pre = true;
                Mirror e;
                e.r = a;
                e.c = b;
                e.d.assign((size_t)a * b, GI());
                for (unsigned k = 0; k < n; k++) {
                    if (is[k] >= a || js[k] >= b)
                        pre = false;
                    else
                        e.at(is[k], js[k]) = e.at(is[k], js[k]) + gs[k];
                }
                setreg(c, r, CSRMatrix::from_coo(a, b, is, js, xs), pre, e, true);
            } else if (c == "set") {
                std::string r = next();
                unsigned i = nextu(), j = nextu();
                GI g = parse_gi(next());
                Reg &R = reg(r);
                bool pre = R.mi.canon && i < R.mi.r && j < R.mi.c;
                Mirror e = R.mi;
                if (pre)
                    e.at(i, j) = g;
                CSRMatrix m(R.m);
                m.set(i, j, to_basic(g));
                setreg(c, r, std::move(m), pre, e, true);
            } else if (c == "get") {
                std::string r = next();
                unsigned i = nextu(), j = nextu();
                Reg &R = reg(r);
                RCP<const Basic> v = R.m.get(i, j);
                emit("V:" + show_elt(v));
                if (R.mi.canon && i < R.mi.r && j < R.mi.c) {
                    GI g;
                    if (!from_basic(v, g) || !(g == R.mi.at(i, j)))
                        oracle << " get:value get(" << i << "," << j << ") returns " << show_elt(v)
                               << ", the dense mirror has " << show_gi(R.mi.at(i, j)) << ";";
                }
            } else if (c == "canon") {
                Reg &R = reg(next());
                bool b = R.m.is_canonical();
                emit(b ? "B:1" : "B:0");
                // is_canonical must decide: sizes, p_[0] = 0, monotone row pointers, strictly increasing rows
                bool expect = format_canonical(R.m);
                if (expect && !b)
                    oracle << " canon:flag is_canonical() rejects a canonical matrix;";
                if (!expect && b)
                    oracle << " canon:flag is_canonical() accepts arrays that are not in canonical format;";
            } else if (c == "fmt") {
                Reg &R = reg(next());
                bool b = CSRMatrix::csr_has_canonical_format(R.m.p_, R.m.j_, R.m.row_);
                emit(b ? "B:1" : "B:0");
                if (R.mi.wf && b != R.mi.canon)
                    oracle << " fmt:flag csr_has_canonical_format is " << b << " on a matrix whose rows are "
                           << (R.mi.canon ? "" : "not ") << "strictly increasing;";
            } else if (c == "sorted") {
                Reg &R = reg(next());
                bool b = CSRMatrix::csr_has_sorted_indices(R.m.p_, R.m.j_, R.m.row_);
                emit(b ? "B:1" : "B:0");
                if (R.mi.wf && b != arrays_sorted(R.m))
                    oracle << " sorted:flag csr_has_sorted_indices is wrong;";
            } else if (c == "dups") {
                Reg &R = reg(next());
                bool b = CSRMatrix::csr_has_duplicates(R.m.p_, R.m.j_, R.m.row_);
                emit(b ? "B:1" : "B:0");
                if (R.mi.wf && arrays_sorted(R.m) && b == R.mi.canon)
                    oracle << " dups:flag csr_has_duplicates is wrong on sorted rows;";
            } else if (c == "sort") {
                std::string r = next();
                Reg &R = reg(r);
                CSRMatrix m(R.m);
                Mirror e = R.mi;
                CSRMatrix::csr_sort_indices(m.p_, m.j_, m.x_, m.row_);
                bool pre = e.wf;
                setreg(c, r, std::move(m), pre, e, false);
                if (pre && !arrays_sorted(regs[r].m))
                    oracle << " sort:canon rows are not sorted after csr_sort_indices;";
            } else if (c == "sumdup") {
                std::string r = next();
                Reg &R = reg(r);
                CSRMatrix m(R.m);
                Mirror e = R.mi;
                bool pre = e.wf && arrays_sorted(R.m);
                CSRMatrix::csr_sum_duplicates(m.p_, m.j_, m.x_, m.row_);
                setreg(c, r, std::move(m), pre, e, true);
            } else if (c == "tr" || c == "ctr") {
                std::string r = next();
                Reg &A = reg(next());
                Mirror e;
                e.r = A.mi.c;
                e.c = A.mi.r;
                if (A.mi.wf) {
                    e.d.assign((size_t)e.r * e.c, GI());
                    for (unsigned i = 0; i < A.mi.r; i++)
                        for (unsigned j = 0; j < A.mi.c; j++)
                            e.at(j, i) = (c == "ctr") ? gconj(A.mi.at(i, j)) : A.mi.at(i, j);
                }
                CSRMatrix R;
                if (c == "tr")
                    A.m.transpose(R);
                else
                    A.m.conjugate_transpose(R);
                setreg(c, r, std::move(R), A.mi.wf, e, A.mi.canon);
            } else if (c == "conj") {
                std::string r = next();
                Reg &A = reg(next());
                Mirror e = A.mi;
                if (A.mi.wf)
                    for (auto &g : e.d)
                        g = gconj(g);
                CSRMatrix R;
                A.m.conjugate(R);
                setreg(c, r, std::move(R), A.mi.wf, e, A.mi.canon);
            } else if (c == "add" || c == "sub" || c == "mul" || c == "ewm") {
                std::string r = next();
                Reg &A = reg(next());
                Reg &B = reg(next());
                bool pre = A.mi.canon && B.mi.canon && A.mi.r == B.mi.r && A.mi.c == B.mi.c;
                Mirror e = A.mi;
                if (pre)
                    for (size_t k = 0; k < e.d.size(); k++)
                        e.d[k] = (c == "add")   ? A.mi.d[k] + B.mi.d[k]
                                 : (c == "sub") ? A.mi.d[k] - B.mi.d[k]
                                                : A.mi.d[k] * B.mi.d[k];
                CSRMatrix C(A.m.row_, A.m.col_);
                if (c == "add")
                    csr_binop_csr_canonical(A.m, B.m, C, add);
                else if (c == "sub")
                    csr_binop_csr_canonical(A.m, B.m, C, sub);
                else if (c == "mul")
                    csr_binop_csr_canonical(A.m, B.m, C, mul);
                else
                    A.m.elementwise_mul_matrix(B.m, C);
                setreg(c, r, std::move(C), pre, e, true);
            } else if (c == "mm") {
                std::string r = next();
                Reg &A = reg(next());
                Reg &B = reg(next());
                bool pre = A.mi.wf && B.mi.wf && A.mi.c == B.mi.r;
                Mirror e;
                e.r = A.mi.r;
                e.c = B.mi.c;
                if (pre) {
                    e.d.assign((size_t)e.r * e.c, GI());
                    for (unsigned i = 0; i < e.r; i++)
                        for (unsigned k = 0; k < e.c; k++) {
                            GI s;
                            for (unsigned j = 0; j < A.mi.c; j++)
                                s = s + A.mi.at(i, j) * B.mi.at(j, k);
                            e.at(i, k) = s;
                        }
                }
                // the caller protocol of the two passes (see coq/C25/CsrModel.v, matmat)
                CSRMatrix C(A.m.row_, B.m.col_);
                csr_matmat_pass1(A.m, B.m, C);
                C.j_.resize(C.p_[A.m.row_]);
                C.x_.resize(C.p_[A.m.row_], zero);
                csr_matmat_pass2(A.m, B.m, C);
                C.j_.resize(C.p_[A.m.row_]);
                C.x_.resize(C.p_[A.m.row_], zero);
                setreg(c, r, std::move(C), pre, e, true);
            } else if (c == "diag") {
                Reg &A = reg(next());
                unsigned n = std::min(A.m.row_, A.m.col_);
                DenseMatrix D(n, 1);
                csr_diagonal(A.m, D);
                std::string s = "L:";
                for (unsigned i = 0; i < n; i++)
                    s += (i ? "," : "") + show_elt(D.get(i, 0));
                emit(s);
                if (A.mi.canon)
                    for (unsigned i = 0; i < n; i++) {
                        GI g;
                        if (!from_basic(D.get(i, 0), g) || !(g == A.mi.at(i, i))) {
                            oracle << " diag:value diagonal entry " << i << " is " << show_elt(D.get(i, 0))
                                   << ", the dense mirror has " << show_gi(A.mi.at(i, i)) << ";";
                            break;
                        }
                    }
            } else if (c == "srow" || c == "scol") {
                std::string r = next();
                Reg &A = reg(r);
                unsigned n = nextu();
                std::vector<GI> gs;
                vec_basic xs;
                bool anyzero = false;
                for (unsigned k = 0; k < n; k++) {
                    gs.push_back(parse_gi(next()));
                    xs.push_back(to_basic(gs.back()));
                    if (gzero(gs.back()))
                        anyzero = true;
                }
                bool pre = A.mi.wf && n == (c == "srow" ? A.mi.r : A.mi.c) && !anyzero;
                Mirror e = A.mi;
                if (pre)
                    for (unsigned i = 0; i < e.r; i++)
                        for (unsigned j = 0; j < e.c; j++)
                            e.at(i, j) = e.at(i, j) * gs[c == "srow" ? i : j];
                DenseMatrix X(n, 1, xs);
                CSRMatrix m(A.m);
                bool want = A.mi.canon;
                bool threw = false;
                try {
                    if (c == "srow")
                        csr_scale_rows(m, X);
                    else
                        csr_scale_columns(m, X);
                } catch (const SymEngineException &) {
                    threw = true;
                    if (!anyzero)
                        oracle << " " << c << ":throw scaling threw although no factor is zero;";
                    throw;
                }
                (void)threw;
                if (anyzero && A.mi.wf && n == (c == "srow" ? A.mi.r : A.mi.c))
                    oracle << " " << c << ":throw a zero scaling factor was accepted;";
                setreg(c, r, std::move(m), pre, e, want);
            } else if (c == "jac") {
                std::string r = next();
                unsigned nr = nextu(), nc = nextu();
                vec_sym syms;
                for (unsigned k = 0; k < nc; k++)
                    syms.push_back(symbol("x" + std::to_string(k)));
                vec_basic exprs;
                Mirror e;
                e.r = nr;
                e.c = nc;
                e.d.assign((size_t)nr * nc, GI());
                for (unsigned i = 0; i < nr; i++) {
                    RCP<const Basic> ex = integer(7); // a constant term: its derivative vanishes
                    for (unsigned k = 0; k < nc; k++) {
                        GI g = parse_gi(next());
                        e.at(i, k) = g;
                        ex = add(ex, mul(to_basic(g), syms[k]));
                    }
                    exprs.push_back(ex);
                }
                setreg(c, r, CSRMatrix::jacobian(exprs, syms), true, e, true);
            } else if (c == "eq") {
                Reg &A = reg(next());
                Reg &B = reg(next());
                bool b = A.m.eq(B.m);
                emit(b ? "B:1" : "B:0");
                if (A.mi.canon && B.mi.canon && !has_stored_zero(A.m) && !has_stored_zero(B.m)) {
                    bool same = A.mi.r == B.mi.r && A.mi.c == B.mi.c;
                    if (same)
                        for (size_t k = 0; k < A.mi.d.size(); k++)
                            if (!(A.mi.d[k] == B.mi.d[k]))
                                same = false;
                    if (same != b)
                        oracle << " eq:flag eq() is " << b << " although the dense matrices are "
                               << (same ? "equal" : "different") << ";";
                }
            } else if (c == "ni") {
                Reg &A = reg(next());
                std::string what = next();
                CSRMatrix R;
                if (what == "add_matrix")
                    A.m.add_matrix(A.m, R);
                else if (what == "mul_matrix")
                    A.m.mul_matrix(A.m, R);
                else if (what == "add_scalar")
                    A.m.add_scalar(integer(1), R);
                else if (what == "mul_scalar")
                    A.m.mul_scalar(integer(1), R);
                else
                    A.m.submatrix(R, 0, 0, 0, 0);
                emit("?");
            } else if (c == "dump") {
                emit(show_mat(reg(next()).m));
            } else {
                emit("BADTOKEN:" + c);
                break;
            }
        }
    } catch (const std::invalid_argument &e) {
        emit(std::string(e.what()) == "NOREG" ? "NOREG" : "BADLINE");
    } catch (const std::out_of_range &) {
        emit("BADLINE");
    } catch (...) {
        emit(verif::exn_name());
    }
    if (!oracle.str().empty())
        emit_raw("\t#ORACLE:" + oracle.str());
}

static std::string run_forked_stream(const std::string &line, unsigned timeout_s)
{
    int fd[2];
    if (pipe(fd) != 0)
        return "PIPEFAIL";
    fflush(stdout);
    pid_t pid = fork();
    if (pid == 0) {
        close(fd[0]);
        alarm(timeout_s);
        struct rlimit rl;
        rl.rlim_cur = rl.rlim_max = 0;
        setrlimit(RLIMIT_CORE, &rl);
        int devnull = open("/dev/null", O_WRONLY);
        if (devnull >= 0)
            dup2(devnull, 2);
        out_fd = fd[1];
        first_field = true;
        try {
            run_program(line);
        } catch (...) {
            emit("UNCAUGHT");
        }
        close(fd[1]);
        _exit(0);
    }
    close(fd[1]);
    std::string out;
    char buf[65536];
    ssize_t r;
    while ((r = read(fd[0], buf, sizeof buf)) > 0)
        out.append(buf, (size_t)r);
    close(fd[0]);
    int status = 0;
    waitpid(pid, &status, 0);
    // strip the oracle markers; an unmatched \x02 means the child died inside the oracle
    bool in_oracle = false;
    std::string clean;
    for (char ch : out) {
        if (ch == '\x02')
            in_oracle = true;
        else if (ch == '\x03')
            in_oracle = false;
        else
            clean += ch;
    }
    if (WIFSIGNALED(status)) {
        int sig = WTERMSIG(status);
        std::string sep = clean.empty() ? "" : ";";
        std::string what = in_oracle ? "ORACLE" : "";
        if (sig == SIGALRM)
            return clean + sep + what + "HANG";
        return clean + sep + what + "CRASH:" + std::to_string(sig);
    }
    return clean;
}

int main()
{
    std::string line;
    while (std::getline(std::cin, line)) {
        std::cout << run_forked_stream(line, 30) << "\n";
    }
    return 0;
}
