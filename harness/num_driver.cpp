// Number-tower driver (properties C05, C06, C29).
// case line : <op> <num> <num>
//   numbers : I:<dec>  R:<dec>/<dec>  C:<re>,<im>  D:<16 hex>  CD:<hex>,<hex>  INF:<1|-1|0>  NAN
//   ops     : add sub mul div pow rsub rdiv rpow neg   (Number methods)
//             badd bmul                                (Basic-level add(a,b) / mul(a,b))
//             lt le gt ge eq ne                        (logic.cpp relational constructors)
//             pred mkrat mkcplx eqb cmp
// result    : canonical dump of the result (same grammar), T/F/U for relations, EXN:<code>;
//             CRASH:<sig> / HANG come from the fork wrapper.
// After a tab: "#ORACLE:<tag> <tag> ..." when a property oracle fails on the library's own
// outputs (independent of the Coq model):
//   comm          a+b vs b+a, a*b vs b*a (dumps differ)                        [C06]
//   nan-absorbs   an operand is the symbolic NaN, the result is not            [C06]
//   inf-rules     a result involving an Infty contradicts the extended rules   [C06]
//   float-exact   finite float (op) finite number returned an exact number     [C06]
//   value         exact operands: result differs from arithmetic in Q(i)       [C05]
//   norm          exact result not normalised                                  [C05]
//   divzero       x/0 is not zoo (x != 0) / nan (x = 0)                        [C05]
//   order         relation differs from the exact rational order               [C29]
//   dual          Le(a,b) != !Lt(b,a), Ge != Le swapped, Gt != Lt swapped,
//                 Eq not symmetric, Ne != !Eq                                  [C29]
#include <symengine/basic.h>
#include <symengine/integer.h>
#include <symengine/rational.h>
#include <symengine/complex.h>
#include <symengine/real_double.h>
#include <symengine/complex_double.h>
#include <symengine/infinity.h>
#include <symengine/nan.h>
#include <symengine/constants.h>
#include <symengine/add.h>
#include <symengine/mul.h>
#include <symengine/logic.h>
#include <symengine/symengine_exception.h>
#include "common.h"
#include <gmp.h>
#include <cmath>
#include <cstdint>
#include <set>

using namespace SymEngine;

// ------------------------------------------------------------------ small exact rationals (raw GMP)
struct Q {
    mpq_t v;
    Q()
    {
        mpq_init(v);
    }
    Q(const Q &o)
    {
        mpq_init(v);
        mpq_set(v, o.v);
    }
    Q &operator=(const Q &o)
    {
        mpq_set(v, o.v);
        return *this;
    }
    ~Q()
    {
        mpq_clear(v);
    }
    static Q from_str(const std::string &s)
    {
        Q r;
        mpq_set_str(r.v, s.c_str(), 10);
        return r;
    }
    bool is_zero() const
    {
        return mpq_sgn(v) == 0;
    }
};
static Q operator+(const Q &a, const Q &b)
{
    Q r;
    mpq_add(r.v, a.v, b.v);
    return r;
}
static Q operator-(const Q &a, const Q &b)
{
    Q r;
    mpq_sub(r.v, a.v, b.v);
    return r;
}
static Q operator*(const Q &a, const Q &b)
{
    Q r;
    mpq_mul(r.v, a.v, b.v);
    return r;
}
static Q operator/(const Q &a, const Q &b)
{
    Q r;
    mpq_div(r.v, a.v, b.v);
    return r;
}
static bool operator==(const Q &a, const Q &b)
{
    return mpq_equal(a.v, b.v) != 0;
}
struct QI {
    Q re, im;
    bool is_zero() const
    {
        return re.is_zero() && im.is_zero();
    }
};
static QI qi_mul(const QI &a, const QI &b)
{
    QI r;
    r.re = a.re * b.re - a.im * b.im;
    r.im = a.re * b.im + a.im * b.re;
    return r;
}
static QI qi_div(const QI &a, const QI &b)
{
    Q m = b.re * b.re + b.im * b.im;
    QI r;
    r.re = (a.re * b.re + a.im * b.im) / m;
    r.im = (a.im * b.re - a.re * b.im) / m;
    return r;
}

// ------------------------------------------------------------------ parsing / dumping
static std::string mpz_str(mpz_srcptr z)
{
    char *c = mpz_get_str(NULL, 10, z);
    std::string s(c);
    void (*freefunc)(void *, size_t);
    mp_get_memory_functions(NULL, NULL, &freefunc);
    freefunc(c, strlen(c) + 1);
    return s;
}
static std::string q_str(mpq_srcptr q, bool always_den)
{
    std::string s = mpz_str(mpq_numref(q));
    if (always_den || mpz_cmp_ui(mpq_denref(q), 1) != 0)
        s += "/" + mpz_str(mpq_denref(q));
    return s;
}
static rational_class parse_q(const std::string &s)
{
    size_t i = s.find('/');
    integer_class n, d(1);
    if (i == std::string::npos) {
        mpz_set_str(n.get_mpz_t(), s.c_str(), 10);
    } else {
        mpz_set_str(n.get_mpz_t(), s.substr(0, i).c_str(), 10);
        mpz_set_str(d.get_mpz_t(), s.substr(i + 1).c_str(), 10);
    }
    // build without canonicalising: the case gives the representation
    rational_class q;
    mpz_set(mpq_numref(q.get_mpq_t()), n.get_mpz_t());
    mpz_set(mpq_denref(q.get_mpq_t()), d.get_mpz_t());
    return q;
}
static double dbl_of_hex(const std::string &h)
{
    uint64_t u = std::stoull(h, nullptr, 16);
    double d;
    memcpy(&d, &u, 8);
    return d;
}
static std::string hex_of_dbl(double d)
{
    uint64_t u;
    if (std::isnan(d))
        u = 0x7ff8000000000000ULL;
    else
        memcpy(&u, &d, 8);
    char buf[32];
    snprintf(buf, sizeof buf, "%016llx", (unsigned long long)u);
    return buf;
}

static RCP<const Number> parse_num(const std::string &s)
{
    if (s == "NAN")
        return Nan;
    size_t i = s.find(':');
    std::string tag = s.substr(0, i), body = s.substr(i + 1);
    if (tag == "I") {
        integer_class n;
        mpz_set_str(n.get_mpz_t(), body.c_str(), 10);
        return integer(std::move(n));
    }
    if (tag == "R")
        return make_rcp<const Rational>(parse_q(body));
    if (tag == "C") {
        size_t j = body.find(',');
        return make_rcp<const Complex>(parse_q(body.substr(0, j)), parse_q(body.substr(j + 1)));
    }
    if (tag == "D")
        return real_double(dbl_of_hex(body));
    if (tag == "CD") {
        size_t j = body.find(',');
        return complex_double(std::complex<double>(dbl_of_hex(body.substr(0, j)), dbl_of_hex(body.substr(j + 1))));
    }
    if (tag == "INF")
        return make_rcp<const Infty>(integer(std::stoi(body)));
    throw std::runtime_error("bad number " + s);
}

static std::string dump(const Basic &b)
{
    if (is_a<Integer>(b))
        return "I:" + mpz_str(down_cast<const Integer &>(b).as_integer_class().get_mpz_t());
    if (is_a<Rational>(b))
        return "R:" + q_str(down_cast<const Rational &>(b).as_rational_class().get_mpq_t(), true);
    if (is_a<Complex>(b)) {
        const Complex &c = down_cast<const Complex &>(b);
        return "C:" + q_str(c.real_.get_mpq_t(), false) + "," + q_str(c.imaginary_.get_mpq_t(), false);
    }
    if (is_a<RealDouble>(b))
        return "D:" + hex_of_dbl(down_cast<const RealDouble &>(b).i);
    if (is_a<ComplexDouble>(b)) {
        std::complex<double> c = down_cast<const ComplexDouble &>(b).i;
        return "CD:" + hex_of_dbl(c.real()) + "," + hex_of_dbl(c.imag());
    }
    if (is_a<Infty>(b)) {
        RCP<const Number> d = down_cast<const Infty &>(b).get_direction();
        if (is_a<Integer>(*d))
            return "INF:" + mpz_str(down_cast<const Integer &>(*d).as_integer_class().get_mpz_t());
        return "INF:[" + dump(*d) + "]";
    }
    if (is_a<NaN>(b))
        return "NAN";
    if (is_a<BooleanAtom>(b))
        return down_cast<const BooleanAtom &>(b).get_val() ? "T" : "F";
    if (is_a_Relational(b))
        return "U";
    return "NOTNUM:" + b.__str__();
}

// ------------------------------------------------------------------ classification helpers
enum Kind { KI, KR, KC, KD, KCD, KINF, KNAN, KOTHER };
static Kind kind_of(const Basic &b)
{
    if (is_a<Integer>(b))
        return KI;
    if (is_a<Rational>(b))
        return KR;
    if (is_a<Complex>(b))
        return KC;
    if (is_a<RealDouble>(b))
        return KD;
    if (is_a<ComplexDouble>(b))
        return KCD;
    if (is_a<Infty>(b))
        return KINF;
    if (is_a<NaN>(b))
        return KNAN;
    return KOTHER;
}
static bool is_exact_kind(Kind k)
{
    return k == KI || k == KR || k == KC;
}
static bool to_qi(const Basic &b, QI &out)
{
    Kind k = kind_of(b);
    if (k == KI) {
        mpq_set_z(out.re.v, down_cast<const Integer &>(b).as_integer_class().get_mpz_t());
        return true;
    }
    if (k == KR) {
        mpq_set(out.re.v, down_cast<const Rational &>(b).as_rational_class().get_mpq_t());
        mpq_canonicalize(out.re.v);
        return true;
    }
    if (k == KC) {
        const Complex &c = down_cast<const Complex &>(b);
        mpq_set(out.re.v, c.real_.get_mpq_t());
        mpq_set(out.im.v, c.imaginary_.get_mpq_t());
        mpq_canonicalize(out.re.v);
        mpq_canonicalize(out.im.v);
        return true;
    }
    return false;
}
// representation invariant of an exact result
static bool normalised(const Basic &b)
{
    auto canon = [](mpq_srcptr q) {
        if (mpz_sgn(mpq_denref(q)) <= 0)
            return false;
        mpz_t g;
        mpz_init(g);
        mpz_gcd(g, mpq_numref(q), mpq_denref(q));
        bool ok = mpz_cmp_ui(g, 1) == 0;
        mpz_clear(g);
        return ok;
    };
    Kind k = kind_of(b);
    if (k == KR) {
        mpq_srcptr q = down_cast<const Rational &>(b).as_rational_class().get_mpq_t();
        return canon(q) && mpz_cmp_ui(mpq_denref(q), 1) != 0;
    }
    if (k == KC) {
        const Complex &c = down_cast<const Complex &>(b);
        return canon(c.real_.get_mpq_t()) && canon(c.imaginary_.get_mpq_t())
               && mpz_sgn(mpq_numref(c.imaginary_.get_mpq_t())) != 0;
    }
    return true;
}
static bool finite_double_kind(const Basic &b)
{
    if (is_a<RealDouble>(b))
        return std::isfinite(down_cast<const RealDouble &>(b).i);
    if (is_a<ComplexDouble>(b)) {
        std::complex<double> c = down_cast<const ComplexDouble &>(b).i;
        return std::isfinite(c.real()) && std::isfinite(c.imag());
    }
    return false;
}
// finite number: exact, or finite float
static bool finite_number(const Basic &b)
{
    return is_exact_kind(kind_of(b)) || finite_double_kind(b);
}
// extended real value: cls -1 = -oo, 0 = finite (in q), 1 = +oo; false when not a real number
static bool ext_real(const Basic &b, int &cls, Q &q)
{
    Kind k = kind_of(b);
    cls = 0;
    if (k == KI) {
        mpq_set_z(q.v, down_cast<const Integer &>(b).as_integer_class().get_mpz_t());
        return true;
    }
    if (k == KR) {
        mpq_set(q.v, down_cast<const Rational &>(b).as_rational_class().get_mpq_t());
        mpq_canonicalize(q.v);
        return true;
    }
    if (k == KD) {
        double d = down_cast<const RealDouble &>(b).i;
        if (std::isnan(d))
            return false;
        if (std::isinf(d)) {
            cls = d > 0 ? 1 : -1;
            return true;
        }
        mpq_set_d(q.v, d);
        return true;
    }
    if (k == KINF) {
        const Infty &i = down_cast<const Infty &>(b);
        if (i.is_positive_infinity()) {
            cls = 1;
            return true;
        }
        if (i.is_negative_infinity()) {
            cls = -1;
            return true;
        }
        return false;
    }
    return false;
}
static int ext_cmp(int c1, const Q &q1, int c2, const Q &q2)
{
    if (c1 != c2)
        return c1 < c2 ? -1 : 1;
    if (c1 != 0)
        return 0;
    int c = mpq_cmp(q1.v, q2.v);
    return c < 0 ? -1 : (c > 0 ? 1 : 0);
}
// sign of a finite real number (exact or float): -1, 0, 1; 2 = not a finite real
static int real_sign(const Basic &b)
{
    int cls;
    Q q;
    if (!ext_real(b, cls, q) || cls != 0)
        return 2;
    return mpq_sgn(q.v);
}
static int inf_dir(const Basic &b)
{
    const Infty &i = down_cast<const Infty &>(b);
    return i.is_positive_infinity() ? 1 : (i.is_negative_infinity() ? -1 : 0);
}

// ------------------------------------------------------------------ the operations
struct Out {
    std::string text;          // canonical result or EXN:<n>
    RCP<const Basic> val;      // null when an exception was thrown
};

static Out apply(const std::string &op, const RCP<const Number> &a, const RCP<const Number> &b)
{
    Out o;
    try {
        if (op == "add")
            o.val = a->add(*b);
        else if (op == "sub")
            o.val = a->sub(*b);
        else if (op == "mul")
            o.val = a->mul(*b);
        else if (op == "div")
            o.val = a->div(*b);
        else if (op == "pow")
            o.val = a->pow(*b);
        else if (op == "rsub")
            o.val = a->rsub(*b);
        else if (op == "rdiv")
            o.val = a->rdiv(*b);
        else if (op == "rpow")
            o.val = a->rpow(*b);
        else if (op == "neg")
            o.val = a->mul(*minus_one);
        else if (op == "badd")
            o.val = add(a, b);
        else if (op == "bmul")
            o.val = mul(a, b);
        else if (op == "lt")
            o.val = Lt(a, b);
        else if (op == "le")
            o.val = Le(a, b);
        else if (op == "gt")
            o.val = Gt(a, b);
        else if (op == "ge")
            o.val = Ge(a, b);
        else if (op == "eq")
            o.val = Eq(a, b);
        else if (op == "ne")
            o.val = Ne(a, b);
        else if (op == "mkrat")
            o.val = Rational::from_two_ints(down_cast<const Integer &>(*a), down_cast<const Integer &>(*b));
        else if (op == "mkcplx")
            o.val = Complex::from_two_nums(*a, *b);
        else {
            o.text = "BADOP";
            return o;
        }
        o.text = dump(*o.val);
    } catch (...) {
        o.text = verif::exn_name();
    }
    return o;
}

// expected result of an operation with at least one Infty operand, when the extended-number
// rules fix it; returns "" when they do not
static std::string inf_expected(const std::string &op, const Basic &a, const Basic &b)
{
    Kind ka = kind_of(a), kb = kind_of(b);
    if (ka == KNAN || kb == KNAN)
        return "";
    auto inf = [](int d) { return "INF:" + std::to_string(d); };
    if (op == "add" || op == "badd" || op == "sub") {
        int flip = (op == "sub") ? -1 : 1;
        if (ka == KINF && kb == KINF) {
            int d1 = inf_dir(a), d2 = flip * inf_dir(b);
            if (d1 == 0 || d2 == 0 || d1 != d2)
                return "NAN";
            return inf(d1);
        }
        if (ka == KINF && finite_number(b))
            return inf(inf_dir(a));
        if (kb == KINF && finite_number(a))
            return inf(flip * inf_dir(b));
        return "";
    }
    if (op == "mul" || op == "bmul") {
        if (ka == KINF && kb == KINF)
            return inf(inf_dir(a) * inf_dir(b));
        const Basic &i = (ka == KINF) ? a : b;
        const Basic &x = (ka == KINF) ? b : a;
        if (!finite_number(x))
            return "";
        int s = real_sign(x);
        if (s == 2) {
            // complex factor: zoo stays zoo; a directed infinity has no representable product
            // (outside the property's statement: no expectation)
            QI q;
            bool zero = false;
            if (to_qi(x, q))
                zero = q.is_zero();
            else if (is_a<ComplexDouble>(x))
                zero = down_cast<const ComplexDouble &>(x).i == 0.0;
            if (zero)
                return "NAN";
            return inf_dir(i) == 0 ? inf(0) : "";
        }
        if (s == 0)
            return "NAN";
        return inf(inf_dir(i) * s);
    }
    if (op == "div") {
        if (ka == KINF && kb == KINF)
            return "NAN";
        if (ka == KINF && finite_number(b)) {
            int s = real_sign(b);
            if (s == 2)
                return inf_dir(a) == 0 ? inf(0) : "";
            if (s == 0)
                return inf(0);
            return inf(inf_dir(a) * s);
        }
        return "";
    }
    return "";
}

static std::string run_case(const std::string &line)
{
    std::vector<std::string> t = verif::split_ws(line);
    if (t.size() != 3)
        return "BADLINE";
    const std::string &op = t[0];
    RCP<const Number> a, b;
    try {
        a = parse_num(t[1]);
        b = parse_num(t[2]);
    } catch (...) {
        return "BADCASE";
    }
    std::set<std::string> tags;

    if (op == "pred") {
        std::string s = "P:";
        s += a->is_zero() ? "1" : "0";
        s += a->is_one() ? "1" : "0";
        s += a->is_minus_one() ? "1" : "0";
        s += a->is_positive() ? "1" : "0";
        s += a->is_negative() ? "1" : "0";
        s += a->is_complex() ? "1" : "0";
        s += a->is_exact() ? "1" : "0";
        s += normalised(*a) ? "1" : "0";
        return s;
    }
    if (op == "eqb")
        return a->__eq__(*b) ? "T" : "F";
    if (op == "cmp") {
        try {
            return "Z:" + std::to_string(a->compare(*b));
        } catch (...) {
            return verif::exn_name();
        }
    }

    Out r = apply(op, a, b);
    Kind ka = kind_of(*a), kb = kind_of(*b);
    bool threw = r.val.is_null();
    Kind kr = threw ? KOTHER : kind_of(*r.val);
    bool arith = (op == "add" || op == "sub" || op == "mul" || op == "div" || op == "pow" || op == "badd"
                  || op == "bmul");

    // ---------------- C06
    if (op == "add" || op == "mul" || op == "badd" || op == "bmul") {
        Out r2 = apply(op, b, a);
        if (r2.text != r.text)
            tags.insert("comm");
    }
    if (arith && (ka == KNAN || kb == KNAN) && r.text != "NAN")
        tags.insert("nan-absorbs");
    if (arith && (ka == KINF || kb == KINF)) {
        std::string e = inf_expected(op, *a, *b);
        if (!e.empty() && e != r.text)
            tags.insert("inf-rules");
    }
    if (arith && (finite_double_kind(*a) || finite_double_kind(*b)) && finite_number(*a) && finite_number(*b)
        && !threw && is_exact_kind(kr))
        tags.insert("float-exact");

    // ---------------- C05
    if (is_exact_kind(ka) && is_exact_kind(kb) && (arith || op == "neg")) {
        QI x, y, e;
        to_qi(*a, x);
        to_qi(*b, y);
        bool have = true, expect_zoo = false, expect_nan = false;
        const std::string &o2 = op;
        if (o2 == "add" || o2 == "badd") {
            e.re = x.re + y.re;
            e.im = x.im + y.im;
        } else if (o2 == "sub") {
            e.re = x.re - y.re;
            e.im = x.im - y.im;
        } else if (o2 == "mul" || o2 == "bmul") {
            e = qi_mul(x, y);
        } else if (o2 == "neg") {
            Q zero;
            e.re = zero - x.re;
            e.im = zero - x.im;
        } else if (o2 == "div") {
            if (y.is_zero()) {
                if (x.is_zero())
                    expect_nan = true;
                else
                    expect_zoo = true;
            } else
                e = qi_div(x, y);
        } else if (o2 == "pow") {
            have = false;
            if (kb == KI) {
                const integer_class &ez = down_cast<const Integer &>(*b).as_integer_class();
                if (mpz_cmpabs_ui(ez.get_mpz_t(), 100000) <= 0) {
                    long n = mpz_get_si(ez.get_mpz_t());
                    have = true;
                    if (n < 0 && x.is_zero())
                        expect_zoo = true;
                    else {
                        QI base = x;
                        if (n < 0) {
                            QI one;
                            mpq_set_ui(one.re.v, 1, 1);
                            base = qi_div(one, x);
                            n = -n;
                        }
                        QI acc;
                        mpq_set_ui(acc.re.v, 1, 1);
                        for (long i = 0; i < n; i++)
                            acc = qi_mul(acc, base);
                        e = acc;
                    }
                }
            }
        }
        if (have) {
            if (expect_zoo || expect_nan) {
                if (r.text != (expect_nan ? "NAN" : "INF:0"))
                    tags.insert("divzero");
            } else {
                QI got;
                if (threw || !to_qi(*r.val, got) || !(got.re == e.re) || !(got.im == e.im))
                    tags.insert("value");
                else if (!normalised(*r.val))
                    tags.insert("norm");
            }
        }
    }
    if (op == "mkrat") {
        Q n, d;
        mpq_set_z(n.v, down_cast<const Integer &>(*a).as_integer_class().get_mpz_t());
        mpq_set_z(d.v, down_cast<const Integer &>(*b).as_integer_class().get_mpz_t());
        if (d.is_zero()) {
            if (r.text != (n.is_zero() ? "NAN" : "INF:0"))
                tags.insert("divzero");
        } else {
            QI got;
            Q e = n / d;
            if (threw || !to_qi(*r.val, got) || !(got.re == e) || !got.im.is_zero())
                tags.insert("value");
            else if (!normalised(*r.val))
                tags.insert("norm");
        }
    }

    // ---------------- C29
    if (op == "lt" || op == "le" || op == "gt" || op == "ge" || op == "eq" || op == "ne") {
        int c1, c2;
        Q q1, q2;
        bool both_real = ext_real(*a, c1, q1) && ext_real(*b, c2, q2);
        if (op != "eq" && op != "ne" && both_real) {
            int c = ext_cmp(c1, q1, c2, q2);
            bool expect = op == "lt"   ? c < 0
                          : op == "le" ? c <= 0
                          : op == "gt" ? c > 0
                          : op == "ge" ? c >= 0
                          : op == "eq" ? c == 0
                                       : c != 0;
            if (r.text != (expect ? "T" : "F"))
                tags.insert("order");
        }
        auto neg = [](const std::string &s) { return s == "T" ? std::string("F") : (s == "F" ? std::string("T") : s); };
        std::string other;
        if (op == "le")
            other = neg(apply("lt", b, a).text);
        else if (op == "ge")
            other = apply("le", b, a).text;
        else if (op == "gt")
            other = apply("lt", b, a).text;
        else if (op == "lt")
            other = neg(apply("le", b, a).text);
        else if (op == "eq")
            other = apply("eq", b, a).text;
        else
            other = neg(apply("eq", a, b).text);
        // the dualities are stated for real numbers; Eq/Ne for all numbers
        if (other != r.text && (both_real || op == "eq" || op == "ne"))
            tags.insert("dual");
    }

    std::string s = r.text;
    if (!tags.empty()) {
        s += "\t#ORACLE:";
        bool first = true;
        for (const auto &tg : tags) {
            if (!first)
                s += " ";
            first = false;
            s += tg;
        }
    }
    return s;
}

int main()
{
    // cases run in forked children, BATCH lines per child; when a child of a batch crashes or
    // hangs, its lines are re-run one per child so that the crash is attributed to its case
    const size_t BATCH = 32;
    std::vector<std::string> lines;
    std::string line;
    while (std::getline(std::cin, line))
        lines.push_back(line);
    for (size_t i = 0; i < lines.size(); i += BATCH) {
        size_t n = std::min(BATCH, lines.size() - i);
        std::string r = verif::run_forked(
            [&]() {
                std::string out;
                for (size_t k = 0; k < n; k++)
                    out += run_case(lines[i + k]) + "\n";
                return out;
            },
            60);
        size_t cnt = 0;
        for (char c : r)
            if (c == '\n')
                cnt++;
        if (cnt == n && r.size() > 0 && r[r.size() - 1] == '\n') {
            std::cout << r;
        } else {
            for (size_t k = 0; k < n; k++) {
                std::string one = verif::run_forked([&]() { return run_case(lines[i + k]); }, 20);
                std::cout << one << "\n";
            }
        }
    }
    return 0;
}
