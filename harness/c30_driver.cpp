// C30 driver: equation solving (symengine/solve.cpp) on the library, canonical result lines
// for the comparison with the extracted model (ocaml/c30_main.ml), and the property oracle
// evaluated directly on the library's output ("\t#ORACLE:<class>:<detail>" appended).
//
// case lines (rationals are  p  or  p/q ; coefficient lists low degree first)
//   P <dom> c0 c1 ... cn        solve_poly(sum c_i x^i, x, dom)
//   S <dom> c0 c1 ... cn        solve(sum c_i x^i, x, dom)
//   H c0 c1 ... cn              solve_poly_heuristics({c0..cn}) called directly (n may be -1)
//   E <sexp> <sexp> ...         evaluate model templates with the library's arithmetic:
//                               (q n d) I (neg a) (add a b) (sub a b) (mul a b) (div a b)
//                               (sqrt a) (cbrt a) (add4 a b c d) (mul3 a b c)
//   R <dom> <recipe of f in (s x)> ;; n0 n1 .. ;; d0 d1 ..
//                               solve(f, x, dom); N/D = the combined numerator/denominator of f
//                               computed exactly by the generator (oracle input)
//   L n a11 .. a1n b1 a21 ...   linsolve(DenseMatrix n x (n+1), syms)
//   M n a11 .. a1n b1 ...       linsolve({sum_j a_ij x_j - b_i}, syms)      (expressions)
//   N n a11 .. a1n b1 ...       linsolve({Eq(sum_j a_ij x_j, b_i)}, syms)   (equalities)
//   T <recipe of f in (s x)>    solve(f, x) for a linear-argument trigonometric equation
//   dom:  U | R | C:a:b (closed interval) | O:a:b (open interval)
//
// result line (first field):
//   FIN <n> <dump>|<dump>...   FiniteSet, members' dumps sorted;  EMPTY;  DOMAIN;  COND;  OTHER
//   X:<v0>,<v1>,...            linsolve;   EXN:<k>;   CRASH:<sig> / HANG appended by run_forked
//   R lines additionally print  \tAND:<num coeffs>;<den coeffs>;<f is Mul><num is Mul><den is Mul>
#include <symengine/basic.h>
#include <symengine/add.h>
#include <symengine/mul.h>
#include <symengine/pow.h>
#include <symengine/functions.h>
#include <symengine/logic.h>
#include <symengine/sets.h>
#include <symengine/complex.h>
#include <symengine/complex_double.h>
#include <symengine/real_double.h>
#include <symengine/infinity.h>
#include <symengine/nan.h>
#include <symengine/constants.h>
#include <symengine/visitor.h>
#include <symengine/solve.h>
#include <symengine/matrix.h>
#include <symengine/eval_double.h>
#include <symengine/polys/uexprpoly.h>
#include <symengine/polys/basic_conversions.h>
#include <symengine/symengine_exception.h>
#include "common.h"
#include "dump.h"
#include "recipe.h"
#include <gmp.h>
#include <complex>
#include <algorithm>
#include <set>
using namespace SymEngine;
typedef std::complex<double> cd;
// relative residual accepted by the numeric (testing) part of the oracle:
//   |p(z)| <= NUM_TOL * sum_i |c_i| |z|^i.
// Nested radicals evaluated by eval_complex_double lose up to ~1e-9 (observed on
// x^4 - 3/4 x^3 + 2 x^2 - 3/4 x - 1/4: ratio 1.2e-9); wrong formulas give residuals of order 1e-1.
static const double NUM_TOL = 1e-7;

// ---------------------------------------------------------------- exact rationals (raw GMP)
struct Q {
    mpq_t v;
    Q() { mpq_init(v); }
    Q(const Q &o) { mpq_init(v); mpq_set(v, o.v); }
    Q &operator=(const Q &o) { mpq_set(v, o.v); return *this; }
    ~Q() { mpq_clear(v); }
    explicit Q(long n) { mpq_init(v); mpq_set_si(v, n, 1); }
    static bool parse(const std::string &s, Q &out)
    {
        if (s.empty()) return false;
        if (mpq_set_str(out.v, s[0] == '+' ? s.c_str() + 1 : s.c_str(), 10) != 0) return false;
        if (mpz_sgn(mpq_denref(out.v)) == 0) return false;
        mpq_canonicalize(out.v);
        return true;
    }
    std::string str() const
    {
        char *c = mpq_get_str(nullptr, 10, v);
        std::string s(c);
        void (*freefunc)(void *, size_t);
        mp_get_memory_functions(nullptr, nullptr, &freefunc);
        freefunc(c, s.size() + 1);
        return s;
    }
    bool zero() const { return mpq_sgn(v) == 0; }
    double dbl() const { return mpq_get_d(v); }
};
static Q operator+(const Q &a, const Q &b) { Q r; mpq_add(r.v, a.v, b.v); return r; }
static Q operator-(const Q &a, const Q &b) { Q r; mpq_sub(r.v, a.v, b.v); return r; }
static Q operator*(const Q &a, const Q &b) { Q r; mpq_mul(r.v, a.v, b.v); return r; }
static Q operator/(const Q &a, const Q &b) { Q r; mpq_div(r.v, a.v, b.v); return r; }
static bool operator==(const Q &a, const Q &b) { return mpq_equal(a.v, b.v) != 0; }

static RCP<const Number> to_number(const Q &q)
{
    integer_class n, d;
    mpz_set(get_mpz_t(n), mpq_numref(q.v));
    mpz_set(get_mpz_t(d), mpq_denref(q.v));
    return Rational::from_two_ints(*integer(std::move(n)), *integer(std::move(d)));
}
static bool to_Q(const Basic &b, Q &q)
{
    if (is_a<Integer>(b)) {
        mpq_set_z(q.v, get_mpz_t(down_cast<const Integer &>(b).as_integer_class()));
        return true;
    }
    if (is_a<Rational>(b)) {
        const rational_class &r = down_cast<const Rational &>(b).as_rational_class();
        mpz_set(mpq_numref(q.v), get_mpz_t(get_num(r)));
        mpz_set(mpq_denref(q.v), get_mpz_t(get_den(r)));
        mpq_canonicalize(q.v);
        return true;
    }
    return false;
}

// ---------------------------------------------------------------- exact polynomials over Q
typedef std::vector<Q> Poly; // low degree first, no trailing zeros (zero polynomial = empty)
static void trim(Poly &p)
{
    while (!p.empty() && p.back().zero()) p.pop_back();
}
static int deg(const Poly &p) { return (int)p.size() - 1; }
static Q peval(const Poly &p, const Q &x)
{
    Q r(0);
    for (int i = deg(p); i >= 0; i--) r = r * x + p[i];
    return r;
}
static cd pevald(const Poly &p, cd z, double *scale = nullptr)
{
    cd r = 0;
    double s = 0, az = std::abs(z);
    for (int i = deg(p); i >= 0; i--) {
        r = r * z + p[i].dbl();
        s = s * az + std::fabs(p[i].dbl());
    }
    if (scale) *scale = s;
    return r;
}
static Poly pderiv(const Poly &p)
{
    Poly r;
    for (int i = 1; i <= deg(p); i++) r.push_back(p[i] * Q(i));
    trim(r);
    return r;
}
static void pdivmod(const Poly &a, const Poly &b, Poly &q, Poly &r)
{
    r = a;
    q.assign(a.size() >= b.size() ? a.size() - b.size() + 1 : 0, Q(0));
    while (deg(r) >= deg(b) && !r.empty()) {
        int k = deg(r) - deg(b);
        Q c = r.back() / b.back();
        q[k] = c;
        for (int i = 0; i <= deg(b); i++) r[i + k] = r[i + k] - c * b[i];
        trim(r);
    }
    trim(q);
}
static Poly pgcd(Poly a, Poly b)
{
    while (!b.empty()) {
        Poly q, r;
        pdivmod(a, b, q, r);
        a = b;
        b = r;
    }
    return a;
}
// number of distinct complex roots
static int distinct_roots(const Poly &p)
{
    if (deg(p) <= 0) return 0;
    return deg(p) - deg(pgcd(p, pderiv(p)));
}
// the part of n whose roots are not roots of d
static Poly strip_common(Poly n, const Poly &d)
{
    while (true) {
        Poly g = pgcd(n, d);
        if (deg(g) <= 0) return n;
        Poly q, r;
        pdivmod(n, g, q, r);
        n = q;
    }
}

static bool parse_coeffs(const std::vector<std::string> &t, size_t from, size_t to, Poly &out)
{
    out.clear();
    for (size_t i = from; i < to; i++) {
        Q q;
        if (!Q::parse(t[i], q)) return false;
        out.push_back(q);
    }
    return true;
}

static RCP<const Basic> poly_expr(const Poly &c, const RCP<const Basic> &x)
{
    RCP<const Basic> f = zero;
    for (size_t i = 0; i < c.size(); i++)
        f = add(f, mul(to_number(c[i]), pow(x, integer((long)i))));
    return f;
}

// ---------------------------------------------------------------- domains
struct Dom {
    char kind = 'U'; // U R C O
    Q a, b;
    RCP<const Set> set;
};
static bool parse_dom(const std::string &s, Dom &d)
{
    d.kind = s.empty() ? '?' : s[0];
    if (s == "U") { d.set = universalset(); return true; }
    if (s == "R") { d.set = reals(); return true; }
    if ((d.kind == 'C' || d.kind == 'O') && s.size() > 2 && s[1] == ':') {
        size_t p = s.find(':', 2);
        if (p == std::string::npos) return false;
        if (!Q::parse(s.substr(2, p - 2), d.a) || !Q::parse(s.substr(p + 1), d.b)) return false;
        bool open = d.kind == 'O';
        d.set = interval(to_number(d.a), to_number(d.b), open, open);
        return true;
    }
    return false;
}
// 1 inside, 0 outside, -1 too close to call
static int dom_member(const Dom &d, cd z)
{
    if (d.kind == 'U') return 1;
    double tol = 1e-7 * (1 + std::abs(z));
    if (std::fabs(z.imag()) > tol) return 0;
    if (d.kind == 'R') return 1;
    double a = d.a.dbl(), b = d.b.dbl(), x = z.real();
    if (std::fabs(x - a) <= tol || std::fabs(x - b) <= tol) return -1;
    return (a < x && x < b) ? 1 : 0;
}
static int dom_member_exact(const Dom &d, const Q &q)
{
    if (d.kind == 'U' || d.kind == 'R') return 1;
    int ca = mpq_cmp(q.v, d.a.v), cb = mpq_cmp(q.v, d.b.v);
    if (d.kind == 'C') return (ca >= 0 && cb <= 0) ? 1 : 0;
    return (ca > 0 && cb < 0) ? 1 : 0;
}

// ---------------------------------------------------------------- canonical result
static std::string canon_set(const RCP<const Set> &s, const RCP<const Set> &dom)
{
    if (is_a<FiniteSet>(*s)) {
        std::vector<std::string> ds;
        for (auto &e : down_cast<const FiniteSet &>(*s).get_container()) ds.push_back(verif::dump(e));
        std::sort(ds.begin(), ds.end());
        ds.erase(std::unique(ds.begin(), ds.end()), ds.end());
        std::string r = "FIN " + std::to_string(ds.size()) + " ";
        for (size_t i = 0; i < ds.size(); i++) r += (i ? "|" : "") + ds[i];
        return r;
    }
    if (is_a<EmptySet>(*s)) return "EMPTY";
    if (eq(*s, *dom)) return "DOMAIN";
    if (is_a<ConditionSet>(*s)) return "COND";
    return "OTHER";
}

// numeric members of a result set: FiniteSet, EmptySet, Union, and Intersection of one FiniteSet
// with plain domains.  ok=false when the shape is not understood (no verdict then).
struct Member {
    cd z;
    bool exact;
    Q q;
    RCP<const Basic> e;
};
static bool num_member_of(const Basic &s, const Member &m, int &verdict)
{
    // membership of a numeric value in a plain set; verdict 1/0/-1
    if (is_a<UniversalSet>(s) || is_a<Complexes>(s)) { verdict = 1; return true; }
    double tol = 1e-7 * (1 + std::abs(m.z));
    if (is_a<Reals>(s)) { verdict = std::fabs(m.z.imag()) <= tol ? 1 : 0; return true; }
    if (is_a<Interval>(s)) {
        const Interval &iv = down_cast<const Interval &>(s);
        if (std::fabs(m.z.imag()) > tol) { verdict = 0; return true; }
        Q a, b;
        if (!to_Q(*iv.get_start(), a) || !to_Q(*iv.get_end(), b)) return false;
        if (m.exact) {
            int ca = mpq_cmp(m.q.v, a.v), cb = mpq_cmp(m.q.v, b.v);
            bool in = (iv.get_left_open() ? ca > 0 : ca >= 0) && (iv.get_right_open() ? cb < 0 : cb <= 0);
            verdict = in ? 1 : 0;
            return true;
        }
        double x = m.z.real();
        if (std::fabs(x - a.dbl()) <= tol || std::fabs(x - b.dbl()) <= tol) { verdict = -1; return true; }
        verdict = (a.dbl() < x && x < b.dbl()) ? 1 : 0;
        return true;
    }
    return false;
}
static bool collect(const Basic &s, std::vector<Member> &out, bool &ambiguous)
{
    if (is_a<EmptySet>(s)) return true;
    if (is_a<FiniteSet>(s)) {
        for (auto &e : down_cast<const FiniteSet &>(s).get_container()) {
            Member m;
            m.e = e;
            m.exact = to_Q(*e, m.q);
            try {
                m.z = eval_complex_double(*e);
            } catch (...) {
                return false;
            }
            if (!(std::isfinite(m.z.real()) && std::isfinite(m.z.imag()))) return false;
            out.push_back(m);
        }
        return true;
    }
    if (is_a<Union>(s)) {
        for (auto &a : down_cast<const Union &>(s).get_container())
            if (!collect(*a, out, ambiguous)) return false;
        return true;
    }
    if (is_a<Intersection>(s)) {
        const set_set &c = down_cast<const Intersection &>(s).get_container();
        RCP<const Set> fs;
        for (auto &a : c)
            if (is_a<FiniteSet>(*a)) {
                if (!fs.is_null()) return false;
                fs = a;
            }
        if (fs.is_null()) return false;
        std::vector<Member> ms;
        if (!collect(*fs, ms, ambiguous)) return false;
        for (auto &m : ms) {
            bool in = true;
            for (auto &a : c) {
                if (a.get() == fs.get()) continue;
                int v;
                if (!num_member_of(*a, m, v)) return false;
                if (v < 0) ambiguous = true;
                if (v == 0) in = false;
            }
            if (in) out.push_back(m);
        }
        return true;
    }
    return false;
}

static std::vector<cd> cluster(const std::vector<cd> &v)
{
    std::vector<cd> r;
    for (auto &z : v) {
        bool dup = false;
        for (auto &w : r)
            if (std::abs(z - w) <= 1e-6 * (1 + std::abs(z))) dup = true;
        if (!dup) r.push_back(z);
    }
    return r;
}

// ---------------------------------------------------------------- oracle for polynomial solving
// p: the polynomial (trimmed); res: the library's result for domain d; uni: the library's result
// for the universal domain (same call).  Returns "" or "<class>:<detail>".
static std::string oracle_poly(const Poly &p, const Dom &d, const RCP<const Set> &res,
                               const RCP<const Basic> &f, const RCP<const Symbol> &x, int &exact_checked)
{
    int m = deg(p);
    if (m < 0) return eq(*res, *d.set) ? "" : "zero-polynomial:result is not the domain";
    if (m == 0) return is_a<EmptySet>(*res) ? "" : "nonzero-constant:result is not EmptySet";
    if (m > 4) return "";
    std::vector<Member> ms;
    bool amb = false;
    if (!collect(*res, ms, amb)) return d.kind == 'U' ? "shape:universal-domain result is not a FiniteSet" : "";
    // soundness: every member is a root (exactly when rational or when expand() decides) and in the domain
    std::vector<cd> vals;
    for (auto &mem : ms) {
        if (mem.exact) {
            exact_checked++;
            if (!peval(p, mem.q).zero()) return "nonroot-exact:" + mem.q.str() + " is returned but is not a root";
            if (dom_member_exact(d, mem.q) == 0) return "outside-domain:" + mem.q.str();
        } else {
            bool decided = false;
            try {
                map_basic_basic sb;
                sb[x] = mem.e;
                RCP<const Basic> v = expand(f->subs(sb));
                if (is_a_Number(*v)) {
                    decided = true;
                    exact_checked++;
                    if (!down_cast<const Number &>(*v).is_zero())
                        return "nonroot-exact:p(" + mem.e->__str__() + ") expands to " + v->__str__();
                }
            } catch (...) {
            }
            if (!decided) {
                double sc;
                cd r = pevald(p, mem.z, &sc);
                if (!(std::abs(r) <= NUM_TOL * (sc + 1e-300)))
                    return "nonroot-numeric:residual " + std::to_string(std::abs(r)) + " at " + mem.e->__str__().substr(0, 120);
            }
            int dm = dom_member(d, mem.z);
            if (dm < 0) amb = true;
            if (dm == 0) return "outside-domain:" + mem.e->__str__().substr(0, 120);
        }
        vals.push_back(mem.z);
    }
    // completeness: as many distinct members as the polynomial has distinct roots in the domain
    std::vector<cd> got = cluster(vals);
    int expected;
    if (d.kind == 'U') {
        expected = distinct_roots(p);
    } else {
        // the roots come from the universal-domain solution (checked by its own P U case)
        RCP<const Set> uni = solve_poly(f, x);
        std::vector<Member> us;
        bool amb2 = false;
        if (!collect(*uni, us, amb2)) return "";
        std::vector<cd> uv;
        for (auto &u : us) uv.push_back(u.z);
        uv = cluster(uv);
        if ((int)uv.size() != distinct_roots(p)) return ""; // reported by the universal case
        expected = 0;
        for (auto &z : uv) {
            int dm = dom_member(d, z);
            if (dm < 0) amb = true;
            if (dm == 1) expected++;
        }
    }
    if (amb) return "";
    if ((int)got.size() < expected)
        return "missing-root:" + std::to_string(got.size()) + " distinct members, " + std::to_string(expected) + " distinct roots in the domain";
    if ((int)got.size() > expected)
        return "extra-member:" + std::to_string(got.size()) + " distinct members, " + std::to_string(expected) + " distinct roots in the domain";
    return "";
}

// ---------------------------------------------------------------- model templates
static RCP<const Basic> eval_rx(const verif::Sexp &e)
{
    if (e.is_atom) {
        if (e.atom == "I") return I;
        throw std::runtime_error("rx: atom " + e.atom);
    }
    const std::string &op = e.kids.at(0).atom;
    auto arg = [&](size_t i) { return eval_rx(e.kids.at(i)); };
    if (op == "q")
        return Rational::from_two_ints(*integer(integer_class(e.kids.at(1).atom)),
                                       *integer(integer_class(e.kids.at(2).atom)));
    if (op == "neg") return neg(arg(1));
    if (op == "add") return add(arg(1), arg(2));
    if (op == "sub") return sub(arg(1), arg(2));
    if (op == "mul") return mul(arg(1), arg(2));
    if (op == "div") return div(arg(1), arg(2));
    if (op == "sqrt") return sqrt(arg(1));
    if (op == "cbrt") return pow(arg(1), div(one, integer(3)));
    if (op == "add4") return add({arg(1), arg(2), arg(3), arg(4)});
    if (op == "mul3") return mul({arg(1), arg(2), arg(3)});
    throw std::runtime_error("rx: op " + op);
}

static std::string coeff_list(const RCP<const Basic> &e, const RCP<const Basic> &x)
{
    // coefficients of e as a polynomial in x when they are all rational, else "?"
    try {
        auto p = from_basic<UExprPoly>(e, x);
        int dg = p->get_degree();
        std::string s;
        for (int i = 0; i <= dg; i++) {
            Q q;
            if (!to_Q(*p->get_coeff(i).get_basic(), q)) return "?";
            s += (i ? "," : "") + q.str();
        }
        return s;
    } catch (...) {
        return "?";
    }
}

// ---------------------------------------------------------------- the cases
static std::string run_case(const std::string &line)
{
    std::vector<std::string> t = verif::split_ws(line);
    if (t.empty()) return "BADCASE";
    const std::string &k = t[0];
    RCP<const Symbol> x = symbol("x");
    try {
        if (k == "P" || k == "S") {
            Dom d;
            Poly c;
            if (t.size() < 2 || !parse_dom(t[1], d) || !parse_coeffs(t, 2, t.size(), c)) return "BADCASE";
            RCP<const Basic> f = poly_expr(c, x);
            RCP<const Set> res = (k == "P") ? solve_poly(f, x, d.set) : solve(f, x, d.set);
            std::string out = canon_set(res, d.set);
            trim(c);
            int ex = 0;
            std::string o = oracle_poly(c, d, res, f, x, ex);
            out += "\tEX:" + std::to_string(ex);
            if (!o.empty()) out += "\t#ORACLE:" + o;
            return out;
        }
        if (k == "H") {
            Poly c;
            if (!parse_coeffs(t, 1, t.size(), c)) return "BADCASE";
            vec_basic v;
            for (auto &q : c) v.push_back(to_number(q));
            RCP<const Set> res = solve_poly_heuristics(v);
            return canon_set(res, universalset());
        }
        if (k == "E") {
            // the rest of the line is a sequence of s-expressions
            size_t pos = line.find('E') + 1;
            std::vector<std::string> ds;
            while (true) {
                while (pos < line.size() && isspace((unsigned char)line[pos])) pos++;
                if (pos >= line.size()) break;
                verif::Sexp e = verif::parse_sexp(line, pos);
                ds.push_back(verif::dump(eval_rx(e)));
            }
            std::sort(ds.begin(), ds.end());
            ds.erase(std::unique(ds.begin(), ds.end()), ds.end());
            std::string r = "FIN " + std::to_string(ds.size()) + " ";
            for (size_t i = 0; i < ds.size(); i++) r += (i ? "|" : "") + ds[i];
            return r;
        }
        if (k == "R") {
            Dom d;
            if (t.size() < 3 || !parse_dom(t[1], d)) return "BADCASE";
            size_t p0 = line.find(t[1]) + t[1].size();
            size_t p1 = line.find(";;", p0);
            size_t p2 = p1 == std::string::npos ? p1 : line.find(";;", p1 + 2);
            if (p2 == std::string::npos) return "BADCASE";
            std::string rec = line.substr(p0, p1 - p0);
            std::vector<std::string> nt = verif::split_ws(line.substr(p1 + 2, p2 - p1 - 2));
            std::vector<std::string> dt = verif::split_ws(line.substr(p2 + 2));
            Poly N, D;
            if (!parse_coeffs(nt, 0, nt.size(), N) || !parse_coeffs(dt, 0, dt.size(), D)) return "BADCASE";
            trim(N);
            trim(D);
            RCP<const Basic> f = verif::eval_recipe(rec);
            RCP<const Basic> num, den;
            as_numer_denom(f, outArg(num), outArg(den));
            std::string andinfo = "AND:" + coeff_list(num, x) + ";" + coeff_list(den, x) + ";"
                                  + (is_a<Mul>(*f) ? "1" : "0") + (is_a<Mul>(*num) ? "1" : "0")
                                  + (is_a<Mul>(*den) ? "1" : "0");
            RCP<const Set> res = solve(f, x, d.set);
            std::string out = canon_set(res, d.set) + "\t" + andinfo;
            // oracle: zeros of f = roots of N that are not roots of D
            std::string o;
            std::vector<Member> ms;
            bool amb = false;
            if (!N.empty() && !D.empty() && deg(N) >= 0 && collect(*res, ms, amb)) {
                Poly G = strip_common(N, D);
                std::vector<cd> vals;
                for (auto &m : ms) {
                    double sn, sd;
                    cd rn = pevald(N, m.z, &sn), rd = pevald(D, m.z, &sd);
                    bool pole = m.exact ? peval(D, m.q).zero() : std::abs(rd) <= NUM_TOL * (sd + 1e-300);
                    bool root = m.exact ? peval(N, m.q).zero() : std::abs(rn) <= NUM_TOL * (sn + 1e-300);
                    if (pole) {
                        // is the pole, as a tree, a member of the library's own solve(den)?  Then
                        // the set difference was not taken at all; otherwise the denominator's
                        // root is written in another closed form and set_complement missed it
                        bool same_tree = false;
                        try {
                            RCP<const Set> ds = solve(den, x);
                            if (is_a<FiniteSet>(*ds))
                                for (auto &e : down_cast<const FiniteSet &>(*ds).get_container())
                                    if (eq(*e, *m.e)) same_tree = true;
                        } catch (...) {
                        }
                        o = std::string(same_tree ? "pole-returned:" : "pole-other-closed-form:") + m.e->__str__().substr(0, 80)
                            + " is a zero of the denominator";
                        break;
                    }
                    if (!root) { o = "nonroot:" + m.e->__str__().substr(0, 80); break; }
                    int dm = m.exact ? dom_member_exact(d, m.q) : dom_member(d, m.z);
                    if (dm < 0) amb = true;
                    if (dm == 0) { o = "outside-domain:" + m.e->__str__().substr(0, 80); break; }
                    vals.push_back(m.z);
                }
                if (o.empty() && d.kind == 'U' && !amb) {
                    int expected = distinct_roots(G);
                    int got = (int)cluster(vals).size();
                    if (got < expected) o = "missing-root:" + std::to_string(got) + " distinct members, " + std::to_string(expected) + " expected";
                    if (got > expected) o = "extra-member:" + std::to_string(got) + " distinct members, " + std::to_string(expected) + " expected";
                }
            }
            if (!o.empty()) out += "\t#ORACLE:" + o;
            return out;
        }
        if (k == "L" || k == "M" || k == "N") {
            if (t.size() < 2) return "BADCASE";
            unsigned n = (unsigned)std::stoul(t[1]);
            Poly a;
            if (!parse_coeffs(t, 2, t.size(), a) || a.size() != (size_t)n * (n + 1)) return "BADCASE";
            vec_sym syms;
            for (unsigned i = 0; i < n; i++) syms.push_back(symbol("x" + std::to_string(i)));
            vec_basic sol;
            if (k == "L") {
                vec_basic ent;
                for (auto &q : a) ent.push_back(to_number(q));
                DenseMatrix sys(n, n + 1, ent);
                sol = linsolve(sys, syms);
            } else {
                vec_basic eqs;
                for (unsigned i = 0; i < n; i++) {
                    RCP<const Basic> lhs = zero;
                    for (unsigned j = 0; j < n; j++)
                        lhs = add(lhs, mul(to_number(a[i * (n + 1) + j]), syms[j]));
                    RCP<const Basic> rhs = to_number(a[i * (n + 1) + n]);
                    if (k == "M")
                        eqs.push_back(sub(lhs, rhs));
                    else
                        eqs.push_back(Eq(lhs, rhs));
                }
                sol = linsolve(eqs, syms);
            }
            std::string out = "X:";
            std::vector<Q> xs;
            bool allq = true;
            for (size_t i = 0; i < sol.size(); i++) {
                Q q;
                if (to_Q(*sol[i], q)) {
                    out += (i ? "," : "") + q.str();
                    xs.push_back(q);
                } else {
                    out += (i ? "," : "") + std::string("?") + sol[i]->__str__();
                    allq = false;
                }
            }
            // oracle: exact Gauss-Jordan elimination with full row search over Q
            std::vector<std::vector<Q>> m(n, std::vector<Q>(n + 1));
            for (unsigned i = 0; i < n; i++)
                for (unsigned j = 0; j <= n; j++) m[i][j] = a[i * (n + 1) + j];
            bool singular = false;
            for (unsigned c = 0; c < n && !singular; c++) {
                unsigned p = c;
                while (p < n && m[p][c].zero()) p++;
                if (p == n) { singular = true; break; }
                std::swap(m[p], m[c]);
                Q piv = m[c][c];
                for (unsigned j = 0; j <= n; j++) m[c][j] = m[c][j] / piv;
                for (unsigned r = 0; r < n; r++)
                    if (r != c && !m[r][c].zero()) {
                        Q fct = m[r][c];
                        for (unsigned j = 0; j <= n; j++) m[r][j] = m[r][j] - fct * m[c][j];
                    }
            }
            std::string o;
            if (!singular) {
                if (!allq || xs.size() != n)
                    o = "linsolve-wrong:not a rational vector of length n";
                else
                    for (unsigned i = 0; i < n; i++)
                        if (!(xs[i] == m[i][n])) { o = "linsolve-wrong:x" + std::to_string(i) + " = " + xs[i].str() + ", exact " + m[i][n].str(); break; }
            }
            out += singular ? "\tSING" : "\tREG";
            if (!o.empty()) out += "\t#ORACLE:" + o;
            return out;
        }
        if (k == "T") {
            std::string rec = line.substr(line.find('T') + 1);
            RCP<const Basic> f = verif::eval_recipe(rec);
            RCP<const Set> res = solve(f, x);
            // members for n = -2..2 of every ImageSet / FiniteSet in the result must be zeros of f
            std::string out;
            std::vector<RCP<const Basic>> cand;
            std::function<bool(const Basic &)> walk = [&](const Basic &s) -> bool {
                if (is_a<EmptySet>(s)) return true;
                if (is_a<FiniteSet>(s)) {
                    for (auto &e : down_cast<const FiniteSet &>(s).get_container()) cand.push_back(e);
                    return true;
                }
                if (is_a<Union>(s)) {
                    for (auto &a : down_cast<const Union &>(s).get_container())
                        if (!walk(*a)) return false;
                    return true;
                }
                if (is_a<ImageSet>(s)) {
                    const ImageSet &im = down_cast<const ImageSet &>(s);
                    for (int n = -2; n <= 2; n++) {
                        map_basic_basic sb;
                        sb[im.get_symbol()] = integer(n);
                        cand.push_back(im.get_expr()->subs(sb));
                    }
                    return true;
                }
                return false;
            };
            bool understood = walk(*res);
            out = is_a<EmptySet>(*res) ? "EMPTY" : is_a<ConditionSet>(*res) ? "COND" : understood ? "TRIGSET " + std::to_string(cand.size()) : "OTHER";
            std::string o;
            std::vector<cd> zs;
            if (understood) {
                for (auto &c : cand) {
                    map_basic_basic sb;
                    sb[x] = c;
                    cd z = eval_complex_double(*c);
                    cd v = eval_complex_double(*f->subs(sb));
                    if (!(std::abs(v) <= 1e-8 * (1 + std::abs(z)))) {
                        o = "trig-nonroot:f(" + c->__str__().substr(0, 80) + ") = " + std::to_string(std::abs(v));
                        break;
                    }
                    zs.push_back(z);
                }
                // completeness on the real line: every sign change / zero of f on a grid over
                // [-7, 7] must be close to a member of the solution set (n = -2..2 covers it)
                if (o.empty()) {
                    auto fv = [&](double u) {
                        map_basic_basic sb;
                        sb[x] = real_double(u);
                        cd v = eval_complex_double(*f->subs(sb));
                        return v;
                    };
                    const int G = 2800;
                    double prev = 0;
                    bool have = false;
                    for (int i = 0; i <= G && o.empty(); i++) {
                        double u = -6.0 + 12.0 * i / G;
                        cd v = fv(u);
                        if (std::fabs(v.imag()) > 1e-9 || !std::isfinite(v.real())) { have = false; continue; }
                        double cur = v.real();
                        if (have && ((prev < 0 && cur > 0) || (prev > 0 && cur < 0)) && std::fabs(prev) < 0.5 && std::fabs(cur) < 0.5) {
                            double lo = u - 12.0 / G, hi = u, flo = prev;
                            for (int it = 0; it < 60; it++) {
                                double mid = 0.5 * (lo + hi);
                                double fm = fv(mid).real();
                                if ((flo < 0) == (fm < 0)) { lo = mid; flo = fm; } else hi = mid;
                            }
                            double root = 0.5 * (lo + hi);
                            if (std::fabs(fv(root).real()) < 1e-9) {
                                bool found = false;
                                for (auto &z : zs)
                                    if (std::abs(z - cd(root, 0)) < 1e-6) found = true;
                                if (!found) o = "trig-missing-root:x = " + std::to_string(root) + " is a zero of f but not in the returned set";
                            }
                        }
                        prev = cur;
                        have = true;
                    }
                }
            }
            if (!o.empty()) out += "\t#ORACLE:" + o;
            return out;
        }
        return "BADCASE";
    } catch (...) {
        return verif::exn_name();
    }
}

int main()
{
    std::string line;
    while (std::getline(std::cin, line)) {
        if (line.empty()) {
            std::cout << "\n";
            continue;
        }
        std::string r = verif::run_forked([&]() { return run_case(line); }, 60);
        for (auto &ch : r)
            if (ch == '\n') ch = ' ';
        std::cout << r << "\n";
        std::cout.flush();
    }
    return 0;
}
