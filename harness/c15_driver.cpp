// C15 driver: C code printers.
// Input line: recipes separated by " ;; " (harness/recipe.h grammar plus (uneval a)).
// Output line: one record per recipe, separated by " ;; ":
//   <dump> \t <c99 double> \t <c99 float> \t <c89 double> \t <c89 float> \t <c99 half> \t <refs>
// where a printer result is  S:<hex of the emitted text>  or  EXN:<class>, and <refs> are the bit
// patterns (hex) of the expression's value at the sample points below, computed by the library
// itself (LambdaRealDoubleVisitor, else subs + eval_double), or "-" when it cannot be evaluated.
// A record whose recipe fails is "RECIPE-EXN".  "\t#ORACLE:<what>" is appended to a record when
// the public entry points disagree with the printer classes (ccode vs C99CodePrinter) or are
// missing from the library (c89code / c99code, declared in printers.h).
// The whole line runs in one forked child; after a crash every recipe is rerun on its own.
#include <symengine/basic.h>
#include <symengine/add.h>
#include <symengine/mul.h>
#include <symengine/pow.h>
#include <symengine/functions.h>
#include <symengine/logic.h>
#include <symengine/sets.h>
#include <symengine/complex.h>
#include <symengine/complex_double.h>
#include <symengine/real_double.h>
#include <symengine/infinity.h>
#include <symengine/nan.h>
#include <symengine/constants.h>
#include <symengine/visitor.h>
#include <symengine/eval_double.h>
#include <symengine/lambda_double.h>
#include <symengine/printers.h>
#include <symengine/printers/codegen.h>
#include <symengine/symengine_exception.h>
#include "common.h"
#include "dump.h"
#include "recipe.h"
using namespace SymEngine;

// the two functions are declared in printers.h; weak references so that a library without their
// definitions still links and the absence is observable
namespace SymEngine
{
std::string c89code(const Basic &x) __attribute__((weak));
std::string c99code(const Basic &x) __attribute__((weak));
} // namespace SymEngine

static const char *SYMS[] = {"x", "y", "z", "w", "ab"};
static const double POINTS[3][5] = {
    {0.71, 1.37, 2.13, 0.43, 3.19},
    {1.93, 0.61, 0.29, 2.71, 1.13},
    {-0.83, 2.41, -1.57, 0.93, -2.19},
};

static std::vector<std::string> split_sep(const std::string &s, const std::string &sep)
{
    std::vector<std::string> v;
    size_t st = 0;
    while (true) {
        size_t p = s.find(sep, st);
        if (p == std::string::npos) {
            v.push_back(s.substr(st));
            break;
        }
        v.push_back(s.substr(st, p - st));
        st = p + sep.size();
    }
    return v;
}

static RCP<const Basic> eval_x(const verif::Sexp &e)
{
    if (!e.is_atom && !e.kids.empty() && e.kids[0].is_atom) {
        const std::string &op = e.kids[0].atom;
        auto arg = [&](size_t i) { return eval_x(e.kids.at(i)); };
        if (op == "uneval") return unevaluated_expr(arg(1));
        if (op == "add") return add(arg(1), arg(2));
        if (op == "sub") return sub(arg(1), arg(2));
        if (op == "mul") return mul(arg(1), arg(2));
        if (op == "div") return div(arg(1), arg(2));
        if (op == "pow") return pow(arg(1), arg(2));
        if (op == "neg") return neg(arg(1));
    }
    return verif::eval_recipe(e);
}

static std::string hexs(const std::string &s)
{
    static const char *d = "0123456789abcdef";
    std::string o;
    for (unsigned char c : s) {
        o += d[c >> 4];
        o += d[c & 15];
    }
    return o;
}

template <class P>
static std::string run_printer(const Basic &e, CodePrinterPrecision prec, std::string *text = nullptr)
{
    try {
        P p(prec);
        std::string s = p.apply(e);
        if (text)
            *text = s;
        return "S:" + hexs(s);
    } catch (...) {
        return verif::exn_name();
    }
}

static std::string refs(const RCP<const Basic> &e)
{
    vec_basic syms;
    for (const char *s : SYMS)
        syms.push_back(symbol(s));
    std::ostringstream o;
    try {
        LambdaRealDoubleVisitor v;
        v.init(syms, *e);
        for (int k = 0; k < 3; k++) {
            double r = v.call(std::vector<double>(POINTS[k], POINTS[k] + 5));
            o << (k ? " " : "") << verif::dblbits(r);
        }
        return o.str();
    } catch (...) {
    }
    try {
        std::ostringstream o2;
        for (int k = 0; k < 3; k++) {
            map_basic_basic m;
            for (int i = 0; i < 5; i++)
                m[syms[i]] = real_double(POINTS[k][i]);
            double r = eval_double(*e->subs(m));
            o2 << (k ? " " : "") << verif::dblbits(r);
        }
        return o2.str();
    } catch (...) {
    }
    return "-";
}

static std::string run_one(const std::string &recipe)
{
    RCP<const Basic> e;
    try {
        e = eval_x(verif::parse_sexp(recipe));
    } catch (...) {
        return "RECIPE-EXN";
    }
    std::ostringstream o, oracle;
    std::string d = verif::dump(*e);
    std::string t99;
    o << d;
    std::string r99 = run_printer<C99CodePrinter>(*e, CodePrinterPrecision::Double, &t99);
    std::string r99f = run_printer<C99CodePrinter>(*e, CodePrinterPrecision::Float);
    std::string r89 = run_printer<C89CodePrinter>(*e, CodePrinterPrecision::Double);
    o << "\t" << r99 << "\t" << r99f << "\t" << r89;
    o << "\t" << run_printer<C89CodePrinter>(*e, CodePrinterPrecision::Float);
    o << "\t" << run_printer<C99CodePrinter>(*e, CodePrinterPrecision::Half);
    o << "\t" << refs(e);
    // the public entry points
    std::string pub;
    try {
        pub = "S:" + hexs(ccode(*e));
    } catch (...) {
        pub = verif::exn_name();
    }
    if (pub != r99)
        oracle << " ccode(e) differs from C99CodePrinter().apply(e);";
    try {
        pub = "S:" + hexs(ccode(*e, CodePrinterPrecision::Float));
    } catch (...) {
        pub = verif::exn_name();
    }
    if (pub != r99f)
        oracle << " ccode(e, Float) differs from C99CodePrinter(Float).apply(e);";
    if (&SymEngine::c89code == nullptr || &SymEngine::c99code == nullptr) {
        oracle << " MISSING-SYMBOL c89code/c99code are declared in printers.h but not defined in the library;";
    } else {
        try {
            pub = "S:" + hexs(c99code(*e));
        } catch (...) {
            pub = verif::exn_name();
        }
        if (pub != r99)
            oracle << " c99code(e) differs from C99CodePrinter().apply(e);";
        try {
            pub = "S:" + hexs(c89code(*e));
        } catch (...) {
            pub = verif::exn_name();
        }
        if (pub != r89)
            oracle << " c89code(e) differs from C89CodePrinter().apply(e);";
    }
    if (!oracle.str().empty())
        o << "\t#ORACLE:" << oracle.str();
    return o.str();
}

static std::string run_line(const std::vector<std::string> &recipes)
{
    std::string out;
    for (size_t i = 0; i < recipes.size(); i++)
        out += (i ? " ;; " : "") + run_one(recipes[i]);
    return out;
}

int main()
{
    std::string line;
    while (std::getline(std::cin, line)) {
        std::vector<std::string> recipes = split_sep(line, " ;; ");
        std::string r = verif::run_forked([&]() { return run_line(recipes); }, 600);
        bool bad = r.size() >= 4
                   && (r.compare(r.size() - 4, 4, "HANG") == 0 || r.find("CRASH:", r.size() > 12 ? r.size() - 12 : 0) != std::string::npos
                       || r.find("UNCAUGHT") != std::string::npos);
        if (bad || split_sep(r, " ;; ").size() != recipes.size()) {
            r.clear();
            for (size_t i = 0; i < recipes.size(); i++) {
                std::string one = verif::run_forked([&]() { return run_one(recipes[i]); }, 120);
                r += (i ? " ;; " : "") + one;
            }
        }
        std::cout << r << "\n";
    }
    return 0;
}
