// C23 driver: runs one GaloisFieldDict operation per input line on the library and prints
// the same canonical line as the extracted model (ocaml/c23_main.ml), followed by a tab and
// "#ORACLE:<class>: <what>" when the result disagrees with an independent schoolbook
// implementation of arithmetic in GF(p)[x] written below (ref_*), i.e. when the property
// itself fails on that input, independently of the model.
//
// line:   <op> <p> <args...>      polynomials: c0,c1,...,cn (low degree first) or "-" (empty)
#include "common.h"
#include <symengine/fields.h>
#include <algorithm>
#include <gmp.h>
using namespace SymEngine;

typedef std::vector<integer_class> vec;

// ---------------------------------------------------------------- parsing / printing
static vec parse_vec(const std::string &s)
{
    vec v;
    if (s == "-")
        return v;
    size_t i = 0;
    while (i <= s.size()) {
        size_t j = s.find(',', i);
        if (j == std::string::npos)
            j = s.size();
        v.push_back(integer_class(s.substr(i, j - i)));
        i = j + 1;
    }
    return v;
}
static std::string show_int(const integer_class &z)
{
    std::ostringstream o;
    o << z;
    return o.str();
}
static std::string show_vec(const vec &v)
{
    std::string s = "[";
    for (size_t i = 0; i < v.size(); i++) {
        if (i)
            s += ",";
        s += show_int(v[i]);
    }
    return s + "]";
}
static std::string show(const GaloisFieldDict &d)
{
    return show_vec(d.dict_);
}

// ---------------------------------------------------------------- reference arithmetic in GF(p)[x]
static integer_class P;
static integer_class rmod(const integer_class &a)
{
    integer_class r;
    mp_fdiv_r(r, a, P);
    return r;
}
static void rstrip(vec &a)
{
    while (!a.empty() && a.back() == 0)
        a.pop_back();
}
static vec rnorm(const vec &a)
{
    vec r(a.size());
    for (size_t i = 0; i < a.size(); i++)
        r[i] = rmod(a[i]);
    rstrip(r);
    return r;
}
static vec radd(const vec &a, const vec &b)
{
    vec r(std::max(a.size(), b.size()), integer_class(0));
    for (size_t i = 0; i < a.size(); i++)
        r[i] += a[i];
    for (size_t i = 0; i < b.size(); i++)
        r[i] += b[i];
    return rnorm(r);
}
static vec rneg(const vec &a)
{
    vec r(a.size());
    for (size_t i = 0; i < a.size(); i++)
        r[i] = -a[i];
    return rnorm(r);
}
static vec rsub(const vec &a, const vec &b)
{
    return radd(a, rneg(b));
}
static vec rmul(const vec &a, const vec &b)
{
    if (a.empty() || b.empty())
        return vec();
    vec r(a.size() + b.size() - 1, integer_class(0));
    for (size_t i = 0; i < a.size(); i++)
        for (size_t j = 0; j < b.size(); j++)
            r[i + j] += a[i] * b[j];
    return rnorm(r);
}
static integer_class rinv(const integer_class &a)
{
    // inverse by the extended Euclidean algorithm on machine-independent integers
    integer_class r0 = P, r1 = rmod(a), t0 = 0, t1 = 1, q, tmp;
    while (r1 != 0) {
        mp_fdiv_q(q, r0, r1);
        tmp = r0 - q * r1;
        r0 = r1;
        r1 = tmp;
        tmp = t0 - q * t1;
        t0 = t1;
        t1 = tmp;
    }
    return rmod(t0);
}
// classical long division: a = q*b + r, deg r < deg b   (a, b normalised, b nonzero)
static void rdivmod(const vec &a, const vec &b, vec &q, vec &r)
{
    r = a;
    q.assign(a.size() >= b.size() ? a.size() - b.size() + 1 : 0, integer_class(0));
    integer_class inv = rinv(b.back());
    while (r.size() >= b.size()) {
        integer_class c = rmod(r.back() * inv);
        size_t sh = r.size() - b.size();
        q[sh] = c;
        for (size_t i = 0; i < b.size(); i++)
            r[sh + i] = rmod(r[sh + i] - c * b[i]);
        rstrip(r); // the leading coefficient is now zero
    }
    rstrip(q);
}
static vec rrem(const vec &a, const vec &b)
{
    vec q, r;
    rdivmod(a, b, q, r);
    return r;
}
static vec rquo(const vec &a, const vec &b)
{
    vec q, r;
    rdivmod(a, b, q, r);
    return q;
}
static vec rmonic(const vec &a)
{
    if (a.empty())
        return a;
    integer_class inv = rinv(a.back());
    vec r(a.size());
    for (size_t i = 0; i < a.size(); i++)
        r[i] = rmod(a[i] * inv);
    return r;
}
static vec rgcd(vec a, vec b)
{
    while (!b.empty()) {
        vec r = rrem(a, b);
        a = b;
        b = r;
    }
    return rmonic(a);
}
static vec rone()
{
    return rnorm(vec(1, integer_class(1)));
}
static vec rpow(const vec &a, const integer_class &n)
{
    // left-to-right binary exponentiation (the library goes right-to-left)
    vec r = rone();
    size_t bits = mpz_sizeinbase(get_mpz_t(n), 2);
    if (n == 0)
        return r;
    for (size_t i = bits; i-- > 0;) {
        r = rmul(r, r);
        if (mpz_tstbit(get_mpz_t(n), i))
            r = rmul(r, a);
    }
    return r;
}
static vec rpowmod(const vec &a, const integer_class &n, const vec &m)
{
    vec r = rrem(rone(), m);
    if (n == 0)
        return rone(); // the library returns 1 unreduced for n = 0; see the oracle of powmod
    size_t bits = mpz_sizeinbase(get_mpz_t(n), 2);
    vec base = rrem(a, m);
    for (size_t i = bits; i-- > 0;) {
        r = rrem(rmul(r, r), m);
        if (mpz_tstbit(get_mpz_t(n), i))
            r = rrem(rmul(r, base), m);
    }
    return r;
}
static integer_class reval(const vec &a, const integer_class &x)
{
    integer_class r = 0;
    for (size_t i = a.size(); i-- > 0;)
        r = rmod(r * x + a[i]);
    return r;
}
static vec rdiff(const vec &a)
{
    vec r;
    for (size_t i = 1; i < a.size(); i++)
        r.push_back(a[i] * integer_class((unsigned long)i));
    return rnorm(r);
}
static vec rcompose(const vec &g, const vec &h)
{
    vec r;
    for (size_t i = g.size(); i-- > 0;)
        r = radd(rmul(r, h), vec(1, g[i]));
    return r;
}
static bool rdivides(const vec &d, const vec &a)
{
    if (d.empty())
        return a.empty();
    return rrem(a, d).empty();
}
static vec rx()
{
    vec x(2, integer_class(0));
    x[1] = 1;
    return rnorm(x);
}
// irreducibility of a normalised polynomial of degree >= 1: brute force when the search
// space is small, Rabin's test otherwise
static bool rirreducible(const vec &f)
{
    size_t n = f.size() - 1;
    if (n == 0)
        return false;
    if (n == 1)
        return true;
    // brute force: trial division by every monic polynomial of degree 1..n/2
    double space = 1;
    bool small = P < 1000;
    if (small) {
        unsigned long p = mp_get_ui(P);
        for (size_t i = 0; i < n / 2; i++)
            space *= (double)p;
        small = space <= 300000;
        if (small) {
            for (size_t d = 1; d <= n / 2; d++) {
                vec g(d + 1, integer_class(0));
                g[d] = 1;
                while (true) {
                    if (rrem(f, g).empty())
                        return false;
                    size_t k = 0;
                    while (k < d) {
                        g[k] += 1;
                        if (g[k] == P) {
                            g[k] = 0;
                            k++;
                        } else
                            break;
                    }
                    if (k == d)
                        break;
                }
            }
            return true;
        }
    }
    // Rabin: x^(p^n) = x mod f and gcd(x^(p^(n/q)) - x, f) = 1 for the primes q | n
    vec x = rx();
    std::vector<vec> frob(n + 1); // frob[i] = x^(p^i) mod f
    frob[0] = rrem(x, f);
    for (size_t i = 1; i <= n; i++)
        frob[i] = rpowmod(frob[i - 1], P, f);
    if (!rsub(frob[n], frob[0]).empty())
        return false;
    for (size_t q = 2; q <= n; q++) {
        if (n % q != 0)
            continue;
        bool prime = true;
        for (size_t t = 2; t * t <= q; t++)
            if (q % t == 0)
                prime = false;
        if (!prime)
            continue;
        vec g = rgcd(f, rsub(frob[n / q], frob[0]));
        if (!(g.size() == 1))
            return false;
    }
    return true;
}
// preconditions of the factorisation stages (for inputs outside them nothing is claimed)
static bool monic_sqf(const vec &f)
{
    return f.size() >= 2 && f.back() == 1 && rgcd(f, rdiff(f)).size() == 1;
}
// every irreducible factor of the monic square-free f has degree exactly n
static bool equal_degree(const vec &f, unsigned n)
{
    if (n == 0 || !monic_sqf(f))
        return false;
    vec x = rrem(rx(), f), fr = x;
    for (unsigned k = 1; k <= n; k++) {
        fr = rpowmod(fr, P, f);
        vec d = rsub(fr, x);
        if (k < n && rgcd(f, d).size() != 1)
            return false;
        if (k == n && !d.empty())
            return false;
    }
    return true;
}
static bool canonical(const vec &a)
{
    for (auto &c : a)
        if (c < 0 || c >= P)
            return false;
    return a.empty() || a.back() != 0;
}

// ---------------------------------------------------------------- the random source
// mp_randstate() seeds a fresh GMP generator with std::rand(); the k-th generator constructed
// after srand(seed) therefore produces a reproducible stream.
static std::vector<vec> mirror_streams(unsigned seed, unsigned J, unsigned I)
{
    std::vector<vec> out;
    srand(seed);
    for (unsigned j = 0; j < J; j++) {
        gmp_randstate_t st;
        gmp_randinit_default(st);
        gmp_randseed_ui(st, std::rand());
        vec s;
        for (unsigned i = 0; i < I; i++) {
            integer_class z;
            mpz_urandomm(get_mpz_t(z), st, get_mpz_t(P));
            s.push_back(z);
        }
        gmp_randclear(st);
        out.push_back(s);
    }
    return out;
}
static std::string show_streams(const std::vector<vec> &ss)
{
    std::string s;
    for (size_t i = 0; i < ss.size(); i++) {
        if (i)
            s += ";";
        for (size_t k = 0; k < ss[i].size(); k++) {
            if (k)
                s += ",";
            s += show_int(ss[i][k]);
        }
    }
    return s;
}

// ---------------------------------------------------------------- one case
struct Oracle {
    std::ostringstream o;
    bool bad = false;
    std::string override_cls; // set when the case lies in a known defect class of its own
    void fail(const std::string &cls, const std::string &what)
    {
        if (!bad)
            o << (override_cls.empty() ? cls : override_cls) << ": " << what;
        bad = true;
    }
};

static void expect_eq(Oracle &orc, const std::string &cls, const std::string &what, const vec &got,
                      const vec &want)
{
    if (got != want)
        orc.fail(cls, what + " gave " + show_vec(got) + ", arithmetic modulo p gives "
                          + show_vec(want));
}

static std::string show_factors(const std::vector<std::pair<GaloisFieldDict, unsigned>> &l)
{
    std::string s;
    for (size_t i = 0; i < l.size(); i++) {
        if (i)
            s += ";";
        s += show(l[i].first) + "^" + std::to_string(l[i].second);
    }
    return s;
}
static std::string show_set(const std::set<GaloisFieldDict, GaloisFieldDict::DictLess> &l)
{
    std::string s;
    bool first = true;
    for (auto &f : l) {
        if (!first)
            s += ";";
        first = false;
        s += show(f);
    }
    return s;
}

static std::string run_case(const std::string &line)
{
    std::vector<std::string> t = verif::split_ws(line);
    if (t.size() < 2)
        return "BADLINE";
    const std::string &op = t[0];
    P = integer_class(t[1]);
    Oracle orc;
    std::string res;
    {
        // gf_frobenius_monomial_base and _gf_pow_pnm1d2 pass the modulus through mp_get_ui
        integer_class two64 = integer_class(1) << 64;
        if (P >= two64
            && (op == "frobbase" || op == "frobmap" || op == "ddfz" || op == "ddfs" || op == "edfz" || op == "edfs"
                || op == "zass" || op == "shoup" || op == "factor"))
            orc.override_cls = "modulus-above-64-bits-truncated";
    }
    auto poly = [&](size_t i) { return GaloisFieldDict::from_vec(parse_vec(t.at(i)), P); };
    auto pstr = [&](size_t i) { return show_vec(rnorm(parse_vec(t.at(i)))); };
    try {
        if (op == "streams") {
            return show_streams(mirror_streams((unsigned)std::stoul(t.at(2)), (unsigned)std::stoul(t.at(3)),
                                               (unsigned)std::stoul(t.at(4))));
        } else if (op == "fromvec") {
            vec v = parse_vec(t.at(2));
            GaloisFieldDict a = GaloisFieldDict::from_vec(v, P);
            res = show(a);
            expect_eq(orc, "from_vec", "from_vec(" + t[2] + ")", a.dict_, rnorm(v));
        } else if (op == "fromint") {
            integer_class c(t.at(2));
            GaloisFieldDict a(c, P);
            res = show(a);
            expect_eq(orc, "from_int", "GaloisFieldDict(" + t[2] + ")", a.dict_, rnorm(vec(1, c)));
        } else if (op == "frommap") {
            map_uint_mpz m;
            vec ref;
            if (t.at(2) != "-") {
                std::istringstream is(t[2]);
                std::string kv;
                while (std::getline(is, kv, ',')) {
                    size_t c = kv.find(':');
                    unsigned k = (unsigned)std::stoul(kv.substr(0, c));
                    integer_class v(kv.substr(c + 1));
                    m[k] = v;
                    if (ref.size() <= k)
                        ref.resize(k + 1, integer_class(0));
                    ref[k] = v;
                }
            }
            GaloisFieldDict a(m, P);
            res = show(a);
            expect_eq(orc, "from_map", "GaloisFieldDict(map " + t[2] + ")", a.dict_, rnorm(ref));
        } else if (op == "neg") {
            GaloisFieldDict a = poly(2);
            GaloisFieldDict r = -a;
            GaloisFieldDict r2 = a;
            r2.negate();
            res = show(r);
            if (r2.dict_ != r.dict_)
                orc.fail("neg", "negate() and operator- differ on " + pstr(2));
            expect_eq(orc, "neg", "-" + pstr(2), r.dict_, rneg(a.dict_));
        } else if (op == "add" || op == "sub") {
            GaloisFieldDict a = poly(2), b = poly(3);
            GaloisFieldDict r = a;
            if (op == "add")
                r += b;
            else
                r -= b;
            res = show(r);
            expect_eq(orc, op, pstr(2) + (op == "add" ? " + " : " - ") + pstr(3), r.dict_,
                      op == "add" ? radd(a.dict_, b.dict_) : rsub(a.dict_, b.dict_));
        } else if (op == "addi" || op == "subi") {
            GaloisFieldDict a = poly(2);
            integer_class c(t.at(3));
            GaloisFieldDict r = a;
            if (op == "addi")
                r += c;
            else
                r -= c;
            res = show(r);
            vec cv = rnorm(vec(1, c));
            vec want = op == "addi" ? radd(a.dict_, cv) : rsub(a.dict_, cv);
            if (r.dict_ != want)
                orc.fail(a.dict_.empty() ? "add_int-on-zero-polynomial" : "add_int",
                         pstr(2) + (op == "addi" ? " + " : " - ") + t[3] + " gave " + show(r)
                             + ", arithmetic modulo p gives " + show_vec(want));
        } else if (op == "muli") {
            GaloisFieldDict a = poly(2);
            integer_class c(t.at(3));
            GaloisFieldDict r = a;
            r *= c;
            res = show(r);
            expect_eq(orc, "mul_int", pstr(2) + " * " + t[3], r.dict_, rmul(a.dict_, rnorm(vec(1, c))));
        } else if (op == "mul" || op == "mula" || op == "sqr") {
            GaloisFieldDict a = poly(2), b = op == "sqr" ? poly(2) : poly(3);
            GaloisFieldDict r;
            if (op == "mul")
                r = GaloisFieldDict::mul(a, b);
            else if (op == "mula") {
                r = a;
                r *= b;
            } else
                r = a.gf_sqr();
            res = show(r);
            expect_eq(orc, "mul", pstr(2) + " * " + (op == "sqr" ? pstr(2) : pstr(3)), r.dict_,
                      rmul(a.dict_, b.dict_));
        } else if (op == "div" || op == "quo" || op == "rem") {
            GaloisFieldDict a = poly(2), b = poly(3), q, r;
            q.modulo_ = r.modulo_ = P;
            bool hasq = true, hasr = true;
            if (op == "div") {
                a.gf_div(b, outArg(q), outArg(r));
                res = show(q) + "|" + show(r);
            } else if (op == "quo") {
                q = a;
                q /= b;
                res = show(q);
                hasr = false;
            } else {
                r = a;
                r %= b;
                res = show(r);
                hasq = false;
            }
            vec wq, wr;
            rdivmod(a.dict_, b.dict_, wq, wr);
            if (hasq)
                expect_eq(orc, "div", "quotient of " + pstr(2) + " by " + pstr(3), q.dict_, wq);
            if (hasr)
                expect_eq(orc, "div", "remainder of " + pstr(2) + " by " + pstr(3), r.dict_, wr);
            if (hasq && hasr && !orc.bad) {
                // f = q*g + r, deg r < deg g, straight from the statement
                if (radd(rmul(q.dict_, b.dict_), r.dict_) != a.dict_ || r.dict_.size() >= b.dict_.size())
                    orc.fail("div", "f != q*g + r or deg r >= deg g for " + pstr(2) + " / " + pstr(3));
            }
        } else if (op == "quoi" || op == "remi") {
            GaloisFieldDict a = poly(2);
            integer_class c(t.at(3));
            GaloisFieldDict r = a;
            if (op == "quoi")
                r /= c;
            else
                r %= c;
            res = show(r);
            if (op == "quoi")
                expect_eq(orc, "div_int", pstr(2) + " / " + t[3], r.dict_,
                          rmul(a.dict_, vec(1, rinv(c))));
            else
                expect_eq(orc, "div_int", pstr(2) + " % " + t[3], r.dict_, vec());
        } else if (op == "lsh") {
            GaloisFieldDict a = poly(2);
            unsigned long n = std::stoul(t.at(3));
            GaloisFieldDict r = a.gf_lshift(integer_class(n));
            res = show(r);
            vec xn(n + 1, integer_class(0));
            xn[n] = 1;
            expect_eq(orc, "shift", pstr(2) + " << " + t[3], r.dict_, rmul(a.dict_, rnorm(xn)));
        } else if (op == "rsh") {
            GaloisFieldDict a = poly(2), q, r;
            unsigned long n = std::stoul(t.at(3));
            a.gf_rshift(integer_class(n), outArg(q), outArg(r));
            res = show(q) + "|" + show(r);
            vec xn(n + 1, integer_class(0));
            xn[n] = 1;
            vec wq, wr;
            rdivmod(a.dict_, rnorm(xn), wq, wr);
            expect_eq(orc, "shift", pstr(2) + " >> " + t[3] + " (quotient)", q.dict_, wq);
            expect_eq(orc, "shift", pstr(2) + " >> " + t[3] + " (remainder)", r.dict_, wr);
        } else if (op == "pow") {
            GaloisFieldDict a = poly(2);
            unsigned long n = std::stoul(t.at(3));
            GaloisFieldDict r = a.gf_pow(n);
            res = show(r);
            expect_eq(orc, "pow", pstr(2) + " ** " + t[3], r.dict_, rpow(a.dict_, integer_class(n)));
        } else if (op == "powmod") {
            GaloisFieldDict m = poly(2), a = poly(3);
            unsigned long n = std::stoul(t.at(4));
            GaloisFieldDict r = m.gf_pow_mod(a, n);
            res = show(r);
            // the value must be congruent to a**n modulo m, and reduced for n >= 1
            if (m.dict_.empty()) {
                // n = 0: the library returns 1 without looking at the modulus
                if (r.dict_ != rone())
                    orc.fail("pow_mod", pstr(3) + " ** " + t[4] + " mod 0 gave " + show(r));
                goto done;
            }
            vec want = rpowmod(a.dict_, integer_class(n), m.dict_);
            if (n == 0) {
                if (!rdivides(m.dict_, rsub(r.dict_, want)) || !canonical(r.dict_))
                    orc.fail("pow_mod", pstr(3) + " ** 0 mod " + pstr(2) + " gave " + show(r));
            } else
                expect_eq(orc, "pow_mod", pstr(3) + " ** " + t[4] + " mod " + pstr(2), r.dict_, want);
        } else if (op == "monic") {
            GaloisFieldDict a = poly(2), r;
            integer_class lc;
            a.gf_monic(lc, outArg(r));
            res = show_int(lc) + "|" + show(r);
            expect_eq(orc, "monic", "monic(" + pstr(2) + ")", r.dict_, rmonic(a.dict_));
            if (lc != (a.dict_.empty() ? integer_class(0) : a.dict_.back()))
                orc.fail("monic", "leading coefficient of " + pstr(2) + " reported as " + show_int(lc));
        } else if (op == "gcd" || op == "lcm") {
            GaloisFieldDict a = poly(2), b = poly(3);
            GaloisFieldDict r = op == "gcd" ? a.gf_gcd(b) : a.gf_lcm(b);
            res = show(r);
            vec g = rgcd(a.dict_, b.dict_);
            if (op == "gcd") {
                expect_eq(orc, "gcd", "gcd(" + pstr(2) + ", " + pstr(3) + ")", r.dict_, g);
                if (!orc.bad && !g.empty()
                    && (!rdivides(r.dict_, a.dict_) || !rdivides(r.dict_, b.dict_) || r.dict_.back() != 1))
                    orc.fail("gcd", "gcd(" + pstr(2) + ", " + pstr(3) + ") = " + show(r)
                                        + " does not divide both or is not monic");
            } else {
                vec want = (a.dict_.empty() || b.dict_.empty())
                               ? vec()
                               : rmonic(rquo(rmul(a.dict_, b.dict_), g));
                expect_eq(orc, "lcm", "lcm(" + pstr(2) + ", " + pstr(3) + ")", r.dict_, want);
            }
        } else if (op == "diff") {
            GaloisFieldDict a = poly(2);
            GaloisFieldDict r = a.gf_diff();
            res = show(r);
            expect_eq(orc, "diff", "diff(" + pstr(2) + ")", r.dict_, rdiff(a.dict_));
        } else if (op == "eval") {
            GaloisFieldDict a = poly(2);
            integer_class x(t.at(3));
            integer_class r = a.gf_eval(x);
            res = show_int(r);
            integer_class want = reval(a.dict_, x);
            if (r != want) {
                if (rmod(r) == want)
                    orc.fail("eval-negative-argument-not-reduced",
                             "eval(" + pstr(2) + ", " + t[3] + ") gave " + show_int(r)
                                 + ", the element of [0,p) is " + show_int(want));
                else
                    orc.fail("eval", "eval(" + pstr(2) + ", " + t[3] + ") gave " + show_int(r)
                                         + ", arithmetic modulo p gives " + show_int(want));
            }
        } else if (op == "meval") {
            GaloisFieldDict a = poly(2);
            vec xs = parse_vec(t.at(3));
            vec r = a.gf_multi_eval(xs);
            res = show_vec(r);
            for (size_t i = 0; i < xs.size(); i++)
                if (rmod(r[i]) != reval(a.dict_, xs[i]))
                    orc.fail("eval", "multi_eval(" + pstr(2) + ") at " + show_int(xs[i]) + " gave "
                                         + show_int(r[i]));
        } else if (op == "compose") {
            GaloisFieldDict m = poly(2), g = poly(3), h = poly(4);
            GaloisFieldDict r = m.gf_compose_mod(g, h);
            res = show(r);
            if (m.dict_.empty()) {
                // reached only for a constant or zero g (otherwise the reduction throws): g itself
                if (r.dict_ != g.dict_)
                    orc.fail("compose_mod", "compose_mod(g=" + pstr(3) + ") mod 0 gave " + show(r));
                goto done;
            }
            vec want = rrem(rcompose(g.dict_, h.dict_), m.dict_);
            // a constant g is returned unreduced by the library; accept any canonical representative
            // of the right class when g has a single coefficient
            if (r.dict_ != want) {
                bool zero_step = false; // does some Horner prefix vanish modulo m ?
                vec acc;
                for (size_t i = g.dict_.size(); i-- > 1;) {
                    acc = rrem(radd(rmul(acc, h.dict_), vec(1, g.dict_[i])), m.dict_);
                    if (rmul(acc, h.dict_).empty())
                        zero_step = true;
                }
                if (g.dict_.size() == 1 && rdivides(m.dict_, rsub(r.dict_, want)) && canonical(r.dict_)) {
                    // fine: constant, congruent
                } else
                    orc.fail(zero_step ? "compose_mod-zero-intermediate" : "compose_mod",
                             "compose_mod(g=" + pstr(3) + ", h=" + pstr(4) + ") mod " + pstr(2) + " gave "
                                 + show(r) + ", arithmetic modulo p gives " + show_vec(want));
            }
        } else if (op == "issqf") {
            GaloisFieldDict a = poly(2);
            bool r = a.gf_is_sqf();
            res = r ? "true" : "false";
            bool want = a.dict_.empty() ? true : rgcd(a.dict_, rdiff(a.dict_)).size() == 1;
            if (r != want)
                orc.fail("is_sqf", "is_sqf(" + pstr(2) + ") = " + res);
        } else if (op == "sqflist" || op == "sqfpart") {
            GaloisFieldDict a = poly(2);
            if (op == "sqfpart") {
                GaloisFieldDict r = a.gf_sqf_part();
                res = show(r);
                // square-free, monic, same irreducible factors: divides monic(a), and monic(a) divides r^deg
                vec ma = rmonic(a.dict_);
                if (a.dict_.size() >= 2) {
                    if (!rdivides(r.dict_, ma) || rgcd(r.dict_, rdiff(r.dict_)).size() != 1
                        || !rdivides(ma, rpow(r.dict_, integer_class((unsigned long)a.dict_.size()))))
                        orc.fail("sqf", "sqf_part(" + pstr(2) + ") = " + show(r));
                }
            } else {
                auto l = a.gf_sqf_list();
                res = show_factors(l);
                vec prod = rone();
                for (auto &fe : l) {
                    prod = rmul(prod, rpow(fe.first.dict_, integer_class((unsigned long)fe.second)));
                    if (fe.first.dict_.size() < 2 || fe.first.dict_.back() != 1
                        || rgcd(fe.first.dict_, rdiff(fe.first.dict_)).size() != 1)
                        orc.fail("sqf", "sqf_list(" + pstr(2) + "): factor " + show(fe.first)
                                            + " is not monic, non-constant and square-free");
                }
                for (size_t i = 0; i < l.size(); i++)
                    for (size_t j = i + 1; j < l.size(); j++)
                        if (rgcd(l[i].first.dict_, l[j].first.dict_).size() != 1 || l[i].second == l[j].second)
                            orc.fail("sqf", "sqf_list(" + pstr(2) + "): factors not pairwise coprime / multiplicities repeat");
                vec want = a.dict_.size() >= 2 ? rmonic(a.dict_) : rone();
                if (prod != want)
                    orc.fail("sqf", "sqf_list(" + pstr(2) + ") = " + res + " multiplies back to "
                                        + show_vec(prod));
            }
        } else if (op == "frobbase") {
            GaloisFieldDict a = poly(2);
            auto b = a.gf_frobenius_monomial_base();
            for (size_t i = 0; i < b.size(); i++) {
                if (i)
                    res += ";";
                res += show(b[i]);
                // x^(i*p) mod a
                vec want = rpowmod(rx(), P * integer_class((unsigned long)i), a.dict_);
                if (i == 0)
                    want = rone();
                if (b[i].dict_ != want)
                    orc.fail("frobenius", "frobenius_monomial_base(" + pstr(2) + ")[" + std::to_string(i)
                                              + "] = " + show(b[i]) + ", x^(i p) mod f = " + show_vec(want));
            }
        } else if (op == "frobmap") {
            GaloisFieldDict f = poly(2), g = poly(3);
            auto b = g.gf_frobenius_monomial_base();
            GaloisFieldDict r = f.gf_frobenius_map(g, b);
            res = show(r);
            expect_eq(orc, "frobenius", "frobenius_map(" + pstr(2) + " mod " + pstr(3) + ")", r.dict_,
                      rpowmod(f.dict_, P, g.dict_));
        } else if (op == "ddfz" || op == "ddfs") {
            GaloisFieldDict a = poly(2);
            auto l = op == "ddfz" ? a.gf_ddf_zassenhaus() : a.gf_ddf_shoup();
            res = show_factors(l);
            if (!monic_sqf(a.dict_))
                goto done; // outside the precondition (monic, square-free): tie only
            vec prod = rone();
            vec x = rx();
            for (auto &fe : l) {
                prod = rmul(prod, fe.first.dict_);
                // every irreducible factor of fe.first has degree fe.second:
                // fe.first | x^(p^n) - x and gcd(fe.first, x^(p^k) - x) = 1 for k < n
                vec fr = rrem(x, fe.first.dict_);
                bool ok = fe.second >= 1 && fe.first.dict_.size() >= 2;
                for (unsigned k = 1; ok && k <= fe.second; k++) {
                    fr = rpowmod(fr, P, fe.first.dict_);
                    vec d = rsub(fr, rrem(x, fe.first.dict_));
                    if (k < fe.second && rgcd(fe.first.dict_, d).size() != 1)
                        ok = false;
                    if (k == fe.second && !d.empty())
                        ok = false;
                }
                if (!ok)
                    orc.fail("ddf", op + "(" + pstr(2) + "): " + show(fe.first)
                                        + " is not a product of irreducibles of degree " + std::to_string(fe.second));
            }
            if (prod != a.dict_ && !(a.dict_.size() <= 1))
                orc.fail("ddf", op + "(" + pstr(2) + ") = " + res + " multiplies back to " + show_vec(prod));
        } else if (op == "edfz" || op == "edfs" || op == "zass" || op == "shoup") {
            // <op> p seed streams poly [n]
            unsigned seed = (unsigned)std::stoul(t.at(2));
            GaloisFieldDict a = poly(4);
            srand(seed);
            std::set<GaloisFieldDict, GaloisFieldDict::DictLess> s;
            if (op == "edfz")
                s = a.gf_edf_zassenhaus((unsigned)std::stoul(t.at(5)));
            else if (op == "edfs")
                s = a.gf_edf_shoup((unsigned)std::stoul(t.at(5)));
            else if (op == "zass")
                s = a.gf_zassenhaus();
            else
                s = a.gf_shoup();
            res = show_set(s);
            if ((op == "zass" || op == "shoup") ? !monic_sqf(a.dict_)
                                                : !equal_degree(a.dict_, (unsigned)std::stoul(t.at(5))))
                goto done; // outside the precondition: tie only
            vec prod = rone();
            for (auto &f : s) {
                prod = rmul(prod, f.dict_);
                if (f.dict_.size() < 2 || f.dict_.back() != 1 || !canonical(f.dict_) || !rirreducible(f.dict_))
                    orc.fail("factor-not-irreducible",
                             op + "(" + pstr(4) + "): factor " + show(f) + " is not monic irreducible");
            }
            if (prod != a.dict_ && a.dict_.size() >= 2)
                orc.fail("factor-product", op + "(" + pstr(4) + ") = " + res + " multiplies back to "
                                               + show_vec(prod));
        } else if (op == "factor") {
            unsigned seed = (unsigned)std::stoul(t.at(2));
            GaloisFieldDict a = poly(4);
            srand(seed);
            auto r = a.gf_factor();
            res = show_int(r.first) + "|";
            vec prod = rnorm(vec(1, r.first));
            bool first = true;
            for (auto &fe : r.second) {
                if (!first)
                    res += ";";
                first = false;
                res += show(fe.first) + "^" + std::to_string(fe.second);
                prod = rmul(prod, rpow(fe.first.dict_, integer_class((unsigned long)fe.second)));
                if (fe.first.dict_.size() < 2 || fe.first.dict_.back() != 1 || !canonical(fe.first.dict_)
                    || !rirreducible(fe.first.dict_))
                    orc.fail("factor-not-irreducible",
                             "factor(" + pstr(4) + "): factor " + show(fe.first) + " is not monic irreducible");
            }
            if (prod != a.dict_)
                orc.fail("factor-product", "factor(" + pstr(4) + ") = " + res + " multiplies back to "
                                               + show_vec(prod));
        } else {
            return "BADOP";
        }
    done:;
    } catch (DivisionByZeroError &) {
        res = "EXN:1";
    } catch (SymEngineException &) {
        res = "EXN:2";
    } catch (std::exception &) {
        res = "EXN:3";
    }
    if (orc.bad)
        res += "\t#ORACLE:" + orc.o.str();
    return res;
}

// Cases run in forked children, a batch per child; when a child dies (signal, abort, alarm) the
// case it was working on is reported as CRASH:<sig> / HANG and a new child continues after it.
int main()
{
    std::vector<std::string> lines;
    std::string line;
    while (std::getline(std::cin, line))
        lines.push_back(line);
    std::vector<std::string> out(lines.size());
    size_t next = 0;
    const size_t BATCH = 64;
    while (next < lines.size()) {
        size_t end = std::min(lines.size(), next + BATCH);
        int fd[2];
        if (pipe(fd) != 0)
            return 3;
        fflush(stdout);
        pid_t pid = fork();
        if (pid == 0) {
            close(fd[0]);
            struct rlimit rl;
            rl.rlim_cur = rl.rlim_max = 0;
            setrlimit(RLIMIT_CORE, &rl);
            for (size_t i = next; i < end; i++) {
                alarm(60);
                std::string s;
                try {
                    s = run_case(lines[i]);
                } catch (...) {
                    s = "UNCAUGHT";
                }
                s = std::to_string(i) + "\x01" + s + "\x02";
                size_t off = 0;
                while (off < s.size()) {
                    ssize_t w = write(fd[1], s.data() + off, s.size() - off);
                    if (w <= 0)
                        _exit(4);
                    off += (size_t)w;
                }
            }
            close(fd[1]);
            _exit(0);
        }
        close(fd[1]);
        std::string buf;
        char tmp[65536];
        ssize_t r;
        while ((r = read(fd[0], tmp, sizeof tmp)) > 0)
            buf.append(tmp, (size_t)r);
        close(fd[0]);
        int status = 0;
        waitpid(pid, &status, 0);
        size_t done = next;
        size_t pos = 0;
        while (true) {
            size_t e = buf.find('\x02', pos);
            if (e == std::string::npos)
                break;
            size_t m = buf.find('\x01', pos);
            size_t idx = std::stoul(buf.substr(pos, m - pos));
            out[idx] = buf.substr(m + 1, e - m - 1);
            done = idx + 1;
            pos = e + 1;
        }
        if (done < end) {
            // the child died while working on case `done`
            if (WIFSIGNALED(status)) {
                int sig = WTERMSIG(status);
                out[done] = sig == SIGALRM ? "HANG" : "CRASH:" + std::to_string(sig);
            } else
                out[done] = "CRASH:exit" + std::to_string(WEXITSTATUS(status));
            done++;
        }
        next = done;
    }
    for (auto &s : out)
        std::cout << s << "\n";
    return 0;
}
