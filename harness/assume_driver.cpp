// C34 / C35 driver: property queries under assumptions, refine and simplify.
//
// Input lines (fields separated by TAB):
//   Q <recipe e> <assumptions> <valuations>
//   R <recipe e> <assumptions> <valuations>
//   K <max|min> <recipe e> <assumptions> <node index> <i,j,k...>
// <assumptions>: "-" = no Assumptions object (nullptr), "0" = empty set, else recipes of the
//   statements separated by " ;; ".
// <valuations>: "-" or  name=recipe;name=recipe | name=recipe;...   (numeric recipes)
//
// Output of Q (TAB separated):
//   dump(e)  stmts  dump(e/2) ;; dump((e+1)/2)  RESULTS  [#ORACLE:...]
//   stmts = "-" | "0" | dumps of the statements in the order of the set, separated by " ;; "
//   RESULTS = one character per query (T true, F false, ? indeterminate, E exception) in the order
//     zero nonzero positive negative nonnegative nonpositive integer real complex rational
//     irrational finite infinite algebraic transcendental even odd polynomial() polynomial({x})
//   or "AEXN" when the Assumptions constructor throws.
// Output of R:
//   dump(e)  stmts  NODES  dump(refine e) ;; dump(simplify e)  [#ORACLE:...]
//   NODES = records separated by " @@ ":  KIND ## inputs ## flags ## label=dump %% label=dump ... ## result
// The property oracle evaluates e at the given valuations (those that satisfy every statement)
// with the library's own substitution and checks every definite answer / the refined value.
#include <symengine/basic.h>
#include <symengine/add.h>
#include <symengine/mul.h>
#include <symengine/pow.h>
#include <symengine/functions.h>
#include <symengine/logic.h>
#include <symengine/sets.h>
#include <symengine/complex.h>
#include <symengine/complex_double.h>
#include <symengine/real_double.h>
#include <symengine/infinity.h>
#include <symengine/nan.h>
#include <symengine/constants.h>
#include <symengine/visitor.h>
#include <symengine/ntheory.h>
#include <symengine/eval_double.h>
#include <symengine/symengine_exception.h>
#include <symengine/test_visitors.h>
#include <symengine/assumptions.h>
#include <symengine/refine.h>
#define private public
#include <symengine/simplify.h>
#undef private
#include "common.h"
#include "dump.h"
#include "recipe.h"
#include <memory>
#include <cmath>
using namespace SymEngine;

static std::vector<std::string> split_sep(const std::string &s, const std::string &sep)
{
    std::vector<std::string> v;
    size_t st = 0;
    while (true) {
        size_t p = s.find(sep, st);
        if (p == std::string::npos) {
            v.push_back(s.substr(st));
            break;
        }
        v.push_back(s.substr(st, p - st));
        st = p + sep.size();
    }
    return v;
}
static std::string trim(const std::string &s)
{
    size_t a = 0, b = s.size();
    while (a < b && isspace((unsigned char)s[a]))
        a++;
    while (b > a && isspace((unsigned char)s[b - 1]))
        b--;
    return s.substr(a, b - a);
}

struct Ctx {
    RCP<const Basic> e;
    bool have_assum = false;
    set_basic stmts;
    std::unique_ptr<Assumptions> A;
    bool aexn = false;
    std::vector<map_basic_basic> vals;
    std::vector<std::string> valtxt;
    const Assumptions *ap() const
    {
        return have_assum ? A.get() : nullptr;
    }
    std::string stmts_dump() const
    {
        if (!have_assum)
            return "-";
        if (stmts.empty())
            return "0";
        std::string s;
        bool first = true;
        for (const auto &st : stmts) {
            s += (first ? "" : " ;; ") + verif::dump(*st);
            first = false;
        }
        return s;
    }
};

static void setup(Ctx &c, const std::string &re, const std::string &as, const std::string &vs)
{
    c.e = verif::eval_recipe(re);
    std::string a = trim(as);
    if (a != "-") {
        c.have_assum = true;
        if (a != "0")
            for (const auto &r : split_sep(a, " ;; "))
                c.stmts.insert(verif::eval_recipe(trim(r)));
        try {
            c.A.reset(new Assumptions(c.stmts));
        } catch (SymEngineException &) {
            c.aexn = true;
        }
    }
    std::string v = trim(vs);
    if (v != "-" && !v.empty()) {
        for (const auto &one : split_sep(v, "|")) {
            map_basic_basic m;
            for (const auto &b : split_sep(trim(one), ";")) {
                std::string t = trim(b);
                if (t.empty())
                    continue;
                size_t p = t.find('=');
                m[symbol(t.substr(0, p))] = verif::eval_recipe(t.substr(p + 1));
            }
            c.vals.push_back(m);
            c.valtxt.push_back(trim(one));
        }
    }
}

static char tchar(tribool t)
{
    return is_true(t) ? 'T' : is_false(t) ? 'F' : '?';
}
template <typename F>
static char q(F f)
{
    try {
        return tchar(f());
    } catch (SymEngineException &) {
        return 'E';
    }
}

// does the valuation satisfy every statement (evaluated by the library's own substitution)?
static bool satisfies(const Ctx &c, const map_basic_basic &m)
{
    for (const auto &st : c.stmts) {
        RCP<const Basic> r = st->subs(m);
        if (!is_a<BooleanAtom>(*r) || !down_cast<const BooleanAtom &>(*r).get_val())
            return false;
    }
    return true;
}

// truth of the properties at a value.  1 = holds, 0 = does not hold, -1 = not decided here.
struct Truth {
    int v[17];
};
static const char *QNAMES[19]
    = {"zero",     "nonzero",    "positive", "negative", "nonnegative", "nonpositive",    "integer",
       "real",     "complex",    "rational", "irrational", "finite",   "infinite",       "algebraic",
       "transcendental", "even", "odd",      "polynomial", "polynomial_x"};

static bool truth_of(const RCP<const Basic> &val, Truth &t)
{
    for (int i = 0; i < 17; i++)
        t.v[i] = -1;
    if (is_a<Integer>(*val) || is_a<Rational>(*val)) {
        const Number &n = down_cast<const Number &>(*val);
        bool z = n.is_zero(), p = n.is_positive(), ng = n.is_negative();
        bool isint = is_a<Integer>(*val);
        int ev = -1, od = -1;
        if (isint) {
            integer_class r = down_cast<const Integer &>(*val).as_integer_class() % 2;
            ev = (r == 0);
            od = !ev;
        } else {
            ev = 0;
            od = 0;
        }
        int a[17] = {z, !z, p, ng, !ng, !p, isint, 1, 1, 1, 0, 1, 0, 1, 0, ev, od};
        for (int i = 0; i < 17; i++)
            t.v[i] = a[i];
        return true;
    }
    if (is_a<Complex>(*val)) {
        // exact non-real complex number
        int a[17] = {0, 1, 0, 0, 0, 0, 0, 0, 1, 0, 0, 1, 0, 1, 0, 0, 0};
        for (int i = 0; i < 17; i++)
            t.v[i] = a[i];
        return true;
    }
    if (is_a<Infty>(*val)) {
        const Infty &inf = down_cast<const Infty &>(*val);
        bool p = inf.is_positive(), ng = inf.is_negative();
        int a[17] = {0, 1, p, ng, p, ng, 0, 0, 0, 0, 0, 0, 1, -1, -1, 0, 0};
        for (int i = 0; i < 17; i++)
            t.v[i] = a[i];
        return true;
    }
    if (is_a<NaN>(*val)) {
        // nan has none of the order / membership properties
        int a[17] = {0, -1, 0, 0, 0, 0, 0, 0, 0, 0, 0, -1, -1, -1, -1, 0, 0};
        for (int i = 0; i < 17; i++)
            t.v[i] = a[i];
        return true;
    }
    if (is_a<RealDouble>(*val) && std::isfinite(down_cast<const RealDouble &>(*val).i)) {
        // a finite double is a rational number: never irrational, never transcendental
        t.v[10] = 0;
        t.v[14] = 0;
        return true;
    }
    if (is_a_Number(*val))
        return false; // other floating point values: no exact verdict
    // not a number after substitution (constants, unevaluated functions): numeric verdict on
    // the order properties only, with a margin
    try {
        std::complex<double> z = eval_complex_double(*val);
        if (!std::isfinite(z.real()) || !std::isfinite(z.imag()))
            return false;
        double tol = 1e-9 * (1.0 + std::abs(z));
        bool realish = std::fabs(z.imag()) < tol;
        bool clearly_nonreal = std::fabs(z.imag()) > 1e3 * tol;
        if (!realish && !clearly_nonreal)
            return false;
        // numeric verdicts are only used against the order claims and against "real = true"
        // (an intermediate overflow can make a singular expression look finite, so complex /
        // finite claims are not judged numerically)
        if (clearly_nonreal) {
            t.v[0] = 0;
            t.v[2] = t.v[3] = t.v[4] = t.v[5] = 0;
            t.v[6] = 0;
            t.v[7] = 0;
            return true;
        }
        double x = z.real();
        if (std::fabs(x) < 1e3 * tol)
            return false; // too close to zero to call
        bool p = x > 0;
        t.v[0] = 0;
        t.v[1] = 1;
        t.v[2] = p;
        t.v[3] = !p;
        t.v[4] = p;
        t.v[5] = !p;
        if (std::fabs(x - std::round(x)) > 1e-6)
            t.v[6] = 0, t.v[15] = 0, t.v[16] = 0;
        return true;
    } catch (...) {
        return false;
    }
}

static std::string run_query(const std::vector<std::string> &f)
{
    Ctx c;
    setup(c, f[1], f[2], f.size() > 3 ? f[3] : "-");
    std::ostringstream o;
    RCP<const Basic> half, half1;
    std::string hd = "!", h1d = "!";
    try {
        half = div(c.e, integer(2));
        hd = verif::dump(*half);
    } catch (...) {
    }
    try {
        half1 = div(add(c.e, integer(1)), integer(2));
        h1d = verif::dump(*half1);
    } catch (...) {
    }
    o << verif::dump(*c.e) << "\t" << c.stmts_dump() << "\t" << hd << " ;; " << h1d << "\t";
    if (c.aexn) {
        o << "AEXN";
        return o.str();
    }
    const Assumptions *A = c.ap();
    const Basic &e = *c.e;
    char r[20];
    r[0] = q([&] { return is_zero(e, A); });
    r[1] = q([&] { return is_nonzero(e, A); });
    r[2] = q([&] { return is_positive(e, A); });
    r[3] = q([&] { return is_negative(e, A); });
    r[4] = q([&] { return is_nonnegative(e, A); });
    r[5] = q([&] { return is_nonpositive(e, A); });
    r[6] = q([&] { return is_integer(e, A); });
    r[7] = q([&] { return is_real(e, A); });
    r[8] = q([&] { return is_complex(e, A); });
    r[9] = q([&] { return is_rational(e); });
    r[10] = q([&] { return is_irrational(e); });
    r[11] = q([&] { return is_finite(e, A); });
    r[12] = q([&] { return is_infinite(e, A); });
    r[13] = q([&] { return is_algebraic(e, A); });
    r[14] = q([&] { return is_transcendental(e, A); });
    r[15] = q([&] { return is_even(e, A); });
    r[16] = q([&] { return is_odd(e, A); });
    r[17] = q([&] { return tribool_from_bool(is_polynomial(e)); });
    r[18] = q([&] { return tribool_from_bool(is_polynomial(e, {symbol("x")})); });
    r[19] = 0;
    o << r;
    // ---- oracle
    std::ostringstream orc;
    int nviol = 0;
    for (size_t k = 0; k < c.vals.size() && nviol < 4; k++) {
        try {
            if (!satisfies(c, c.vals[k]))
                continue;
            RCP<const Basic> val = c.e->subs(c.vals[k]);
            Truth t;
            if (!truth_of(val, t))
                continue;
            for (int i = 0; i < 17; i++) {
                if (t.v[i] < 0)
                    continue;
                if ((r[i] == 'T' && t.v[i] == 0) || (r[i] == 'F' && t.v[i] == 1)) {
                    orc << (nviol ? " " : "") << QNAMES[i] << "=" << r[i] << "@" << k << ":" << verif::dump(*val);
                    nviol++;
                }
            }
        } catch (...) {
        }
    }
    if (nviol)
        o << "\t#ORACLE:" << orc.str();
    return o.str();
}

// ------------------------------------------------------------------ refine / simplify
static void collect(const RCP<const Basic> &t, std::vector<RCP<const Basic>> &out, size_t limit)
{
    if (out.size() >= limit)
        return;
    out.push_back(t);
    if (is_a<Pow>(*t)) {
        collect(down_cast<const Pow &>(*t).get_base(), out, limit);
        collect(down_cast<const Pow &>(*t).get_exp(), out, limit);
        return;
    }
    for (const auto &a : t->get_args())
        collect(a, out, limit);
}

static std::string cand(const char *lab, const RCP<const Basic> &b)
{
    return std::string(lab) + "=" + verif::dump(*b);
}

static bool node_record(const RCP<const Basic> &t, const Assumptions *A, std::string &rec)
{
    std::ostringstream o;
    std::vector<std::string> cs;
    auto join = [&]() {
        std::string s;
        for (size_t i = 0; i < cs.size(); i++)
            s += (i ? " %% " : "") + cs[i];
        return s;
    };
    if (is_a<Abs>(*t) || is_a<Sign>(*t) || is_a<Floor>(*t) || is_a<Ceiling>(*t) || is_a<Conjugate>(*t)
        || is_a<Log>(*t)) {
        RCP<const Basic> arg = down_cast<const OneArgFunction &>(*t).get_arg();
        RCP<const Basic> na = refine(arg, A);
        RCP<const Basic> res = refine(t, A);
        std::string flags = "-";
        const char *kind = "";
        if (is_a<Abs>(*t)) {
            kind = "Abs";
            cs.push_back(cand("id", na));
            cs.push_back(cand("neg", neg(na)));
            if (is_a<Conjugate>(*na))
                cs.push_back(cand("conj", abs(down_cast<const Conjugate &>(*na).get_arg())));
            cs.push_back(cand("keep", abs(na)));
        } else if (is_a<Sign>(*t)) {
            kind = "Sign";
            cs.push_back(cand("one", integer(1)));
            cs.push_back(cand("mone", integer(-1)));
            cs.push_back(cand("zero", integer(0)));
            cs.push_back(cand("keep", sign(na)));
        } else if (is_a<Floor>(*t)) {
            kind = "Floor";
            bool cem = could_extract_minus(*na);
            flags = cem ? "cem" : "nocem";
            cs.push_back(cand("id", na));
            if (cem)
                cs.push_back(cand("flip", neg(ceiling(neg(na)))));
            cs.push_back(cand("keep", floor(na)));
        } else if (is_a<Ceiling>(*t)) {
            kind = "Ceiling";
            bool cem = could_extract_minus(*na);
            flags = cem ? "cem" : "nocem";
            cs.push_back(cand("id", na));
            if (cem)
                cs.push_back(cand("flip", neg(floor(neg(na)))));
            cs.push_back(cand("keep", ceiling(na)));
        } else if (is_a<Conjugate>(*t)) {
            kind = "Conjugate";
            cs.push_back(cand("id", na));
            cs.push_back(cand("keep", conjugate(na)));
        } else {
            kind = "Log";
            if (is_a<Pow>(*na)) {
                const Pow &p = down_cast<const Pow &>(*na);
                cs.push_back(cand("mullog", mul(p.get_exp(), log(p.get_base()))));
            } else if (is_a<Integer>(*na)) {
                auto be = mp_perfect_power_decomposition(down_cast<const Integer &>(*na).as_integer_class());
                if (be.second != 1) {
                    flags = "pp";
                    cs.push_back(cand("perfect", mul(make_rcp<const Integer>(be.second),
                                                     log(make_rcp<const Integer>(be.first)))));
                } else {
                    flags = "nopp";
                }
            }
            cs.push_back(cand("keep", log(na)));
        }
        o << kind << " ## " << verif::dump(*na) << " ## " << flags << " ## " << join() << " ## " << verif::dump(*res);
        rec = o.str();
        return true;
    }
    if (is_a<Pow>(*t)) {
        const Pow &p = down_cast<const Pow &>(*t);
        RCP<const Basic> ne = refine(p.get_exp(), A);
        RCP<const Basic> nb = refine(p.get_base(), A);
        RCP<const Basic> res = refine(t, A);
        if (is_a<Pow>(*nb) && is_a_Number(*ne)) {
            const Pow &ip = down_cast<const Pow &>(*nb);
            if (is_a_Number(*ip.get_exp())) {
                cs.push_back(cand("pos", pow(ip.get_base(), mul(ne, ip.get_exp()))));
                cs.push_back(cand("abs", pow(abs(ip.get_base()), mul(ne, ip.get_exp()))));
            }
        }
        cs.push_back(cand("keep", pow(nb, ne)));
        o << "Pow ## " << verif::dump(*nb) << " ;; " << verif::dump(*ne) << " ## - ## " << join() << " ## "
          << verif::dump(*res);
        rec = o.str();
        return true;
    }
    if (is_a<Max>(*t) || is_a<Min>(*t)) {
        RCP<const Basic> res = refine(t, A);
        o << (is_a<Max>(*t) ? "Max" : "Min") << " ## ";
        bool first = true;
        for (const auto &a : t->get_args()) {
            o << (first ? "" : " ;; ") << verif::dump(*refine(a, A));
            first = false;
        }
        o << " ## - ## - ## " << verif::dump(*res);
        rec = o.str();
        return true;
    }
    return false;
}

static bool simp_record(const RCP<const Basic> &t, std::string &rec)
{
    if (!is_a<Pow>(*t))
        return false;
    const Pow &p = down_cast<const Pow &>(*t);
    SimplifyVisitor v1, v2, v3;
    RCP<const Basic> e1 = v1.apply(p.get_exp());
    RCP<const Basic> b1 = v2.apply(p.get_base());
    RCP<const Basic> res = v3.apply(t);
    std::vector<std::string> cs;
    if (is_a<Csc>(*b1))
        cs.push_back(cand("sin", pow(sin(down_cast<const OneArgFunction &>(*b1).get_arg()), one)));
    if (is_a<Sec>(*b1))
        cs.push_back(cand("cos", pow(cos(down_cast<const OneArgFunction &>(*b1).get_arg()), one)));
    if (is_a<Cot>(*b1))
        cs.push_back(cand("tan", pow(tan(down_cast<const OneArgFunction &>(*b1).get_arg()), one)));
    cs.push_back(cand("keep", pow(b1, e1)));
    std::ostringstream o;
    o << "SPow ## " << verif::dump(*b1) << " ;; " << verif::dump(*e1) << " ## - ## ";
    for (size_t i = 0; i < cs.size(); i++)
        o << (i ? " %% " : "") << cs[i];
    o << " ## " << verif::dump(*res);
    rec = o.str();
    return true;
}

// compare two values obtained by substitution: 1 same, 0 different, -1 undecided
static int same_value(const RCP<const Basic> &a, const RCP<const Basic> &b)
{
    if (eq(*a, *b))
        return 1;
    bool ea = is_a<Integer>(*a) || is_a<Rational>(*a) || is_a<Complex>(*a) || is_a<Infty>(*a);
    bool eb = is_a<Integer>(*b) || is_a<Rational>(*b) || is_a<Complex>(*b) || is_a<Infty>(*b);
    if (is_a<NaN>(*a) || is_a<NaN>(*b))
        return -1;
    // values at a pole (oo, -oo, zoo) are not compared
    if (is_a<Infty>(*a) || is_a<Infty>(*b))
        return -1;
    if (ea && eb)
        return 0;
    try {
        std::complex<double> x = eval_complex_double(*a), y = eval_complex_double(*b);
        if (!std::isfinite(x.real()) || !std::isfinite(x.imag()) || !std::isfinite(y.real())
            || !std::isfinite(y.imag()))
            return -1;
        double d = std::abs(x - y), s = 1.0 + std::abs(x) + std::abs(y);
        if (d < 1e-9 * s)
            return 1;
        if (d > 1e-6 * s)
            return 0;
        return -1;
    } catch (...) {
        return -1;
    }
}

static std::string run_refine(const std::vector<std::string> &f)
{
    Ctx c;
    setup(c, f[1], f[2], f.size() > 3 ? f[3] : "-");
    std::ostringstream o;
    o << verif::dump(*c.e) << "\t" << c.stmts_dump() << "\t";
    if (c.aexn) {
        o << "AEXN";
        return o.str();
    }
    const Assumptions *A = c.ap();
    RCP<const Basic> r, s;
    std::string rd = "EXN", sd = "EXN";
    try {
        r = refine(c.e, A);
        rd = verif::dump(*r);
    } catch (SymEngineException &) {
    }
    try {
        s = simplify(c.e, A);
        sd = verif::dump(*s);
    } catch (SymEngineException &) {
    }
    std::vector<RCP<const Basic>> nodes;
    collect(c.e, nodes, 60);
    bool first = true;
    for (const auto &t : nodes) {
        std::string rec;
        try {
            if (node_record(t, A, rec)) {
                o << (first ? "" : " @@ ") << rec;
                first = false;
            }
        } catch (SymEngineException &) {
        }
    }
    if (!r.is_null()) {
        std::vector<RCP<const Basic>> snodes;
        collect(r, snodes, 60);
        for (const auto &t : snodes) {
            std::string rec;
            try {
                if (simp_record(t, rec)) {
                    o << (first ? "" : " @@ ") << rec;
                    first = false;
                }
            } catch (SymEngineException &) {
            }
        }
    }
    if (first)
        o << "-";
    o << "\t" << rd << " ;; " << sd;
    // ---- oracle: same value at every satisfying valuation
    std::ostringstream orc;
    int nviol = 0;
    for (size_t k = 0; k < c.vals.size() && nviol < 3; k++) {
        try {
            if (!satisfies(c, c.vals[k]))
                continue;
            RCP<const Basic> v0 = c.e->subs(c.vals[k]);
            if (!r.is_null()) {
                RCP<const Basic> v1 = r->subs(c.vals[k]);
                if (same_value(v0, v1) == 0) {
                    orc << (nviol ? " " : "") << "refine@" << k << ":" << verif::dump(*v0) << "/" << verif::dump(*v1);
                    nviol++;
                }
            }
            if (!s.is_null()) {
                RCP<const Basic> v2 = s->subs(c.vals[k]);
                if (same_value(v0, v2) == 0) {
                    orc << (nviol ? " " : "") << "simplify@" << k << ":" << verif::dump(*v0) << "/"
                        << verif::dump(*v2);
                    nviol++;
                }
            }
        } catch (...) {
        }
    }
    if (nviol)
        o << "\t#ORACLE:" << orc.str();
    return o.str();
}

// K <max|min> <recipe e> <assumptions> <node index among Max/Min nodes> <i,j,k>
static std::string run_keep(const std::vector<std::string> &f)
{
    Ctx c;
    setup(c, f[2], f[3], "-");
    const Assumptions *A = c.ap();
    std::vector<RCP<const Basic>> nodes;
    collect(c.e, nodes, 60);
    size_t want = std::stoul(f[4]), seen = 0;
    for (const auto &t : nodes) {
        if (!(is_a<Max>(*t) || is_a<Min>(*t)))
            continue;
        if (seen++ != want)
            continue;
        vec_basic na;
        for (const auto &a : t->get_args())
            na.push_back(refine(a, A));
        vec_basic keep;
        if (trim(f[5]) != "-")
            for (const auto &ix : split_sep(trim(f[5]), ","))
                keep.push_back(na.at(std::stoul(ix)));
        RCP<const Basic> cnd = is_a<Max>(*t) ? max(keep) : min(keep);
        return verif::dump(*cnd) + "\t" + verif::dump(*refine(t, A));
    }
    return "NONODE";
}

static std::string run_line(const std::string &line)
{
    std::vector<std::string> f = split_sep(line, "\t");
    try {
        if (f.size() >= 3 && f[0] == "Q")
            return run_query(f);
        if (f.size() >= 3 && f[0] == "R")
            return run_refine(f);
        if (f.size() >= 6 && f[0] == "K")
            return run_keep(f);
        return "BADLINE";
    } catch (SymEngineException &) {
        return "SETUP-" + verif::exn_name();
    } catch (std::exception &ex) {
        return std::string("SETUP-STD:") + ex.what();
    }
}

// one line, robustly: a crash while the INPUT is being built (recipe evaluation: constructors
// outside the anchored code) is reported as SETUP-CRASH and skipped by the checks
static std::string run_single(const std::string &line)
{
    std::vector<std::string> f = split_sep(line, "\t");
    bool ok = verif::survives(
        [&]() {
            try {
                Ctx c;
                if (f.size() >= 3 && (f[0] == "Q" || f[0] == "R"))
                    setup(c, f[1], f[2], f.size() > 3 ? f[3] : "-");
                else if (f.size() >= 4 && f[0] == "K")
                    setup(c, f[2], f[3], "-");
            } catch (...) {
            }
        },
        60);
    if (!ok)
        return "SETUP-CRASH";
    std::string full = verif::run_forked([&]() { return run_line(line); }, 120);
    bool died = full.find("CRASH:") != std::string::npos || (full.size() >= 4 && full.substr(full.size() - 4) == "HANG");
    if (died && f.size() > 3 && (f[0] == "Q" || f[0] == "R") && trim(f[3]) != "-") {
        // did the library's substitution of the ORACLE die (constructors outside the anchored code), or the
        // query / refine itself?  Redo the case without valuations.
        std::string line2 = f[0] + "\t" + f[1] + "\t" + f[2] + "\t-";
        std::string r2 = verif::run_forked([&]() { return run_line(line2); }, 120);
        bool died2 = r2.find("CRASH:") != std::string::npos || (r2.size() >= 4 && r2.substr(r2.size() - 4) == "HANG");
        if (!died2)
            return r2 + "\t#ORACLE-DIED";
    }
    return full;
}

int main()
{
    // lines are processed in batches inside one forked child (forking is the dominant cost);
    // a batch in which anything crashes or hangs is redone line by line
    const size_t BATCH = 24;
    std::vector<std::string> lines;
    std::string line;
    auto flush = [&]() {
        if (lines.empty())
            return;
        std::string out = verif::run_forked(
            [&]() {
                std::string o;
                for (const auto &l : lines)
                    o += run_line(l) + "\n";
                return o + "#END";
            },
            600);
        std::vector<std::string> res = split_sep(out, "\n");
        if (res.size() == lines.size() + 1 && res.back() == "#END") {
            for (size_t i = 0; i < lines.size(); i++)
                std::cout << res[i] << "\n";
        } else {
            for (const auto &l : lines)
                std::cout << run_single(l) << "\n";
        }
        std::cout.flush();
        lines.clear();
    };
    while (std::getline(std::cin, line)) {
        lines.push_back(line);
        if (lines.size() >= BATCH)
            flush();
    }
    flush();
    return 0;
}
