// C31 driver: truncated power series.
//   A <op> <prec> <n> <poly> <poly>   a SeriesBase/UnivariateSeries primitive on explicit
//                                     polynomials (k:num/den,... or - for the empty one)
//   B <prec> <recipe>                 series(f, x, prec) through the public API
// Output:  A-lines: <canon>            B-lines: <dump of f> \t <canon>
//   canon = P k:num/den ... | SYM (some coefficient is not a rational number) | EXN:<class>
// followed by \t#ORACLE:<what> when the property itself fails on the library's output:
//   * B-lines: the coefficients below x^prec differ from Taylor/Laurent coefficients computed
//     independently from the recipe (closed-form Maclaurin coefficients, Horner-free
//     composition, long division; exact rationals, carried with extra working precision);
//   * B-lines with symbolic coefficients: low-order coefficients compared numerically with
//     f^(k)(0)/k! obtained through diff/subs/evalf;
//   * A-lines: algebraic identities of the primitive (invert: s*r = 1, nthroot: r^n = s, ...).
#include <symengine/basic.h>
#include <symengine/add.h>
#include <symengine/mul.h>
#include <symengine/pow.h>
#include <symengine/functions.h>
#include <symengine/logic.h>
#include <symengine/sets.h>
#include <symengine/complex.h>
#include <symengine/complex_double.h>
#include <symengine/real_double.h>
#include <symengine/infinity.h>
#include <symengine/nan.h>
#include <symengine/constants.h>
#include <symengine/visitor.h>
#include <symengine/series.h>
#include <symengine/series_generic.h>
#include <symengine/eval_double.h>
#include <symengine/symengine_exception.h>
#include "common.h"
#include "dump.h"
#include "recipe.h"
#include <cmath>
using namespace SymEngine;
typedef rational_class Q;

// ------------------------------------------------------------------ canonical printing
static bool expr_rational(const Expression &e, std::string &out)
{
    const Basic &b = *e.get_basic();
    if (is_a<Integer>(b)) {
        out = verif::zstr(down_cast<const Integer &>(b).as_integer_class()) + "/1";
        return true;
    }
    if (is_a<Rational>(b)) {
        const rational_class &r = down_cast<const Rational &>(b).as_rational_class();
        out = verif::zstr(get_num(r)) + "/" + verif::zstr(get_den(r));
        return true;
    }
    return false;
}

static std::string canon_poly(const UExprDict &p)
{
    std::string s = "P";
    for (const auto &it : p.get_dict()) {
        std::string q;
        if (!expr_rational(it.second, q))
            return "SYM";
        s += " " + std::to_string(it.first) + ":" + q;
    }
    return s;
}

static Q q_of(const std::string &num, const std::string &den)
{
    integer_class a(num), b(den);
    Q r(a, b);
    canonicalize(r);
    return r;
}

static UExprDict parse_poly(const std::string &s)
{
    map_int_Expr m;
    if (s == "-")
        return UExprDict(m);
    std::stringstream ss(s);
    std::string t;
    while (std::getline(ss, t, ',')) {
        size_t c = t.find(':'), sl = t.find('/');
        int k = std::stoi(t.substr(0, c));
        std::string num = t.substr(c + 1, sl == std::string::npos ? std::string::npos : sl - c - 1);
        std::string den = sl == std::string::npos ? "1" : t.substr(sl + 1);
        m[k] = Expression(Rational::from_mpq(q_of(num, den)));
    }
    return UExprDict(m);
}

// rational coefficient of a polynomial with rational coefficients (ok=false otherwise)
static Q coef_of(const UExprDict &p, int k, bool &ok)
{
    auto it = p.get_dict().find(k);
    if (it == p.get_dict().end())
        return Q(0);
    const Basic &b = *it->second.get_basic();
    if (is_a<Integer>(b))
        return Q(down_cast<const Integer &>(b).as_integer_class());
    if (is_a<Rational>(b))
        return down_cast<const Rational &>(b).as_rational_class();
    ok = false;
    return Q(0);
}

// ------------------------------------------------------------------ independent Laurent oracle
// x^v * (c[0] + c[1] x + ...), c[0] != 0 unless c is empty (then the value is O(x^v));
// the absolute precision is v + c.size()
struct L {
    long v;
    std::vector<Q> c;
    long aprec() const
    {
        return v + (long)c.size();
    }
};
struct NoOracle {
    std::string why;
};
// number of top coefficients (below x^prec) that the library's absolute-precision scheme is known
// to lose: accumulated over every inverse / root of a series with non-zero valuation
static long g_lost = 0;

static void norm(L &a)
{
    size_t z = 0;
    while (z < a.c.size() && a.c[z] == 0)
        z++;
    if (z) {
        a.c.erase(a.c.begin(), a.c.begin() + z);
        a.v += (long)z;
    }
}
static L lconst(const Q &q, long N)
{
    L r;
    r.v = 0;
    r.c.assign((size_t)N, Q(0));
    if (N > 0)
        r.c[0] = q;
    norm(r);
    return r;
}
static L lvar(long N)
{
    L r;
    r.v = 0;
    r.c.assign((size_t)N, Q(0));
    if (N > 1)
        r.c[1] = Q(1);
    norm(r);
    return r;
}
static Q lget(const L &a, long d)
{
    long i = d - a.v;
    if (i < 0 || i >= (long)a.c.size())
        return Q(0);
    return a.c[(size_t)i];
}
static L ladd(const L &a, const L &b, int sign = 1)
{
    long ap = std::min(a.aprec(), b.aprec());
    long v = std::min(a.v, b.v);
    L r;
    r.v = v;
    if (ap > v)
        r.c.assign((size_t)(ap - v), Q(0));
    for (long d = v; d < ap; d++)
        r.c[(size_t)(d - v)] = sign > 0 ? Q(lget(a, d) + lget(b, d)) : Q(lget(a, d) - lget(b, d));
    if (ap <= v) {
        r.v = ap;
    }
    norm(r);
    return r;
}
static L lmul(const L &a, const L &b)
{
    L r;
    r.v = a.v + b.v;
    size_t n = std::min(a.c.size(), b.c.size());
    r.c.assign(n, Q(0));
    for (size_t i = 0; i < n; i++) {
        if (a.c[i] == 0)
            continue;
        for (size_t j = 0; i + j < n; j++)
            r.c[i + j] += a.c[i] * b.c[j];
    }
    norm(r);
    return r;
}
static L lscale(const L &a, const Q &q)
{
    L r = a;
    for (auto &x : r.c)
        x *= q;
    if (q == 0) {
        r.c.clear();
        r.v = a.aprec();
    }
    return r;
}
static L linv(const L &a)
{
    if (a.c.empty())
        throw NoOracle{"division by a series that vanishes to working precision"};
    if (a.v != 0)
        g_lost += 2 * std::labs(a.v); // s / x^v is only known to prec - v terms, and 1/x^v shifts again
    L r;
    r.v = -a.v;
    size_t n = a.c.size();
    r.c.assign(n, Q(0));
    r.c[0] = Q(1) / a.c[0];
    for (size_t k = 1; k < n; k++) {
        Q s(0);
        for (size_t i = 1; i <= k; i++)
            s += a.c[i] * r.c[k - i];
        r.c[k] = Q(-s) / a.c[0];
    }
    return r;
}
static L lpowi(const L &a, long n)
{
    if (n < 0) {
        if (a.v != 0)
            g_lost += std::labs(a.v) * (-n + 1);
        return lpowi(linv(a), -n);
    }
    if (n == 0) {
        if (a.c.empty())
            throw NoOracle{"0^0"};
        return lconst(Q(1), (long)a.c.size());
    }
    L r = a;
    for (long i = 1; i < n; i++)
        r = lmul(r, a);
    return r;
}
// sum_k f(k) u^k for a series u of positive valuation
static L lcompose(const std::function<Q(long)> &f, const L &u, long N)
{
    if (u.v < 1)
        throw NoOracle{"function of a series with non-zero constant term or a pole"};
    long ap = u.aprec();
    L r = lconst(f(0), ap);
    L pw = lconst(Q(1), std::max<long>(ap, 1));
    for (long k = 1; k * u.v < ap; k++) {
        pw = lmul(pw, u);
        if (pw.c.empty())
            break;
        Q fk = f(k);
        if (fk == 0)
            continue;
        r = ladd(r, lscale(pw, fk));
    }
    // the result is known exactly as far as u is
    L cut;
    cut.v = ap;
    return ladd(r, cut);
}
static Q qfact(long k)
{
    Q r(1);
    for (long i = 2; i <= k; i++)
        r *= Q(i);
    return r;
}
static Q f_exp(long k)
{
    return Q(1) / qfact(k);
}
static Q f_sin(long k)
{
    if (k % 2 == 0)
        return Q(0);
    return Q(((k - 1) / 2) % 2 ? -1 : 1) / qfact(k);
}
static Q f_cos(long k)
{
    if (k % 2 == 1)
        return Q(0);
    return Q((k / 2) % 2 ? -1 : 1) / qfact(k);
}
static Q f_sinh(long k)
{
    return k % 2 ? Q(1) / qfact(k) : Q(0);
}
static Q f_cosh(long k)
{
    return k % 2 ? Q(0) : Q(1) / qfact(k);
}
static Q f_log1p(long k)
{
    if (k == 0)
        return Q(0);
    return Q(k % 2 ? 1 : -1) / Q(k);
}
static Q f_atan(long k)
{
    if (k % 2 == 0)
        return Q(0);
    return Q(((k - 1) / 2) % 2 ? -1 : 1) / Q(k);
}
static Q f_atanh(long k)
{
    return k % 2 ? Q(1) / Q(k) : Q(0);
}
static Q f_asin(long k)
{
    if (k % 2 == 0)
        return Q(0);
    long m = (k - 1) / 2;
    Q b(1); // binomial(2m, m) / 4^m
    for (long i = 1; i <= m; i++)
        b *= Q(2 * i - 1) / Q(2 * i);
    return b / Q(k);
}
static Q f_asinh(long k)
{
    Q r = f_asin(k);
    return ((k - 1) / 2) % 2 ? Q(-r) : r;
}
static Q f_lambertw(long k)
{
    if (k == 0)
        return Q(0);
    Q r(1);
    for (long i = 0; i < k - 1; i++)
        r *= Q(-k);
    return r / qfact(k);
}
static std::function<Q(long)> f_binom(const Q &r)
{
    return [r](long k) {
        Q b(1);
        for (long i = 0; i < k; i++)
            b *= Q(r - Q(i)) / Q(i + 1);
        return b;
    };
}
// exact n-th root of a positive rational, if it is rational
static bool qroot(const Q &c, unsigned long n, Q &out)
{
    if (c == 0) {
        out = Q(0);
        return true;
    }
    integer_class a = get_num(c), b = get_den(c), ra, rb;
    if (a < 0)
        return false;
    if (!mp_root(ra, a, n) || !mp_root(rb, b, n))
        return false;
    out = Q(ra, rb);
    canonicalize(out);
    return true;
}
// a^(p/q)
static L lpowq(const L &a, long p, long q, long N)
{
    if (q < 0) {
        q = -q;
        p = -p;
    }
    if (q == 1)
        return lpowi(a, p);
    if (a.c.empty())
        throw NoOracle{"root of a vanishing series"};
    if (a.v % q != 0)
        throw NoOracle{"Puiseux"};
    if (a.v != 0)
        g_lost += 2 * std::labs(a.v) * (std::labs(p) + 1);
    Q r0;
    if (!qroot(a.c[0], (unsigned long)q, r0))
        throw NoOracle{"irrational root of the leading coefficient"};
    // a = c0 x^v (1 + w)
    L w = a;
    w.v = 0;
    w = lscale(w, Q(1) / a.c[0]);
    w = ladd(w, lconst(Q(1), (long)w.c.size()), -1);
    L r = lcompose(f_binom(Q(p) / Q(q)), w.c.empty() ? L{std::max<long>(w.v, 1), {}} : w, N);
    // r0^p
    Q r0p(1);
    for (long i = 0; i < std::labs(p); i++)
        r0p *= r0;
    if (p < 0)
        r0p = Q(1) / r0p;
    r = lscale(r, r0p);
    r.v += a.v / q * p;
    return r;
}
static L lconstshift(const L &a, Q &c0)
{
    // split a = c0 + w with w of positive valuation
    if (a.v < 0)
        throw NoOracle{"pole inside a function"};
    c0 = lget(a, 0);
    return ladd(a, lconst(c0, std::max<long>(a.aprec(), 1)), -1);
}

static long sexp_long(const verif::Sexp &e)
{
    return std::stol(e.atom);
}

static L oracle_eval(const verif::Sexp &e, long N)
{
    if (e.is_atom)
        throw NoOracle{"atom " + e.atom};
    const std::string &op = e.kids.at(0).atom;
    auto arg = [&](size_t i) { return oracle_eval(e.kids.at(i), N); };
    auto zero_const = [&](const L &a, const char *what) {
        if (a.v < 1)
            throw NoOracle{std::string(what) + " of a series with non-zero constant term or a pole"};
        return a;
    };
    if (op == "i")
        return lconst(Q(integer_class(e.kids.at(1).atom)), N);
    if (op == "q")
        return lconst(q_of(e.kids.at(1).atom, e.kids.at(2).atom), N);
    if (op == "s") {
        if (e.kids.at(1).atom != "x")
            throw NoOracle{"other symbol"};
        return lvar(N);
    }
    if (op == "add")
        return ladd(arg(1), arg(2));
    if (op == "sub")
        return ladd(arg(1), arg(2), -1);
    if (op == "neg")
        return lscale(arg(1), Q(-1));
    if (op == "mul")
        return lmul(arg(1), arg(2));
    if (op == "div")
        return lmul(arg(1), linv(arg(2)));
    if (op == "sqrt")
        return lpowq(arg(1), 1, 2, N);
    if (op == "cbrt")
        return lpowq(arg(1), 1, 3, N);
    if (op == "exp")
        return lcompose(f_exp, zero_const(arg(1), "exp"), N);
    if (op == "pow") {
        const verif::Sexp &ex = e.kids.at(2);
        if (!ex.is_atom && ex.kids.at(0).atom == "i")
            return lpowi(arg(1), sexp_long(ex.kids.at(1)));
        if (!ex.is_atom && ex.kids.at(0).atom == "q")
            return lpowq(arg(1), sexp_long(ex.kids.at(1)), sexp_long(ex.kids.at(2)), N);
        // a^b = exp(b log a), a = 1 + w
        Q c0;
        L a = arg(1);
        L w = lconstshift(a, c0);
        if (!(c0 == 1))
            throw NoOracle{"general power with base constant term != 1"};
        L lg = lcompose(f_log1p, w.c.empty() ? L{std::max<long>(w.v, 1), {}} : w, N);
        return lcompose(f_exp, zero_const(lmul(arg(2), lg), "exp"), N);
    }
    if (op == "f1") {
        const std::string &fn = e.kids.at(1).atom;
        L a = oracle_eval(e.kids.at(2), N);
        if (fn == "log") {
            Q c0;
            L w = lconstshift(a, c0);
            if (!(c0 == 1))
                throw NoOracle{"log with constant term != 1"};
            return lcompose(f_log1p, w.c.empty() ? L{std::max<long>(w.v, 1), {}} : w, N);
        }
        if (fn == "sqrt")
            return lpowq(a, 1, 2, N);
        if (fn == "cbrt")
            return lpowq(a, 1, 3, N);
        if (fn == "cos" || fn == "cosh" || fn == "sec" || fn == "sech") {
            // even functions with value 1 at 0
            L u = zero_const(a, fn.c_str());
            L r = lcompose((fn == "cos" || fn == "sec") ? f_cos : f_cosh, u, N);
            return (fn == "sec" || fn == "sech") ? linv(r) : r;
        }
        L u = zero_const(a, fn.c_str());
        if (fn == "sin")
            return lcompose(f_sin, u, N);
        if (fn == "exp")
            return lcompose(f_exp, u, N);
        if (fn == "sinh")
            return lcompose(f_sinh, u, N);
        if (fn == "atan")
            return lcompose(f_atan, u, N);
        if (fn == "atanh")
            return lcompose(f_atanh, u, N);
        if (fn == "asin")
            return lcompose(f_asin, u, N);
        if (fn == "asinh")
            return lcompose(f_asinh, u, N);
        if (fn == "lambertw")
            return lcompose(f_lambertw, u, N);
        if (fn == "tan")
            return lmul(lcompose(f_sin, u, N), linv(lcompose(f_cos, u, N)));
        if (fn == "tanh")
            return lmul(lcompose(f_sinh, u, N), linv(lcompose(f_cosh, u, N)));
        if (fn == "cot")
            return lmul(lcompose(f_cos, u, N), linv(lcompose(f_sin, u, N)));
        if (fn == "coth")
            return lmul(lcompose(f_cosh, u, N), linv(lcompose(f_sinh, u, N)));
        if (fn == "csc")
            return linv(lcompose(f_sin, u, N));
        if (fn == "csch")
            return linv(lcompose(f_sinh, u, N));
        throw NoOracle{"function " + fn};
    }
    throw NoOracle{"operation " + op};
}

// ------------------------------------------------------------------ B lines
static const long PAD = 14;

static std::string numeric_oracle(const RCP<const Basic> &f, const UExprDict &p, unsigned prec)
{
    // f^(k)(0)/k! for k < min(prec, 4), numerically
    if (!p.get_dict().empty() && p.get_dict().begin()->first < 0)
        return "";
    RCP<const Symbol> x = symbol("x");
    RCP<const Basic> d = f;
    double fact = 1.0;
    for (unsigned k = 0; k < prec && k < 4; k++) {
        if (k > 0) {
            d = d->diff(x);
            fact *= k;
        }
        double want, got;
        try {
            want = eval_double(*d->subs({{x, zero}})) / fact;
            auto it = p.get_dict().find((int)k);
            got = it == p.get_dict().end() ? 0.0 : eval_double(*it->second.get_basic());
        } catch (...) {
            return "";
        }
        if (!std::isfinite(want) || !std::isfinite(got))
            return "";
        if (std::fabs(want - got) > 1e-7 * (1.0 + std::fabs(want))) {
            std::ostringstream o;
            o << " symbolic coefficient of x^" << k << " evaluates to " << got << ", f^(" << k << ")(0)/" << k
              << "! = " << want;
            return o.str();
        }
    }
    return "";
}

static std::string run_b(unsigned prec, const std::string &rec)
{
    RCP<const Basic> f;
    try {
        f = verif::eval_recipe(rec);
    } catch (...) {
        return "NOEXPR\tNOEXPR";
    }
    std::string out = verif::dump(*f) + "\t";
    UExprDict p;
    try {
        RCP<const SeriesCoeffInterface> s = series(f, symbol("x"), prec);
        if (!is_a<UnivariateSeries>(*s))
            return out + "OTHERSERIES";
        p = down_cast<const UnivariateSeries &>(*s).get_poly();
        if (s->get_degree() != prec)
            return out + "P\t#ORACLE: degree " + std::to_string(s->get_degree());
    } catch (...) {
        return out + verif::exn_name();
    }
    std::string canon = canon_poly(p);
    out += canon;
    if (canon == "SYM") {
        std::string w = numeric_oracle(f, p, prec);
        if (!w.empty())
            out += "\t#ORACLE:[symbolic]" + w;
        return out;
    }
    // exact oracle
    try {
        g_lost = 0;
        L t = oracle_eval(verif::parse_sexp(rec), (long)prec + PAD);
        if (t.aprec() < (long)prec)
            return out; // inconclusive
        bool ok = true;
        long lo = t.v;
        if (!p.get_dict().empty())
            lo = std::min<long>(lo, p.get_dict().begin()->first);
        for (long d = lo; d < (long)prec; d++) {
            Q got = coef_of(p, (int)d, ok);
            Q want = lget(t, d);
            if (!(got == want)) {
                std::ostringstream o;
                // [shift]: one of the top coefficients after a division by a series without
                // constant term (the known absolute-precision limitation)
                o << ((g_lost > 0 && d >= (long)prec - g_lost) ? "[shift]" : (t.v < 0 ? "[laurent]" : "[taylor]"))
                  << " coefficient of x^" << d
                  << " is " << verif::zstr(get_num(got)) << "/" << verif::zstr(get_den(got)) << ", Taylor coefficient is "
                  << verif::zstr(get_num(want)) << "/" << verif::zstr(get_den(want));
                return out + "\t#ORACLE:" + o.str();
            }
        }
    } catch (const NoOracle &) {
    } catch (...) {
    }
    return out;
}

// ------------------------------------------------------------------ A lines
static UExprDict trunc_poly(const UExprDict &p, long prec)
{
    map_int_Expr m;
    for (const auto &it : p.get_dict())
        if (it.first < prec)
            m[it.first] = it.second;
    return UExprDict(m);
}
static bool nonneg_keys(const UExprDict &p)
{
    return p.get_dict().empty() || p.get_dict().begin()->first >= 0;
}

static std::string run_a(const std::string &op, unsigned prec, int n, const UExprDict &a, const UExprDict &b)
{
    typedef UnivariateSeries S;
    const UExprDict var = S::var("x");
    UExprDict r;
    std::string oracle;
    try {
        if (op == "mul")
            r = S::mul(a, b, prec);
        else if (op == "pow")
            r = S::pow(a, n, prec);
        else if (op == "diff")
            r = S::diff(a, var);
        else if (op == "integrate")
            r = S::integrate(a, var);
        else if (op == "subs")
            r = S::subs(a, var, b, prec);
        else if (op == "add")
            r = a + b;
        else if (op == "sub")
            r = a - b;
        else if (op == "mulfull")
            r = a * b;
        else if (op == "mulassign") {
            r = a;
            r *= b;
        } else if (op == "invert")
            r = S::series_invert(a, var, prec);
        else if (op == "reverse")
            r = S::series_reverse(a, var, prec);
        else if (op == "nthroot")
            r = S::series_nthroot(a, n, var, prec);
        else if (op == "atan")
            r = S::series_atan(a, var, prec);
        else if (op == "tan")
            r = S::series_tan(a, var, prec);
        else if (op == "cot")
            r = S::series_cot(a, var, prec);
        else if (op == "sin")
            r = S::series_sin(a, var, prec);
        else if (op == "cos")
            r = S::series_cos(a, var, prec);
        else if (op == "csc")
            r = S::series_csc(a, var, prec);
        else if (op == "sec")
            r = S::series_sec(a, var, prec);
        else if (op == "asin")
            r = S::series_asin(a, var, prec);
        else if (op == "acos")
            r = S::series_acos(a, var, prec);
        else if (op == "log")
            r = S::series_log(a, var, prec);
        else if (op == "exp")
            r = S::series_exp(a, var, prec);
        else if (op == "lambertw")
            r = S::series_lambertw(a, var, prec);
        else if (op == "sinh")
            r = S::series_sinh(a, var, prec);
        else if (op == "cosh")
            r = S::series_cosh(a, var, prec);
        else if (op == "atanh")
            r = S::series_atanh(a, var, prec);
        else if (op == "asinh")
            r = S::series_asinh(a, var, prec);
        else if (op == "tanh")
            r = S::series_tanh(a, var, prec);
        else if (op == "steps") {
            map_int_Expr m;
            int i = 0;
            for (unsigned s : S::step_list(prec))
                m[i++] = Expression(integer((unsigned long)s));
            // zero entries must survive: bypass the filtering constructor
            UExprDict t;
            t.dict_ = m;
            r = t;
        } else
            return "BADOP";
    } catch (...) {
        return verif::exn_name();
    }
    std::string canon = canon_poly(r);
    // algebraic identities, for power series inputs with non-zero constant term
    try {
        long P = (long)prec;
        if (canon != "SYM" && prec < 1000 && nonneg_keys(a) && nonneg_keys(r)) {
            bool c0 = a.get_dict().count(0) != 0;
            if (op == "invert" && c0) {
                if (!(trunc_poly(a * r, P) == UExprDict(1)) && prec > 0)
                    oracle = " s * invert(s) != 1 mod x^prec";
            } else if (op == "nthroot" && c0 && n >= 2) {
                UExprDict t(1);
                for (int i = 0; i < n; i++)
                    t = trunc_poly(t * trunc_poly(r, P), P);
                if (!(t == trunc_poly(a, P)))
                    oracle = " nthroot(s, n)^n != s mod x^prec";
            } else if (op == "mul") {
                if (nonneg_keys(b) && !(trunc_poly(a * b, P) == r))
                    oracle = " mul is not the truncated product";
            } else if (op == "exp" && !c0 && prec > 0) {
                // log(exp(s)) = s
                UExprDict e = trunc_poly(r, P);
                UExprDict l = S::mul(S::diff(e, var), S::series_invert(e, var, prec), prec - 1);
                l = S::integrate(l, var);
                if (!(trunc_poly(l, P) == trunc_poly(a, P)))
                    oracle = " log(exp(s)) != s mod x^prec";
            }
        }
    } catch (...) {
    }
    if (!oracle.empty())
        canon += "\t#ORACLE:[primitive]" + oracle;
    return canon;
}

static std::string run_line(const std::string &line)
{
    if (line.size() < 2)
        return "BADLINE";
    if (line[0] == 'A') {
        std::vector<std::string> t = verif::split_ws(line);
        if (t.size() != 6)
            return "BADLINE";
        UExprDict a = parse_poly(t[4]), b = parse_poly(t[5]);
        return run_a(t[1], (unsigned)std::stoul(t[2]), std::stoi(t[3]), a, b);
    }
    if (line[0] == 'B') {
        size_t sp = line.find(' ', 2);
        if (sp == std::string::npos)
            return "BADLINE";
        return run_b((unsigned)std::stoul(line.substr(2, sp - 2)), line.substr(sp + 1));
    }
    return "BADLINE";
}

int main()
{
    std::string line;
    while (std::getline(std::cin, line)) {
        // a case never produces an empty line: an empty result means that fork() itself failed
        // (process table exhausted on a loaded machine) -- retry instead of reporting it
        std::string r;
        for (int attempt = 0; attempt < 6; attempt++) {
            r = verif::run_forked([&]() { return run_line(line); }, 60);
            if (!r.empty())
                break;
            usleep(300000);
        }
        std::cout << r << "\n";
    }
    return 0;
}
